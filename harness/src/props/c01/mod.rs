//! C01 — reading any octet string as a DNS message is total.
use crate::engine::*;
use crate::gen::message as gm;
use crate::gen::name as gn;
use crate::gen::*;
use crate::refimpl::rdata::WalkErr;
use crate::refimpl::wire;
use crate::{vensure, vfail};
use arbitrary::Unstructured;
use bytes::Bytes;
use domain::base::iana::{Class, Rcode, Rtype};
use domain::base::message::Message;
use domain::base::name::{Label, ParsedName, ToLabelIter, ToName};
use domain::base::opt::{AllOptData, Opt};
use domain::base::record::ParsedRecord;
use domain::base::zonefile_fmt::{DisplayKind, ZonefileFmt};
use domain::base::{MessageBuilder, Name, RecordSection};
use domain::base::rdata::UnknownRecordData;
use domain::rdata::{AllRecordData, ZoneRecordData};
use octseq::Octets;
use std::collections::hash_map::DefaultHasher;
use std::collections::BTreeMap;
use std::fmt::Write as _;
use std::hash::{Hash, Hasher};

type T = Vec<String>;

/// Display through a capped sink: a Display impl that never terminates (or
/// produces output out of all proportion to a 64 KiB message) is detected
/// instead of exhausting memory. 16 MiB is more than 60x the largest
/// escaped rendering of a 65535-octet message.
pub struct Capped { pub buf: String, pub cap: usize, pub hit: bool }
impl std::fmt::Write for Capped {
    fn write_str(&mut self, s: &str) -> std::fmt::Result {
        if self.buf.len() + s.len() > self.cap { self.hit = true; return Err(std::fmt::Error); }
        self.buf.push_str(s);
        Ok(())
    }
}
pub fn show<D: std::fmt::Display + ?Sized>(what: &str, d: &D) -> Result<String, Violation> {
    let mut c = Capped { buf: String::new(), cap: 16 << 20, hit: false };
    let r = write!(c, "{}", d);
    if c.hit {
        return Err(Violation::new(format!("display-unbounded:{what}"), format!("Display of {what} produced more than 16 MiB for one message (non-terminating Display?)")));
    }
    let _ = r;
    Ok(c.buf)
}
pub fn show_dbg<D: std::fmt::Debug + ?Sized>(what: &str, d: &D) -> Result<String, Violation> {
    let mut c = Capped { buf: String::new(), cap: 16 << 20, hit: false };
    let r = write!(c, "{:?}", d);
    if c.hit {
        return Err(Violation::new(format!("display-unbounded:{what}"), format!("Debug of {what} produced more than 16 MiB")));
    }
    let _ = r;
    Ok(c.buf)
}


fn hash_of<H: Hash>(h: &H) -> u64 {
    let mut s = DefaultHasher::new();
    h.hash(&mut s);
    s.finish()
}

/// Exercise a name returned by the library. Appends to the transcript and
/// returns an error for step-bound or validity violations.
fn use_name<O: Octets + Clone>(what: &str, n: &ParsedName<O>, t: &mut T) -> CaseResult {
    let mut labels: Vec<Vec<u8>> = vec![];
    let mut steps = 0;
    for l in n.iter() {
        steps += 1;
        vensure!(steps <= 130, "parsedname-iter-unbounded", "{what}: ParsedName::iter yields more than 130 labels");
        labels.push(l.as_slice().to_vec());
    }
    vensure!(labels.last().map(|l| l.is_empty()).unwrap_or(false), "parsedname-no-root", "{what}: label iteration does not end in root: {labels:?}");
    let mut back: Vec<Vec<u8>> = vec![];
    let mut steps = 0;
    for l in n.iter().rev() {
        steps += 1;
        vensure!(steps <= 130, "parsedname-iter-unbounded", "{what}: reverse iteration unbounded");
        back.push(l.as_slice().to_vec());
    }
    back.reverse();
    vensure!(back == labels, "parsedname-iter-back-differs", "{what}: forward {labels:?} backward {back:?}");
    let wire: Vec<u8> = labels.iter().flat_map(|l| std::iter::once(l.len() as u8).chain(l.iter().copied())).collect();
    vensure!(gn::from_wire(&wire).is_some(), "parsedname-invalid", "{what}: returned name is not a valid name: {wire:?}");
    vensure!(n.label_count() == labels.len(), "parsedname-label-count", "{what}: label_count");
    vensure!(usize::from(n.compose_len()) == wire.len(), "parsedname-len", "{what}: compose_len {} vs {}", n.compose_len(), wire.len());
    let flat: Name<Vec<u8>> = n.to_name();
    vensure!(flat.as_slice() == &wire[..], "parsedname-to-name", "{what}: to_name gives {:?} want {wire:?}", flat.as_slice());
    let canon: Name<Vec<u8>> = n.to_canonical_name();
    vensure!(canon.as_slice() == &wire.to_ascii_lowercase()[..], "parsedname-to-canonical", "{what}");
    vensure!(*n == flat && n.name_cmp(&flat) == std::cmp::Ordering::Equal, "parsedname-eq-flat", "{what}: name != its flat copy");
    vensure!(hash_of(n) == hash_of(&flat), "parsedname-hash-flat", "{what}: hash differs from flat copy");
    let _ = n.first();
    let _ = n.is_root();
    // Every name derived from `n` (suffixes, after split_first, after parent)
    // is a returned name too: it must support the same operations, and it must
    // be the expected suffix of the label sequence.
    let want_suffix = |k: usize| -> Vec<u8> { labels[k..].iter().flat_map(|l| std::iter::once(l.len() as u8).chain(l.iter().copied())).collect() };
    let mut steps = 0;
    for (k, s) in n.iter_suffixes().enumerate() {
        steps += 1;
        vensure!(steps <= 130, "parsedname-suffixes-unbounded", "{what}");
        derived(what, "suffix", &s, &want_suffix(k.min(labels.len() - 1)))?;
    }
    let mut cur = n.clone();
    let mut steps = 0;
    loop {
        let got_label = cur.split_first().is_some();
        if !got_label {
            break;
        }
        steps += 1;
        vensure!(steps <= 130, "parsedname-split-first-unbounded", "{what}");
        derived(what, "after-split_first", &cur, &want_suffix(steps.min(labels.len() - 1)))?;
    }
    let mut cur = n.clone();
    let mut steps = 0;
    while cur.parent() {
        steps += 1;
        vensure!(steps <= 130, "parsedname-parent-unbounded", "{what}");
        derived(what, "after-parent", &cur, &want_suffix(steps.min(labels.len() - 1)))?;
    }
    let shown = show("name", n)?;
    let _ = show_dbg("name", n)?;
    let _ = writeln!(t.last_mut().unwrap(), " name={shown}");
    Ok(())
}



/// Reads the derived / computed accessors of a typed record the library
/// returned ("whatever is returned ... can itself be iterated ... without
/// failure"): nested iterators, decoded sub-fields, key tags.
fn poke_accessors<O: AsRef<[u8]> + Octets, N: ToName>(d: &AllRecordData<O, N>) -> CaseResult {
    use domain::base::iana::Rtype as Rt;
    match d {
        AllRecordData::Tsig(t) => {
            let _ = t.other_time();
            let _ = t.time_signed();
            let _ = t.is_valid_at(domain::rdata::tsig::Time48::from_u64(0));
            let _ = (t.fudge(), t.original_id(), t.error(), t.mac_slice().len());
        }
        AllRecordData::Txt(t) => {
            let mut n = 0usize;
            for s in t.iter() {
                n += 1;
                vensure!(n <= 70_000, "txt-iter-unbounded", "Txt::iter unbounded");
                let _ = s.len();
            }
            let _ = t.try_text::<Vec<u8>>().map(|v| v.len());
            let mut n = 0usize;
            for s in t.iter_charstrs() {
                n += 1;
                vensure!(n <= 70_000, "txt-iter-unbounded", "Txt::iter_charstrs unbounded");
                let _ = s.len();
            }
            let _ = (t.len(), t.as_flat_slice().map(|s| s.len()));
        }
        AllRecordData::Nsec(n) => {
            let mut k = 0usize;
            for t in n.types().iter() {
                k += 1;
                vensure!(k <= 70_000, "bitmap-iter-unbounded", "RtypeBitmap::iter unbounded");
                let _ = n.types().contains(t);
            }
            let _ = n.types().contains(Rt::A);
        }
        AllRecordData::Nsec3(n) => {
            let mut k = 0usize;
            for _ in n.types().iter() {
                k += 1;
                vensure!(k <= 70_000, "bitmap-iter-unbounded", "RtypeBitmap::iter unbounded");
            }
            let _ = (n.opt_out(), n.iterations(), n.salt().as_slice().len(), n.next_owner().as_slice().len());
        }
        AllRecordData::Dnskey(k) => {
            let _ = (k.key_tag(), k.is_zone_key(), k.is_secure_entry_point(), k.is_revoked());
        }
        AllRecordData::Cdnskey(k) => {
            let _ = (k.flags(), k.protocol(), k.algorithm());
        }
        AllRecordData::Rrsig(r) => {
            let _ = (r.type_covered(), r.labels(), r.original_ttl(), r.expiration().into_int(), r.inception().into_int(), r.key_tag());
        }
        AllRecordData::Svcb(sv) => {
            let mut k = 0usize;
            for v in sv.params().iter::<domain::rdata::svcb::value::AllValues<_>>() {
                k += 1;
                vensure!(k <= 70_000, "svcparams-iter-unbounded", "SvcParams::iter unbounded");
                if let Ok(v) = v {
                    let _ = show("svc-value", &v)?;
                }
            }
        }
        AllRecordData::Https(sv) => {
            let mut k = 0usize;
            for v in sv.params().iter::<domain::rdata::svcb::value::AllValues<_>>() {
                k += 1;
                vensure!(k <= 70_000, "svcparams-iter-unbounded", "SvcParams::iter unbounded");
                if let Ok(v) = v {
                    let _ = show("svc-value", &v)?;
                }
            }
        }
        AllRecordData::Ipseckey(k) => {
            let g = k.gateway();
            let _ = (g.rdlen(), g.is_correct_gateway_type(k.gateway_type()), k.precedence(), k.algorithm(), k.key().as_ref().len());
        }
        AllRecordData::Ds(d) => { let _ = (d.key_tag(), d.algorithm(), d.digest_type(), d.digest().as_ref().len()); }
        AllRecordData::Cds(d) => { let _ = (d.key_tag(), d.algorithm(), d.digest_type(), d.digest().as_ref().len()); }
        AllRecordData::Nsec3param(n) => { let _ = (n.hash_algorithm(), n.flags(), n.opt_out_flag(), n.iterations(), n.salt().as_slice().len(), show("nsec3-salt", n.salt())?.len()); }
        AllRecordData::Naptr(n) => { let _ = (n.order(), n.preference(), show("naptr-flags", n.flags())?.len(), show("naptr-services", n.services())?.len(), show("naptr-regexp", n.regexp())?.len()); }
        AllRecordData::Hinfo(h) => { let _ = (show("hinfo-cpu", h.cpu())?.len(), show("hinfo-os", h.os())?.len()); }
        AllRecordData::Caa(c) => {
            let _ = (c.flags(), show("caa-tag", c.tag())?.len(), c.value().as_ref().len());
        }
        _ => {}
    }
    Ok(())
}

/// Reads the accessors, Display, Hash and comparison of an OPT option the
/// library returned.
fn poke_opt<O: AsRef<[u8]> + Octets, N: ToName + std::fmt::Display + Hash>(d: &AllOptData<O, N>) -> CaseResult {
    match d {
        AllOptData::Dau(x) => { let mut k = 0usize; for _ in x.iter() { k += 1; vensure!(k <= 70_000, "opt-understood-iter-unbounded", "Dau::iter unbounded"); } let _ = (show("opt-dau", x)?, hash_of(x), x.as_slice().len()); }
        AllOptData::Dhu(x) => { let mut k = 0usize; for _ in x.iter() { k += 1; vensure!(k <= 70_000, "opt-understood-iter-unbounded", "Dhu::iter unbounded"); } let _ = (show("opt-dhu", x)?, hash_of(x), x.as_slice().len()); }
        AllOptData::N3u(x) => { let mut k = 0usize; for _ in x.iter() { k += 1; vensure!(k <= 70_000, "opt-understood-iter-unbounded", "N3u::iter unbounded"); } let _ = (show("opt-n3u", x)?, hash_of(x), x.as_slice().len()); }
        AllOptData::Chain(x) => { let _ = (show("opt-chain", x)?, hash_of(x), show("opt-chain-start", x.start())?); }
        AllOptData::Cookie(x) => {
            let _ = (show("opt-cookie", x)?, hash_of(x), show("opt-client-cookie", &x.client())?);
            if let Some(s) = x.server() {
                let _ = (show("opt-server-cookie", s)?, hash_of(s), s.compose_len());
                if let Some(std_) = s.try_to_standard() { let _ = show("opt-std-server-cookie", &std_)?; }
            }
            let _ = x.check_server_hash(std::net::IpAddr::V4(std::net::Ipv4Addr::new(192, 0, 2, 1)), &[7u8; 16], |_| true);
        }
        AllOptData::Expire(x) => { let _ = (show("opt-expire", x)?, hash_of(x)); }
        AllOptData::ExtendedError(x) => {
            let _ = (show("opt-exterr", x)?, show_dbg("opt-exterr", x)?, hash_of(x), x.code(), x.is_private(), x.text_slice().map(|s| s.len()));
            match x.text() { Some(Ok(s)) => { let _ = show("opt-exterr-text", s)?; } Some(Err(o)) => { let _ = o.as_ref().len(); } None => {} }
        }
        AllOptData::TcpKeepalive(x) => { let _ = (show("opt-keepalive", x)?, hash_of(x), x.timeout().map(|t| show("opt-idle-timeout", &t).map(|s| s.len()))); }
        AllOptData::KeyTag(x) => { let mut k = 0usize; for _ in x.iter() { k += 1; vensure!(k <= 70_000, "opt-keytag-iter-unbounded", "KeyTag::iter unbounded"); } let _ = (show("opt-keytag", x)?, hash_of(x), x.as_slice().len()); }
        AllOptData::Nsid(x) => { let _ = (show("opt-nsid", x)?, hash_of(x), x.as_slice().len()); }
        AllOptData::Padding(x) => { let _ = (show("opt-padding", x)?, x.as_slice().len()); }
        AllOptData::ClientSubnet(x) => { let _ = (show("opt-subnet", x)?, hash_of(x), x.source_prefix_len(), x.scope_prefix_len(), x.addr()); }
        AllOptData::Other(x) => { let _ = (show("opt-unknown", x)?, x.code(), x.as_slice().len()); }
        _ => {}
    }
    Ok(())
}

/// Operations on a name derived from a returned name.
fn derived<O: Octets>(what: &str, how: &str, d: &ParsedName<O>, want_wire: &[u8]) -> CaseResult {
    let _ = d.first();
    let _ = d.is_root();
    let _ = d.label_count();
    let mut got: Vec<u8> = vec![];
    let mut steps = 0;
    for l in d.iter() {
        steps += 1;
        vensure!(steps <= 130, "parsedname-iter-unbounded", "{what}: {how}: iteration unbounded");
        got.push(l.len() as u8);
        got.extend_from_slice(l.as_slice());
    }
    vensure!(got == want_wire, format!("parsedname-derived-differs:{how}"), "{what}: name {how} iterates as {got:?}, expected {want_wire:?}");
    let flat: Name<Vec<u8>> = d.to_name();
    vensure!(flat.as_slice() == want_wire, format!("parsedname-derived-to_name:{how}"), "{what}: {how}: to_name gives {:?} want {want_wire:?}", flat.as_slice());
    vensure!(*d == flat, format!("parsedname-derived-eq-flat:{how}"), "{what}: {how}: derived name != its flat copy");
    vensure!(hash_of(d) == hash_of(&flat), format!("parsedname-derived-hash:{how}"), "{what}: {how}: hash differs from flat copy");
    let _ = show("derived-name", d)?;
    Ok(())
}

fn e2s<E: std::fmt::Display>(e: E) -> String {
    format!("ERR({e})")
}

/// Drain a record section with the typed iterator for D; bounded.
macro_rules! limit_types {
    ($sec:expr, $t:expr, $count:expr, [$($ty:ty),* $(,)?]) => {{
        $(
            {
                let mut n_ok = 0usize; let mut n_err = 0usize; let mut steps = 0usize;
                let mut it = $sec.limit_to::<$ty>();
                while let Some(r) = it.next() {
                    steps += 1;
                    vensure!(steps <= $count + 2, "record-iter-unbounded", "limit_to::<{}> yields more than the header count", stringify!($ty));
                    match r {
                        Ok(rec) => { n_ok += 1; let _ = show("typed-record", &rec)?; let _ = hash_of(&rec); let _ = rec == rec; }
                        Err(_) => { n_err += 1; }
                    }
                }
                /* typed iterators may report one RDATA error per record and continue (documented) */
                $t.push(format!("limit_to<{}> ok={} err={}", stringify!($ty), n_ok, n_err));
            }
        )*
    }};
}

macro_rules! traverse_impl {
($modname:ident, $O:ty) => {
mod $modname {
use super::*;
#[allow(dead_code)] type Rg<'a> = <$O as Octets>::Range<'a>;
#[allow(dead_code)] type Pn<'a> = ParsedName<Rg<'a>>;
fn section<'a>(
    sname: &str,
    sec: RecordSection<'a, $O>,
    count: usize,
    heavy: bool,
    t: &mut T,
    seen: &mut Vec<(usize, String, u16, u16, u32, u16, Result<Vec<u8>, String>)>,
    secno: usize,
) -> CaseResult
{
    t.push(format!("section {sname} count={count} pos={}", sec.pos()));
    let mut steps = 0usize;
    let mut errs = 0usize;
    let mut it = sec;
    let mut prev: Option<ParsedRecord<'a, $O>> = None;
    while let Some(r) = it.next() {
        steps += 1;
        vensure!(steps <= count + 1, "record-iter-unbounded", "{sname}: iterator yields more than the header count {count}");
        match r {
            Err(e) => {
                errs += 1;
                t.push(format!("{sname}[{steps}] {}", e2s(e)));
                vensure!(it.next().is_none(), "record-iter-not-fused", "{sname}: iterator continues after an error");
                break;
            }
            Ok(pr) => {
                t.push(format!("{sname}[{steps}] type={} class={} ttl={} rdlen={}", pr.rtype(), pr.class(), pr.ttl().as_secs(), pr.rdlen()));
                use_name(sname, &pr.owner(), t)?;
                let owner_flat: Name<Vec<u8>> = pr.owner().to_name();
                let _ = pr == pr;
                if let Some(p) = &prev {
                    let _ = *p == pr;
                }
                // typed parsing
                let any = pr.to_any_record::<AllRecordData<Rg<'_>, Pn<'_>>>();
                let typed: Result<Vec<u8>, String> = match &any {
                    Ok(rec) => {
                        let s = show("record", rec)?;
                        t.push(format!("  any=OK {}", &s[..s.len().min(200)]));
                        let _ = hash_of(rec);
                        let _ = rec == rec; /* reflexivity is C04's business */
                        poke_accessors(rec.data())?;
                        let _ = rec.partial_cmp(rec);
                        if heavy || count <= 12 {
                            for k in [DisplayKind::Simple, DisplayKind::Tabbed, DisplayKind::Multiline] {
                                let _ = show("record-zonefile", &rec.display_zonefile(k))?;
                            }
                        }
                        // uncompressed composition of the data
                        let mut v = Vec::new();
                        use domain::base::rdata::ComposeRecordData;
                        match rec.data().compose_rdata(&mut v) { Ok(()) => Ok(v), Err(_) => Err("compose".into()) }
                    }
                    Err(e) => {
                        t.push(format!("  any={}", e2s(e)));
                        Err(e.to_string())
                    }
                };
                let zr = pr.to_record::<ZoneRecordData<Rg<'_>, Pn<'_>>>();
                t.push(format!("  zone={}", zr.as_ref().map(|x| if x.is_some() { "OK".to_string() } else { "NONE".to_string() }).unwrap_or_else(|e| e2s(e))));
                let ur = pr.to_record::<UnknownRecordData<Rg<'_>>>().map(|x| x.unwrap());
                t.push(format!("  unknown={}", ur.as_ref().map(|r| format!("OK len={}", r.data().data().as_ref().len())).unwrap_or_else(|e| e2s(e))));
                if let Ok(Some(r)) = pr.to_record::<domain::rdata::Cname<_>>() {
                    use_name("cname-target", r.data().cname(), t)?;
                }
                if let Ok(Some(r)) = pr.to_record::<domain::rdata::Soa<_>>() {
                    use_name("soa-mname", r.data().mname(), t)?;
                    use_name("soa-rname", r.data().rname(), t)?;
                }
                if let Ok(Some(r)) = pr.to_record::<domain::rdata::Mx<_>>() {
                    use_name("mx-exchange", r.data().exchange(), t)?;
                }
                if let Ok(Some(r)) = pr.to_record::<domain::rdata::Rrsig<_, _>>() {
                    use_name("rrsig-signer", r.data().signer_name(), t)?;
                }
                if let Ok(Some(r)) = pr.to_record::<domain::rdata::Srv<_>>() {
                    use_name("srv-target", r.data().target(), t)?;
                }
                seen.push((secno, gn::show(&gn::from_name(&owner_flat)), pr.rtype().to_int(), pr.class().to_int(), pr.ttl().as_secs(), pr.rdlen(), typed));
                prev = Some(pr);
            }
        }
    }
    let _ = errs;
    Ok(())
}

/// The full traversal. Everything returned is logged in `t`.
pub fn traverse(msg: &Message<$O>, other: &Message<[u8]>, order: u8, heavy: bool, t: &mut T,
    seen: &mut Vec<(usize, String, u16, u16, u32, u16, Result<Vec<u8>, String>)>,
    qseen: &mut Vec<(String, u16, u16)>) -> CaseResult
{
    let h = msg.header();
    let c = msg.header_counts();
    t.push(format!("header id={} qr={} op={} aa={} tc={} rd={} ra={} z={} ad={} cd={} rcode={}", h.id(), h.qr(), h.opcode(), h.aa(), h.tc(), h.rd(), h.ra(), h.z(), h.ad(), h.cd(), h.rcode()));
    t.push(format!("counts {} {} {} {}", c.qdcount(), c.ancount(), c.nscount(), c.arcount()));
    t.push(format!("is_error={} no_error={}", msg.is_error(), msg.no_error()));
    let _ = msg.header_section();

    let do_questions = |t: &mut T, qseen: &mut Vec<(String, u16, u16)>| -> CaseResult {
        let q = msg.question();
        t.push(format!("question pos={}", q.pos()));
        let mut steps = 0usize;
        let mut it = q;
        while let Some(r) = it.next() {
            steps += 1;
            vensure!(steps <= c.qdcount() as usize + 1, "question-iter-unbounded", "question iterator yields more than QDCOUNT");
            match r {
                Ok(qq) => {
                    t.push(format!("q[{steps}] type={} class={}", qq.qtype(), qq.qclass()));
                    use_name("qname", qq.qname(), t)?;
                    let _ = show("question", &qq)?;
                    let _ = hash_of(&qq);
                    let _ = qq == qq;
                    qseen.push((gn::show(&gn::from_name(qq.qname())), qq.qtype().to_int(), qq.qclass().to_int()));
                }
                Err(e) => {
                    t.push(format!("q[{steps}] {}", e2s(e)));
                    vensure!(it.next().is_none(), "question-iter-not-fused", "question iterator continues after an error");
                    break;
                }
            }
        }
        // question section equality (with self: must be reflexive when no error)
        let _ = msg.question() == msg.question();
        Ok(())
    };

    let do_sections = |t: &mut T, seen: &mut Vec<_>| -> CaseResult {
        match msg.answer() {
            Ok(a) => {
                section("answer", a, c.ancount() as usize, heavy, t, seen, 1)?;
                if heavy {
                    let cnt = c.ancount() as usize;
                    limit_types!(a, t, cnt, [
                        domain::rdata::A, domain::rdata::Aaaa, domain::rdata::Cname<Pn<'_>>, domain::rdata::Ns<Pn<'_>>, domain::rdata::Soa<Pn<'_>>,
                        domain::rdata::Mx<Pn<'_>>, domain::rdata::Txt<Rg<'_>>, domain::rdata::Hinfo<Rg<'_>>, domain::rdata::Ptr<Pn<'_>>, domain::rdata::Minfo<Pn<'_>>,
                        domain::rdata::Srv<Pn<'_>>, domain::rdata::Naptr<Rg<'_>, Pn<'_>>, domain::rdata::Dname<Pn<'_>>, domain::rdata::Ds<Rg<'_>>, domain::rdata::Dnskey<Rg<'_>>,
                        domain::rdata::Rrsig<Rg<'_>, Pn<'_>>, domain::rdata::Nsec<Rg<'_>, Pn<'_>>, domain::rdata::Nsec3<Rg<'_>>, domain::rdata::Nsec3param<Rg<'_>>,
                        domain::rdata::Caa<Rg<'_>>, domain::rdata::Svcb<Rg<'_>, Pn<'_>>, domain::rdata::Https<Rg<'_>, Pn<'_>>,
                        domain::rdata::Rp<Pn<'_>>,
                        domain::rdata::Cds<Rg<'_>>, domain::rdata::Cdnskey<Rg<'_>>, domain::rdata::Null<Rg<'_>>, domain::rdata::Tsig<Rg<'_>, Pn<'_>>, Opt<Rg<'_>>,
                        domain::rdata::Mb<Pn<'_>>, domain::rdata::Md<Pn<'_>>, domain::rdata::Mf<Pn<'_>>, domain::rdata::Mg<Pn<'_>>, domain::rdata::Mr<Pn<'_>>,
                        ZoneRecordData<Rg<'_>, Pn<'_>>, AllRecordData<Rg<'_>, Pn<'_>>,
                    ]);
                    let mut n = 0;
                    for r in a.limit_to_in::<domain::rdata::A>() { n += 1; vensure!(n <= cnt + 2, "record-iter-unbounded", "limit_to_in"); let _ = r; }
                    let mut n = 0;
                    for r in a.into_records::<AllRecordData<Rg<'_>, Pn<'_>>>() { n += 1; vensure!(n <= cnt + 2, "record-iter-unbounded", "into_records"); if let Ok(r) = r { let _ = show("record", &r)?; } }
                }
                match a.next_section() {
                    Ok(Some(ns)) => {
                        section("authority", ns, c.nscount() as usize, heavy, t, seen, 2)?;
                        match ns.next_section() {
                            Ok(Some(ar)) => {
                                section("additional", ar, c.arcount() as usize, heavy, t, seen, 3)?;
                                match ar.next_section() {
                                    Ok(None) => {}
                                    Ok(Some(_)) => vfail!("next-section-after-additional", "additional.next_section() returned a section"),
                                    Err(e) => t.push(format!("additional.next_section {}", e2s(e))),
                                }
                            }
                            Ok(None) => vfail!("next-section-none", "authority.next_section() returned None"),
                            Err(e) => t.push(format!("additional {}", e2s(e))),
                        }
                    }
                    Ok(None) => vfail!("next-section-none", "answer.next_section() returned None"),
                    Err(e) => t.push(format!("authority {}", e2s(e))),
                }
            }
            Err(e) => t.push(format!("answer {}", e2s(e))),
        }
        t.push(format!("authority() {}", msg.authority().map(|s| s.pos().to_string()).unwrap_or_else(e2s)));
        t.push(format!("additional() {}", msg.additional().map(|s| s.pos().to_string()).unwrap_or_else(e2s)));
        t.push(format!("sections() {}", msg.sections().map(|s| format!("{} {} {}", s.1.pos(), s.2.pos(), s.3.pos())).unwrap_or_else(e2s)));
        Ok(())
    };

    let do_helpers = |t: &mut T| -> CaseResult {
        match msg.first_question() {
            Some(q) => { t.push(format!("first_question type={}", q.qtype())); use_name("first_question", q.qname(), t)?; }
            None => t.push("first_question none".into()),
        }
        match msg.sole_question() {
            Ok(q) => { t.push(format!("sole_question type={}", q.qtype())); use_name("sole_question", q.qname(), t)?; }
            Err(e) => t.push(format!("sole_question {}", e2s(e))),
        }
        t.push(format!("qtype={:?} is_xfr={}", msg.qtype(), msg.is_xfr()));
        match msg.canonical_name() {
            Some(n) => { t.push("canonical_name".into()); use_name("canonical_name", &n, t)?; }
            None => t.push("canonical_name none".into()),
        }
        t.push(format!("is_answer(self)={} is_answer(other)={} other.is_answer(self)={}", msg.is_answer(msg), msg.is_answer(other), other.is_answer(msg)));
        t.push(format!("contains A={} CNAME={} any={}", msg.contains_answer::<domain::rdata::A>(), msg.contains_answer::<domain::rdata::Cname<_>>(), msg.contains_answer::<ZoneRecordData<_, _>>()));
        match msg.opt() {
            Some(o) => {
                t.push(format!("opt udp={} ver={} do={} rcode={} len={}", o.udp_payload_size(), o.version(), o.dnssec_ok(), o.rcode(msg.header()), o.opt().len()));
                let mut n = 0;
                for x in o.opt().iter::<AllOptData<_, _>>() {
                    n += 1;
                    vensure!(n <= 20000, "opt-iter-unbounded", "opt iterator unbounded");
                    match x {
                        Ok(d) => { let x = show_dbg("opt-data", &d)?; poke_opt(&d)?; t.push(format!(" opt-data {}", x.chars().take(120).collect::<String>())) }
                        Err(e) => t.push(format!(" opt-data {}", e2s(e))),
                    }
                }
                let _ = o.opt().first::<domain::base::opt::Cookie>();
                let _ = o.opt().first::<domain::base::opt::Padding<_>>();
                let _ = o.opt().first::<domain::base::opt::ClientSubnet>();
                let _ = o.opt().first::<domain::base::opt::TcpKeepalive>();
                let _ = o.opt().first::<domain::base::opt::Nsid<_>>();
                let _ = o.opt().first::<domain::base::opt::ExtendedError<_>>();
                let oo = o.opt();
                let _ = (oo.dau().is_some(), oo.dhu().is_some(), oo.n3u().is_some(), oo.chain().is_some(), oo.cookie().is_some(), oo.expire().is_some());
                let _ = (oo.extended_error().is_some(), oo.tcp_keepalive().is_some(), oo.key_tag().is_some(), oo.nsid().is_some(), oo.client_subnet().is_some());
                let _ = show("opt-display", oo)?;
                let _ = (hash_of(oo), oo == oo, oo.len(), oo.is_empty());
                let _ = show_dbg("opt", o.as_record().data())?;
            }
            None => t.push("opt none".into()),
        }
        t.push(format!("opt_rcode={}", msg.opt_rcode()));
        t.push(format!("last_additional opt={} tsig={} a={}",
            msg.get_last_additional::<Opt<_>>().is_some(),
            match msg.get_last_additional::<domain::rdata::Tsig<_, _>>() { Some(r) => { let _ = show("tsig-record", &r)?; true } None => false },
            msg.get_last_additional::<domain::rdata::A>().is_some()));
        Ok(())
    };

    let do_iter = |t: &mut T| -> CaseResult {
        let total = c.ancount() as usize + c.nscount() as usize + c.arcount() as usize;
        let mut n = 0usize;
        let mut it = msg.iter();
        while let Some(x) = it.next() {
            n += 1;
            vensure!(n <= total + 3, "message-iter-unbounded", "Message::iter yields more than the header counts");
            match x {
                Ok((r, s)) => t.push(format!("iter[{n}] {:?} {}", s, r.rtype())),
                Err(e) => { t.push(format!("iter[{n}] {}", e2s(e))); }
            }
        }
        Ok(())
    };

    // order of the groups is a generated input
    let mut groups: Vec<u8> = vec![0, 1, 2, 3];
    let k = order as usize % 24;
    // k-th permutation
    let mut perm = vec![];
    let mut kk = k;
    for f in [6, 2, 1, 1] {
        let i = kk / f;
        kk %= f;
        perm.push(groups.remove(i.min(groups.len() - 1)));
    }
    for g in perm {
        t.push(format!("-- group {g}"));
        match g {
            0 => do_questions(t, qseen)?,
            1 => do_sections(t, seen)?,
            2 => do_helpers(t)?,
            _ => do_iter(t)?,
        }
    }
    Ok(())
}


}
};
}
traverse_impl!(tr_slice, [u8]);
traverse_impl!(tr_vec, Vec<u8>);
traverse_impl!(tr_bytes, Bytes);

fn strip_group_order(t: &T) -> T {
    // the transcript is compared as a multiset of group blocks since the
    // group order is a generated input shared by both runs anyway
    t.clone()
}

fn run_msg(data: &[u8], ctx: &mut Ctx) -> CaseResult {
    let mut u = Unstructured::new(data);
    let order = byte(&mut u);
    let heavy = chance(&mut u, 64);
    let istart = u16_(&mut u) as usize;
    let (bytes, tags) = gm::hostile_message(&mut u);
    run_on(&bytes, &tags, order, heavy, istart, ctx)
}

pub fn run_on(bytes: &[u8], tags: &[&'static str], order: u8, heavy: bool, istart: usize, ctx: &mut Ctx) -> CaseResult {
    for tg in tags {
        ctx.class(*tg);
    }
    if bytes.len() > 65535 {
        return Ok(());
    }
    if std::env::var_os("VERIF_DEBUG").is_some() {
        eprintln!("message: {}", bytes.iter().map(|b| format!("{b:02x}")).collect::<String>());
    }
    // Label::iter_slice on the raw octets (anchored in label.rs); start <= len
    {
        let start = if bytes.is_empty() { 0 } else { istart % (bytes.len() + 1) };
        let mut n = 0usize;
        let mut total = 0usize;
        for l in Label::iter_slice(bytes, start) {
            n += 1;
            total += l.len() + 1;
            // A name has at most 255 octets, so more than 255 labels (each
            // at least one octet) means the iterator is walking a pointer
            // cycle without a length cap, i.e. it would go on forever.
            if n > 256 {
                ctx.report(Violation::new("iter_slice-cycle", format!("Label::iter_slice(start={start}) yields more than 256 labels on a {}-octet slice (pointer cycle)", bytes.len())))?;
                break;
            }
        }
        let _ = total;
    }
    let short = bytes.len() < 12;
    let m_slice = match Message::from_slice(bytes) {
        Ok(m) => { vensure!(!short, "from_slice-accepts-short", "from_slice accepted {} octets", bytes.len()); m }
        Err(_) => { vensure!(short, "from_slice-rejects-long", "from_slice rejected {} octets", bytes.len()); ctx.class("short"); return Ok(()); }
    };
    let m_vec = Message::from_octets(bytes.to_vec()).map_err(|_| Violation::new("from_octets-rejects", "from_octets(Vec) rejected what from_slice accepted"))?;
    let m_bytes = Message::from_octets(Bytes::copy_from_slice(bytes)).map_err(|_| Violation::new("from_octets-rejects", "from_octets(Bytes) rejected"))?;
    vensure!(Message::try_from_octets(bytes.to_vec()).is_ok(), "try_from_octets", "try_from_octets rejected");
    // a second message for is_answer
    let mut other = bytes.to_vec();
    other[2] ^= 0x80;
    let other = Message::from_slice(&other).unwrap();

    let mut t1 = vec![]; let mut s1 = vec![]; let mut q1 = vec![];
    tr_slice::traverse(m_slice, other, order, heavy, &mut t1, &mut s1, &mut q1)?;
    let mut t2 = vec![]; let mut s2 = vec![]; let mut q2 = vec![];
    tr_vec::traverse(&m_vec, other, order, heavy, &mut t2, &mut s2, &mut q2)?;
    let mut t3 = vec![]; let mut s3 = vec![]; let mut q3 = vec![];
    tr_bytes::traverse(&m_bytes, other, order, heavy, &mut t3, &mut s3, &mut q3)?;
    let mut t4 = vec![]; let mut s4 = vec![]; let mut q4 = vec![];
    tr_slice::traverse(m_slice, other, order, heavy, &mut t4, &mut s4, &mut q4)?;
    let _ = strip_group_order(&t1);
    for (name, tx) in [("Vec", &t2), ("Bytes", &t3), ("second-traversal", &t4)] {
        if &t1 != tx {
            let i = t1.iter().zip(tx.iter()).position(|(a, b)| a != b).unwrap_or(t1.len().min(tx.len()));
            vfail!("nondeterministic-traversal", "traversal on {name} differs from first traversal at line {i}: {:?} vs {:?}", t1.get(i), tx.get(i));
        }
    }

    // agreement with the independent walker
    let w = wire::walk(bytes).unwrap();
    vensure!(m_slice.header().id() == w.header.id && m_slice.header_counts().qdcount() == w.header.counts[0] && m_slice.header_counts().arcount() == w.header.counts[3], "header-differs", "header fields differ from walker");
    vensure!(m_slice.header().rcode().to_int() == w.header.rcode() && m_slice.header().tc() == w.header.tc() && m_slice.header().qr() == w.header.qr() && m_slice.header().opcode().to_int() == w.header.opcode(), "header-differs", "header flag fields differ from walker");
    // questions
    for (i, q) in q1.iter().enumerate() {
        match w.questions.get(i) {
            Some(wq) => vensure!(gn::show(&wq.name) == q.0 && wq.qtype == q.1 && wq.qclass == q.2, "question-differs-from-walker", "question {i}: library {q:?} walker {} {} {}", gn::show(&wq.name), wq.qtype, wq.qclass),
            None => vfail!("question-accepted-walker-rejects", "library returned question {i} {q:?} but the walker stops with {:?}", w.error),
        }
    }
    // records: within each section the library's iterator stops at the
    // first record it cannot parse, but later sections stay reachable by
    // skipping (lazy reader) — so compare per section.
    let mut pointer_msg = false;
    for secno in 1..=3usize {
        let lib: Vec<_> = s1.iter().filter(|r| r.0 == secno).collect();
        let wrs: Vec<_> = w.records.iter().filter(|r| r.section as usize == secno).collect();
        for (i, r) in lib.iter().enumerate() {
            let Some(wr) = wrs.get(i) else {
                vfail!("record-accepted-walker-rejects", "library returned record {i} of section {secno} {:?} but the walker has only {} records there (walker error {:?})", (&r.1, r.2), wrs.len(), w.error);
            };
            let wowner = match &wr.owner {
                Ok(o) => o,
                Err(e) => vfail!("record-owner-accepted-walker-rejects", "library returned owner {} for record {i} of section {secno} but the walker rejects the name: {e:?}", r.1),
            };
            vensure!(gn::show(wowner) == r.1 && wr.rtype == r.2 && wr.class == r.3 && wr.ttl == r.4 && (wr.rd_end - wr.rd_start) == r.5 as usize,
                "record-differs-from-walker", "section {secno} record {i}: library {:?} walker {} type={} class={} ttl={} rdlen={}", (&r.1, r.2, r.3, r.4, r.5), gn::show(wowner), wr.rtype, wr.class, wr.ttl, wr.rd_end - wr.rd_start);
            if wr.owner_ptrs > 0 { pointer_msg = true; }
            if let Ok(lib_rd) = &r.6 {
                ctx.class(if crate::refimpl::rdata::schema(wr.rtype).is_some() { format!("typed-ok:{}", crate::refimpl::rdata::mnemonic(wr.rtype)) } else { "typed-ok:unknown-type".to_string() });
                match wire::rdata_normal(bytes, wr) {
                    Ok((norm, fl)) => {
                        if fl.pointers > 0 { pointer_msg = true; ctx.class("pointer-in-rdata-followed"); }
                        if &norm == lib_rd { ctx.class("rdata-byte-exact"); } else { ctx.class("rdata-normalised-differs"); }
                    }
                    Err(WalkErr::BadName(why)) => {
                        ctx.report(Violation::new(format!("rdata-name-accepted-walker-rejects:{why}"), format!("section {secno} record {i} type {}: library parsed RDATA but the walker rejects an embedded name ({why})", wr.rtype)))?;
                    }
                    Err(WalkErr::Short) => {
                        // the RDATA is too short for the type's fixed fields (or an
                        // embedded length runs past RDLENGTH): accepting it means the
                        // parser read beyond the record's data
                        ctx.report(Violation::new(format!("rdata-accepted-beyond-rdlen:{}", crate::refimpl::rdata::mnemonic(wr.rtype)), format!("section {secno} record {i} type {}: library parsed RDATA of {} octets that is too short for the type", wr.rtype, wr.rd_end - wr.rd_start)))?;
                    }
                    Err(_) => { ctx.class("typed-ok-walker-form"); }
                }
            }
        }
    }
    if w.questions.iter().any(|q| q.flags_ptrs > 0) { pointer_msg = true; }
    if pointer_msg { ctx.class("has-pointer"); }
    if w.header.counts.iter().any(|&c| c == 0xFFFF) { ctx.class("count=0xFFFF-seen"); }
    if w.error.is_some() { ctx.class("walker-error"); }
    if !s1.is_empty() && w.error.is_some() { ctx.class("error-after-ok"); }

    // builder-side consumers of a hostile request
    {
        let mb = MessageBuilder::new_vec();
        match mb.start_answer(m_slice, Rcode::NOERROR) {
            Ok(ab) => { let v = ab.finish(); vensure!(Message::from_octets(v).is_ok(), "start_answer-output", "start_answer output is not a message"); }
            Err(_) => {}
        }
        let ab = MessageBuilder::new_vec().start_error(m_slice, Rcode::FORMERR);
        let v = ab.finish();
        let em = Message::from_octets(v).map_err(|_| Violation::new("start_error-output", "not a message"))?;
        vensure!(em.header().id() == m_slice.header().id() && em.header().qr(), "start_error-header", "start_error did not copy ID / set QR");
        // copy_records
        let target = MessageBuilder::new_vec().answer();
        let _ = m_slice.copy_records(target, |r| r.into_any_record::<AllRecordData<_, _>>().ok());
        if heavy || bytes.len() < 2000 {
            let _ = show("dig-style", &m_vec.display_dig_style())?;
        }
    }
    // XFR interpreter (anchored in C01's file list)
    {
        use domain::net::xfr::protocol::XfrResponseInterpreter;
        let mut ip = XfrResponseInterpreter::new();
        let r = guarded("xfr-interpret", || {
            match ip.interpret_response(m_bytes.clone()) {
                Ok(it) => {
                    let mut n = 0usize;
                    for x in it { n += 1; if n > 70000 { return Err(()); } let _ = x.map(|u| format!("{u:?}")); }
                    Ok(())
                }
                Err(_) => Ok(()),
            }
        });
        match r {
            Ok(Ok(())) => {}
            Ok(Err(())) => vfail!("xfr-iterator-unbounded", "XfrZoneUpdateIterator yields more than 70000 updates for one message"),
            Err(v) => ctx.report(v)?,
        }
    }

    let nontrivial = bytes.len() >= 12 && (!s1.is_empty() || !q1.is_empty() || pointer_msg);
    if nontrivial {
        ctx.nontrivial(&bytes);
        ctx.sample(|| format!("{} octets, tags={tags:?}, questions={} records={} walker_error={:?}; first lines: {:?}", bytes.len(), q1.len(), s1.len(), w.error, &t1[..t1.len().min(4)]));
    }
    Ok(())
}


/// Near-valid OPT: header + question + OPT whose options have known codes
/// but hostile lengths and contents (every EDNS option parser gets input
/// at and around its field boundaries).
fn run_opt(data: &[u8], ctx: &mut Ctx) -> CaseResult {
    let mut u = Unstructured::new(data);
    let order = byte(&mut u);
    let mut a = wire::Asm::new(u16_(&mut u), 0x0100);
    a.question(&[b"example".to_vec()], 1, 1);
    let mut rd = vec![];
    for _ in 0..1 + pick(&mut u, 4) {
        let code: u16 = if chance(&mut u, 230) { [3u16, 5, 6, 7, 8, 9, 10, 11, 12, 13, 14, 15, 16, 17, 18][pick(&mut u, 15)] } else { u16_(&mut u) };
        let mut v: Vec<u8> = match pick(&mut u, 3) {
            0 => {
                // from the valid generator, then damaged
                let all = crate::gen::rdata::rdata(&mut u, crate::refimpl::rdata::OPT, &[], Default::default());
                if all.len() >= 4 { all[4..].to_vec() } else { vec![] }
            }
            _ => (0..pick(&mut u, 40)).map(|_| match pick(&mut u, 4) { 0 => pickb(&mut u, &[0, 1, 2, 3, 32, 33, 128, 129, 255, 0xC0, 24, 25]), _ => byte(&mut u) }).collect(),
        };
        if code == 8 && v.len() >= 4 && chance(&mut u, 200) {
            v[0] = 0;
            v[1] = pickb(&mut u, &[1, 2, 1, 2, 0, 3]);
            v[2] = pickb(&mut u, &[0, 1, 8, 24, 31, 32, 33, 64, 127, 128, 129, 255, 40, 100]);
        }
        if chance(&mut u, 60) && !v.is_empty() { let n = pick(&mut u, v.len()); v.truncate(n); }
        rd.extend_from_slice(&code.to_be_bytes());
        let adv = match pick(&mut u, 8) { 0 => v.len() as u16 + 1, 1 => (v.len() as u16).wrapping_sub(1), _ => v.len() as u16 };
        rd.extend_from_slice(&adv.to_be_bytes());
        rd.extend(v);
    }
    a.record(3, &[], 41, [512u16, 1232, 0, 65535][pick(&mut u, 4)], u32_(&mut u), &rd);
    run_on(&a.buf, &["near-valid-opt"], order, true, 0, ctx)
}

/// Near-valid typed RDATA: valid RDATA of a known type damaged at octet
/// level (hostile octets such as invalid UTF-8, truncation, extension) inside
/// a well-formed record frame (RDLENGTH consistent), so that every type's
/// parser, comparison and Display code gets input just outside what its
/// happy path expects.
fn run_rdata(data: &[u8], ctx: &mut Ctx) -> CaseResult {
    use crate::refimpl::rdata as rr;
    let mut u = Unstructured::new(data);
    let order = byte(&mut u);
    let pool = gn::pool(&mut u, 3, false);
    let mut a = wire::Asm::new(u16_(&mut u), 0x8180);
    a.question(&pool[0], 255, 1);
    for _ in 0..1 + pick(&mut u, 3) {
        let rtype = if chance(&mut u, 12) { rr::TSIG } else { rr::ALL_TYPES[pick(&mut u, rr::ALL_TYPES.len())] };
        let mut rd = crate::gen::rdata::rdata(&mut u, rtype, &pool, Default::default());
        if rtype == rr::TSIG && chance(&mut u, 200) {
            // crafted TSIG: every error code that gives the other-data a
            // meaning, with other-data lengths around the 6 octets it expects
            rd = gn::to_wire(&vec![b"hmac-sha256".to_vec()]);
            rd.extend_from_slice(&u64_(&mut u).to_be_bytes()[2..]);
            rd.extend_from_slice(&300u16.to_be_bytes());
            let mac: Vec<u8> = (0..pick(&mut u, 40)).map(|_| byte(&mut u)).collect();
            rd.extend_from_slice(&(mac.len() as u16).to_be_bytes());
            rd.extend(mac);
            rd.extend_from_slice(&u16_(&mut u).to_be_bytes());
            rd.extend_from_slice(&(pickb(&mut u, &[0, 16, 17, 18, 18, 18, 22, 1]) as u16).to_be_bytes());
            let other: Vec<u8> = (0..pick(&mut u, 10)).map(|_| byte(&mut u)).collect();
            rd.extend_from_slice(&(other.len() as u16).to_be_bytes());
            rd.extend(other);
        }
        for _ in 0..pick(&mut u, 4) {
            if rd.is_empty() { break; }
            let i = pick(&mut u, rd.len());
            match pick(&mut u, 6) {
                0 => rd[i] = pickb(&mut u, &[0xFF, 0xC0, 0x80, 0xFE, 0xED, 0xF4, 0xE0]),
                1 => rd[i] = pickb(&mut u, &[0, 1, 63, 64, 255, 32, 33]),
                2 => { rd.truncate(i); }
                3 => { let b = byte(&mut u); rd.insert(i, b); }
                4 => rd[i] = rd[i].wrapping_add(1),
                _ => rd[i] = byte(&mut u),
            }
        }
        if chance(&mut u, 30) { rd.push(byte(&mut u)); }
        rd.truncate(65000);
        let owner = pool[pick(&mut u, pool.len())].clone();
        a.record(1, &owner, rtype, 1, u32_(&mut u), &rd);
    }
    run_on(&a.buf, &["near-valid-rdata"], order, true, 0, ctx)
}


/// Near-valid SVCB/HTTPS: well-framed SvcParams (keys ascending, lengths
/// consistent, RDLENGTH consistent) whose VALUES violate the per-key format
/// (ipv6hint of 4/8/12/20 octets, ipv4hint of 3/5, port of 1/3 octets, alpn
/// with broken inner lengths, mandatory of odd length / unsorted / self
/// reference, non-empty no-default-alpn, dohpath with invalid UTF-8 ...). The
/// frame passes every outer check, so parsing, iteration of the typed
/// values, comparison and all Display forms see the hostile values.
fn run_svcb(data: &[u8], ctx: &mut Ctx) -> CaseResult {
    let mut u = Unstructured::new(data);
    let order = byte(&mut u);
    let mut a = wire::Asm::new(u16_(&mut u), 0x8180);
    a.question(&[b"svc".to_vec(), b"example".to_vec()], 64, 1);
    for _ in 0..1 + pick(&mut u, 2) {
        let mut rd = u16_(&mut u).to_be_bytes().to_vec();
        rd.extend(gn::to_wire(&gn::name(&mut u, true)));
        let mut keys: Vec<u16> = (0..1 + pick(&mut u, 5)).map(|_| if chance(&mut u, 220) { pick(&mut u, 10) as u16 } else { u16_(&mut u) }).collect();
        keys.sort();
        keys.dedup();
        for k in keys {
            let n = match pick(&mut u, 6) {
                0 => 0,
                1 => pickb(&mut u, &[1, 2, 3, 4, 5, 8, 12, 15, 16, 17, 20, 32, 33]) as usize,
                _ => pick(&mut u, 24),
            };
            let v: Vec<u8> = (0..n).map(|_| match pick(&mut u, 4) { 0 => pickb(&mut u, &[0, 1, 2, 3, 0xFF, 0xC0, 0x80, b',', b'\\', b'"']), _ => byte(&mut u) }).collect();
            rd.extend_from_slice(&k.to_be_bytes());
            rd.extend_from_slice(&(v.len() as u16).to_be_bytes());
            rd.extend(v);
        }
        let rtype = if flag(&mut u) { 64 } else { 65 };
        a.record(1, &[b"svc".to_vec(), b"example".to_vec()], rtype, 1, 300, &rd);
    }
    run_on(&a.buf, &["near-valid-svcb"], order, true, 0, ctx)
}

/// Large messages: sizes around 0x3FFF/0x4000 and up to 65535 octets,
/// valid or mutated.
fn run_big(data: &[u8], ctx: &mut Ctx) -> CaseResult {
    let mut u = Unstructured::new(data);
    let order = byte(&mut u);
    let istart = u16_(&mut u) as usize;
    let g = crate::gen::bigmsg::big_message(&mut u, gm::MsgOpts::default());
    let mut bytes = g.bytes;
    let mut tags: Vec<&'static str> = vec!["big"];
    if bytes.len() >= 0x4000 { tags.push("size>=0x4000"); }
    if bytes.len() >= 65500 { tags.push("size>=65500"); }
    if chance(&mut u, 128) {
        tags.extend(gm::mutate(&mut u, &mut bytes, &g.layout));
        tags.push("mutated");
    } else {
        tags.push("valid");
    }
    run_on(&bytes, &tags, order, false, istart, ctx)
}

/// Raw bytes entry (fuzz target and raw PBT family).
pub fn run_raw(data: &[u8], ctx: &mut Ctx) -> CaseResult {
    if data.len() < 3 {
        return Ok(());
    }
    run_on(&data[3..], &["raw"], data[0], data[1] & 3 == 0, data[2] as usize * 7, ctx)
}

fn health(c: &BTreeMap<String, u64>, _t: bool) -> Result<(), String> {
    for k in ["size>=0x4000", "size>=65500", "has-pointer", "mutated", "valid", "raw", "pointer-planted", "rdlen-mismatch", "count=0xFFFF", "truncated", "typed-ok:SOA", "typed-ok:RRSIG", "typed-ok:SVCB", "typed-ok:OPT", "error-after-ok"] {
        if c.get(k).copied().unwrap_or(0) < 5 {
            return Err(format!("class {k} starved ({:?})", c.get(k)));
        }
    }
    Ok(())
}

pub fn prop() -> Prop {
    Prop {
        id: "C01",
        rule: "case = octets (raw bytes, a valid structured message, or a structured message after 1-3 adversarial wire mutations) + call-group order + iter_slice start; non-trivial = at least 12 octets and (a question or record was returned Ok, or a name contained a compression pointer); distinct by message octets",
        assumptions: &["independent walker refimpl::wire (permissive: any pointer that points strictly before itself is followed, 255-octet cap)", "the order of read-side call groups is sampled (24 permutations), not all interleavings of single calls"],
        subchecks: vec![
            SubCheck::new("msg", run_msg, 400_000, 8_000_000, 1500),
            SubCheck::new("raw", run_raw, 150_000, 3_000_000, 700),
            SubCheck::new("big", run_big, 6_000, 200_000, 400),
            SubCheck::new("opt", run_opt, 150_000, 4_000_000, 300),
            SubCheck::new("rdata", run_rdata, 250_000, 6_000_000, 600),
            SubCheck::new("svcb", run_svcb, 150_000, 4_000_000, 300),
        ],
        health: Some(health),
        extra: None,
    }
}
