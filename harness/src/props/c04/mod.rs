//! C04 — equality, order and hash are coherent; order is the DNSSEC
//! canonical order (RFC 4034 §6.1–6.3, RFC 6840 §5.1).
//!
//! Three sub-checks:
//! * `names`  — names in every representation (flat Vec/Bytes/slice,
//!   `ParsedName` with compression pointers, `Chain`, `UncertainName`,
//!   `RelativeName`) against an independent §6.1 reference on label vectors;
//! * `atoms`  — `Label`/`OwnedLabel` and `CharStr`;
//! * `rdata`  — record data of every type (the `AllRecordData` /
//!   `ZoneRecordData` enums, the typed structs, `UnknownRecordData`),
//!   `Record`, `RecordHeader`, `ParsedRecord`, `Question`: coherence laws on
//!   related triples plus the reference order computed from the
//!   *uncompressed generated RDATA* by the independent field table.
use crate::engine::*;
use std::cmp::Ordering;
use std::collections::hash_map::DefaultHasher;
use std::collections::BTreeMap;
use std::hash::{Hash, Hasher};

mod atoms;
mod names;
mod rdata;

//------------ shared helpers --------------------------------------------------

/// Diagnostic mode (never set by `./check`): with `VERIF_C04_COLLECT=1` law
/// failures are recorded as classes `FAIL:<sig>` instead of ending the case,
/// so one run lists every failing signature.
pub(crate) fn collect_mode() -> bool {
    static M: std::sync::OnceLock<bool> = std::sync::OnceLock::new();
    *M.get_or_init(|| std::env::var("VERIF_C04_COLLECT").map(|v| v == "1").unwrap_or(false))
}

/// Reports a law failure.
pub(crate) fn fail(ctx: &mut Ctx, sig: String, detail: String) -> CaseResult {
    if collect_mode() {
        static SEEN: std::sync::Mutex<Option<std::collections::HashMap<String, u32>>> = std::sync::Mutex::new(None);
        let mut g = SEEN.lock().unwrap();
        let n = g.get_or_insert_with(Default::default).entry(sig.clone()).or_insert(0);
        *n += 1;
        if *n <= 3 {
            eprintln!("COLLECT {sig}: {detail}");
        }
        drop(g);
        ctx.class(format!("FAIL:{sig}"));
        return Ok(());
    }
    ctx.report(Violation::new(sig, detail))
}

macro_rules! law {
    ($ctx:expr, $cond:expr, $sig:expr, $($arg:tt)*) => {
        if !($cond) {
            $crate::props::c04::fail($ctx, $sig.to_string(), format!($($arg)*))?;
        }
    };
}
pub(crate) use law;

/// A hasher for which the *sequence of calls* matters, not only the
/// concatenated octet stream: every call mixes in a tag for the method and
/// the length of its argument before the octets. `write_u8(x)` is therefore
/// different from `write(&[x])`, and `write(ab)` from `write(a); write(b)`.
///
/// This is what the documentation of `std::hash::Hasher` allows a hasher to
/// do (no guarantee that `write_u32` equals four `write_u8`, nor that
/// adjacent `write` calls are merged; `Hash` implementations must make, for
/// equivalent items, exactly the same sequence of calls: same methods, same
/// parameters, same order) and what word-at-a-time hashers (FxHash, aHash,
/// foldhash = hashbrown's default) do in practice. SipHash and FNV are pure
/// octet-stream hashers and cannot see the difference.
#[derive(Clone)]
pub(crate) struct CallSeqHasher(u64);

impl Default for CallSeqHasher {
    fn default() -> Self {
        CallSeqHasher(0xcbf2_9ce4_8422_2325)
    }
}

impl CallSeqHasher {
    fn mix(&mut self, b: u8) {
        self.0 ^= u64::from(b);
        self.0 = self.0.wrapping_mul(0x0000_0100_0000_01b3);
    }
    fn call(&mut self, tag: u8, bytes: &[u8]) {
        self.mix(tag);
        for b in (bytes.len() as u64).to_le_bytes() {
            self.mix(b);
        }
        for &b in bytes {
            self.mix(b);
        }
    }
}

impl Hasher for CallSeqHasher {
    fn write(&mut self, bytes: &[u8]) {
        self.call(0xA0, bytes)
    }
    fn write_u8(&mut self, i: u8) {
        self.call(0xA1, &[i])
    }
    fn write_u16(&mut self, i: u16) {
        self.call(0xA2, &i.to_le_bytes())
    }
    fn write_u32(&mut self, i: u32) {
        self.call(0xA3, &i.to_le_bytes())
    }
    fn write_u64(&mut self, i: u64) {
        self.call(0xA4, &i.to_le_bytes())
    }
    fn write_u128(&mut self, i: u128) {
        self.call(0xA5, &i.to_le_bytes())
    }
    fn write_usize(&mut self, i: usize) {
        self.call(0xA6, &(i as u64).to_le_bytes())
    }
    fn finish(&self) -> u64 {
        self.0
    }
}

/// A word-at-a-time hasher in the style of FxHash: `write` consumes 8 octets
/// per step (the last word zero-padded), `write_u8` one word per octet.
#[derive(Clone, Default)]
pub(crate) struct WordHasher(u64);

impl WordHasher {
    fn add(&mut self, word: u64) {
        self.0 = (self.0.rotate_left(5) ^ word).wrapping_mul(0x517c_c1b7_2722_0a95);
    }
}

impl Hasher for WordHasher {
    fn write(&mut self, bytes: &[u8]) {
        for chunk in bytes.chunks(8) {
            let mut w = [0u8; 8];
            w[..chunk.len()].copy_from_slice(chunk);
            self.add(u64::from_le_bytes(w));
        }
    }
    fn write_u8(&mut self, i: u8) {
        self.add(u64::from(i))
    }
    fn write_u16(&mut self, i: u16) {
        self.add(u64::from(i))
    }
    fn write_u32(&mut self, i: u32) {
        self.add(u64::from(i))
    }
    fn write_u64(&mut self, i: u64) {
        self.add(i)
    }
    fn write_usize(&mut self, i: usize) {
        self.add(i as u64)
    }
    fn finish(&self) -> u64 {
        self.0
    }
}

/// The hashes of one value under four hashers: two pure octet-stream
/// hashers (the engine's FNV, std's SipHash with its fixed keys) and two for
/// which the chopping of the input into `Hasher` calls matters (call
/// sequence hasher, word-at-a-time hasher).
pub(crate) fn h2<T: Hash + ?Sized>(x: &T) -> (u64, u64, u64, u64) {
    let mut f = Fnv::default();
    x.hash(&mut f);
    let mut s = DefaultHasher::new();
    x.hash(&mut s);
    let mut c = CallSeqHasher::default();
    x.hash(&mut c);
    let mut w = WordHasher::default();
    x.hash(&mut w);
    (f.finish(), s.finish(), c.finish(), w.finish())
}

/// Which of the hashers of `h2` tell two values apart (for details).
pub(crate) fn hdiff(a: (u64, u64, u64, u64), b: (u64, u64, u64, u64)) -> String {
    let mut v = vec![];
    if a.0 != b.0 {
        v.push("fnv");
    }
    if a.1 != b.1 {
        v.push("siphash");
    }
    if a.2 != b.2 {
        v.push("call-sequence");
    }
    if a.3 != b.3 {
        v.push("word-at-a-time");
    }
    format!("hashers that differ: {}", v.join(","))
}

pub(crate) type ChunkBuild = std::hash::BuildHasherDefault<CallSeqHasher>;

/// RFC 4034 §6.1 on one label: octet strings, upper case treated as lower.
pub(crate) fn ref_label_cmp(a: &[u8], b: &[u8]) -> Ordering {
    let la: Vec<u8> = a.iter().map(|c| if c.is_ascii_uppercase() { c + 32 } else { *c }).collect();
    let lb: Vec<u8> = b.iter().map(|c| if c.is_ascii_uppercase() { c + 32 } else { *c }).collect();
    la.cmp(&lb)
}

/// RFC 4034 §6.1 on label vectors (root implicit): most significant
/// (rightmost) label first; a name that runs out of labels sorts first.
pub(crate) fn ref_name_cmp(a: &[Vec<u8>], b: &[Vec<u8>]) -> Ordering {
    let mut i = a.iter().rev();
    let mut j = b.iter().rev();
    loop {
        match (i.next(), j.next()) {
            (None, None) => return Ordering::Equal,
            (None, Some(_)) => return Ordering::Less,
            (Some(_), None) => return Ordering::Greater,
            (Some(x), Some(y)) => match ref_label_cmp(x, y) {
                Ordering::Equal => {}
                o => return o,
            },
        }
    }
}

/// Second, differently shaped formulation of §6.1 used to cross-check the
/// first one inside every names case: a sort key in which every octet is
/// shifted up by one and 0 terminates a label ("absence of an octet sorts
/// before a zero octet").
pub(crate) fn ref_name_key(a: &[Vec<u8>]) -> Vec<u16> {
    let mut k = vec![];
    for l in a.iter().rev() {
        for &c in l {
            let c = if c.is_ascii_uppercase() { c + 32 } else { c };
            k.push(c as u16 + 1);
        }
        k.push(0);
    }
    k
}

pub(crate) fn rev(o: Ordering) -> Ordering {
    o.reverse()
}

/// a <= b and b <= c must give a <= c (and the strict versions).
pub(crate) fn transitive(ab: Ordering, bc: Ordering, ac: Ordering) -> bool {
    use Ordering::*;
    match (ab, bc) {
        (Equal, x) => ac == x,
        (x, Equal) => ac == x,
        (Less, Less) => ac == Less,
        (Greater, Greater) => ac == Greater,
        _ => true,
    }
}

pub(crate) fn hex(b: &[u8]) -> String {
    let mut s = String::new();
    for (i, x) in b.iter().enumerate() {
        if i >= 96 {
            s.push('…');
            break;
        }
        s.push_str(&format!("{x:02x}"));
    }
    s
}

//------------ health / prop -----------------------------------------------------

fn health(c: &BTreeMap<String, u64>, thorough: bool) -> Result<(), String> {
    let g = |k: &str| c.get(k).copied().unwrap_or(0);
    if c.keys().any(|k| k.starts_with("FAIL:")) {
        let l: Vec<String> = c.iter().filter(|(k, _)| k.starts_with("FAIL:")).map(|(k, v)| format!("{k}={v}")).collect();
        return Err(format!("diagnostic collect mode, failing laws: {}", l.join(" ")));
    }
    let floor = if thorough { 20_000 } else { 1_000 };
    for t in rdata::type_labels() {
        let k = format!("type:{t}");
        if g(&k) < floor {
            return Err(format!("class {k} starved ({} < {floor})", g(&k)));
        }
        let k = format!("ref-order-checked:{t}");
        if g(&k) < floor / 2 {
            return Err(format!("class {k} starved ({} < {})", g(&k), floor / 2));
        }
    }
    for t in rdata::field_pair_types() {
        let k = format!("two-tweak-fields:{t}");
        if g(&k) < floor / 20 {
            return Err(format!("class {k} starved ({} < {})", g(&k), floor / 20));
        }
    }
    for k in [
        "rel:identical", "rel:name-case", "rel:octet-tweak", "rel:two-tweak", "rel:two-tweak-fields", "rel:field-resize", "rel:name-splice", "rel:tail", "rel:fresh", "rel:ascii-case", "rel:cross-type",
        "pair:equal-not-identical", "pair:differs-in-embedded-name", "pair:canonical-differs-eq-equal", "rdata-compressed-name",
        "owner-pointer", "record:ttl-differs-equal", "record:same-rrset", "record:class-differs", "record:owner-differs",
        "zone-enum", "typed-struct", "unknown:type-differs-same-data",
        "names:equal-diff-case", "names:boundary-variant", "names:prefix-or-parent", "names:parsed-with-pointer", "names:chain",
        "names:len>=250", "names:tweak-near-letter", "names:relative", "names:uncertain",
        "names:boundary-same-wire-length", "names:boundary-same-wire-length:flat-vs-compressed", "names:borrow-lookup", "label:borrow-lookup",
        "label:case-pair", "label:prefix", "label:near-letter", "charstr:case-pair", "charstr:prefix", "charstr:len255",
    ] {
        if g(k) < 50 {
            return Err(format!("class {k} starved ({})", g(k)));
        }
    }
    if g("base-rejected") * 50 > g("rdata-case").max(1) {
        return Err(format!("generated base RDATA rejected by the library too often: {} of {}", g("base-rejected"), g("rdata-case")));
    }
    Ok(())
}

pub fn prop() -> Option<Prop> {
    Some(Prop {
        id: "C04",
        rule: "case = a triple of related values (identical / equal up to ASCII case / same value in another representation / one octet changed near the ASCII letter ranges, 0x00, 0xFF / one a prefix or parent of the other / label-boundary variant / same fields different TTL / fresh value of the same type) built by construction from generated bytes; non-trivial = some pair of the triple is not octet-identical AND (compares Equal, or first differs inside a name or at an octet adjacent to the ASCII letter ranges, or differs in length only); distinct by the decoded triple (wire octets of all members)",
        assumptions: &[
            "reference order: RFC 4034 §6.1 on label vectors (two independent formulations cross-checked in every case) and §6.2/§6.3 + RFC 6840 §5.1 canonical RDATA computed from the generated uncompressed RDATA by refimpl::rdata (independent field table)",
            "the §6.3 reference order is demanded only for record data of the same type (and for records of the same owner, class and type); across types/classes/owners only the total-order laws are demanded",
            "types whose equality is deliberately coarser than field equality (Record ignores TTL, CharStr and CAA tags ignore ASCII case) are judged by the coherence laws only, never by field equality",
            "typed values are obtained by parsing generated messages with the library (AllRecordData / ZoneRecordData / typed structs) and flattening them to owned octets; mutated RDATA the library rejects is dropped from the triple",
        ],
        subchecks: vec![
            SubCheck::new("names", names::run, 120_000, 3_000_000, 900),
            SubCheck::new("atoms", atoms::run, 100_000, 3_000_000, 400),
            SubCheck::new("rdata", rdata::run, 300_000, 5_000_000, 1500),
        ],
        health: Some(health),
        extra: None,
    })
}
