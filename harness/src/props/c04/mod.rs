//! C04 — equality, order and hash are coherent; order is the DNSSEC
//! canonical order (RFC 4034 §6.1–6.3, RFC 6840 §5.1).
//!
//! Three sub-checks:
//! * `names`  — names in every representation (flat Vec/Bytes/slice,
//!   `ParsedName` with compression pointers, `Chain`, `UncertainName`,
//!   `RelativeName`) against an independent §6.1 reference on label vectors;
//! * `atoms`  — `Label`/`OwnedLabel` and `CharStr`;
//! * `rdata`  — record data of every type (the `AllRecordData` /
//!   `ZoneRecordData` enums, the typed structs, `UnknownRecordData`),
//!   `Record`, `RecordHeader`, `ParsedRecord`, `Question`: coherence laws on
//!   related triples plus the reference order computed from the
//!   *uncompressed generated RDATA* by the independent field table.
use crate::engine::*;
use std::cmp::Ordering;
use std::collections::hash_map::DefaultHasher;
use std::collections::BTreeMap;
use std::hash::{Hash, Hasher};

mod atoms;
mod names;
mod rdata;

//------------ shared helpers --------------------------------------------------

/// Diagnostic mode (never set by `./check`): with `VERIF_C04_COLLECT=1` law
/// failures are recorded as classes `FAIL:<sig>` instead of ending the case,
/// so one run lists every failing signature.
pub(crate) fn collect_mode() -> bool {
    static M: std::sync::OnceLock<bool> = std::sync::OnceLock::new();
    *M.get_or_init(|| std::env::var("VERIF_C04_COLLECT").map(|v| v == "1").unwrap_or(false))
}

/// Reports a law failure.
pub(crate) fn fail(ctx: &mut Ctx, sig: String, detail: String) -> CaseResult {
    if collect_mode() {
        static SEEN: std::sync::Mutex<Option<std::collections::HashMap<String, u32>>> = std::sync::Mutex::new(None);
        let mut g = SEEN.lock().unwrap();
        let n = g.get_or_insert_with(Default::default).entry(sig.clone()).or_insert(0);
        *n += 1;
        if *n <= 3 {
            eprintln!("COLLECT {sig}: {detail}");
        }
        drop(g);
        ctx.class(format!("FAIL:{sig}"));
        return Ok(());
    }
    ctx.report(Violation::new(sig, detail))
}

macro_rules! law {
    ($ctx:expr, $cond:expr, $sig:expr, $($arg:tt)*) => {
        if !($cond) {
            $crate::props::c04::fail($ctx, $sig.to_string(), format!($($arg)*))?;
        }
    };
}
pub(crate) use law;

/// Both hashers: the engine's FNV and std's SipHash with its fixed keys.
pub(crate) fn h2<T: Hash + ?Sized>(x: &T) -> (u64, u64) {
    let mut f = Fnv::default();
    x.hash(&mut f);
    let mut s = DefaultHasher::new();
    x.hash(&mut s);
    (f.finish(), s.finish())
}

/// RFC 4034 §6.1 on one label: octet strings, upper case treated as lower.
pub(crate) fn ref_label_cmp(a: &[u8], b: &[u8]) -> Ordering {
    let la: Vec<u8> = a.iter().map(|c| if c.is_ascii_uppercase() { c + 32 } else { *c }).collect();
    let lb: Vec<u8> = b.iter().map(|c| if c.is_ascii_uppercase() { c + 32 } else { *c }).collect();
    la.cmp(&lb)
}

/// RFC 4034 §6.1 on label vectors (root implicit): most significant
/// (rightmost) label first; a name that runs out of labels sorts first.
pub(crate) fn ref_name_cmp(a: &[Vec<u8>], b: &[Vec<u8>]) -> Ordering {
    let mut i = a.iter().rev();
    let mut j = b.iter().rev();
    loop {
        match (i.next(), j.next()) {
            (None, None) => return Ordering::Equal,
            (None, Some(_)) => return Ordering::Less,
            (Some(_), None) => return Ordering::Greater,
            (Some(x), Some(y)) => match ref_label_cmp(x, y) {
                Ordering::Equal => {}
                o => return o,
            },
        }
    }
}

/// Second, differently shaped formulation of §6.1 used to cross-check the
/// first one inside every names case: a sort key in which every octet is
/// shifted up by one and 0 terminates a label ("absence of an octet sorts
/// before a zero octet").
pub(crate) fn ref_name_key(a: &[Vec<u8>]) -> Vec<u16> {
    let mut k = vec![];
    for l in a.iter().rev() {
        for &c in l {
            let c = if c.is_ascii_uppercase() { c + 32 } else { c };
            k.push(c as u16 + 1);
        }
        k.push(0);
    }
    k
}

pub(crate) fn rev(o: Ordering) -> Ordering {
    o.reverse()
}

/// a <= b and b <= c must give a <= c (and the strict versions).
pub(crate) fn transitive(ab: Ordering, bc: Ordering, ac: Ordering) -> bool {
    use Ordering::*;
    match (ab, bc) {
        (Equal, x) => ac == x,
        (x, Equal) => ac == x,
        (Less, Less) => ac == Less,
        (Greater, Greater) => ac == Greater,
        _ => true,
    }
}

pub(crate) fn hex(b: &[u8]) -> String {
    let mut s = String::new();
    for (i, x) in b.iter().enumerate() {
        if i >= 96 {
            s.push('…');
            break;
        }
        s.push_str(&format!("{x:02x}"));
    }
    s
}

//------------ health / prop -----------------------------------------------------

fn health(c: &BTreeMap<String, u64>, thorough: bool) -> Result<(), String> {
    let g = |k: &str| c.get(k).copied().unwrap_or(0);
    if c.keys().any(|k| k.starts_with("FAIL:")) {
        let l: Vec<String> = c.iter().filter(|(k, _)| k.starts_with("FAIL:")).map(|(k, v)| format!("{k}={v}")).collect();
        return Err(format!("diagnostic collect mode, failing laws: {}", l.join(" ")));
    }
    let floor = if thorough { 20_000 } else { 1_000 };
    for t in rdata::type_labels() {
        let k = format!("type:{t}");
        if g(&k) < floor {
            return Err(format!("class {k} starved ({} < {floor})", g(&k)));
        }
        let k = format!("ref-order-checked:{t}");
        if g(&k) < floor / 2 {
            return Err(format!("class {k} starved ({} < {})", g(&k), floor / 2));
        }
    }
    for k in [
        "rel:identical", "rel:name-case", "rel:octet-tweak", "rel:two-tweak", "rel:field-resize", "rel:name-splice", "rel:tail", "rel:fresh", "rel:ascii-case", "rel:cross-type",
        "pair:equal-not-identical", "pair:differs-in-embedded-name", "pair:canonical-differs-eq-equal", "rdata-compressed-name",
        "owner-pointer", "record:ttl-differs-equal", "record:same-rrset", "record:class-differs", "record:owner-differs",
        "zone-enum", "typed-struct", "unknown:type-differs-same-data",
        "names:equal-diff-case", "names:boundary-variant", "names:prefix-or-parent", "names:parsed-with-pointer", "names:chain",
        "names:len>=250", "names:tweak-near-letter", "names:relative", "names:uncertain",
        "label:case-pair", "label:prefix", "label:near-letter", "charstr:case-pair", "charstr:prefix", "charstr:len255",
    ] {
        if g(k) < 50 {
            return Err(format!("class {k} starved ({})", g(k)));
        }
    }
    if g("base-rejected") * 50 > g("rdata-case").max(1) {
        return Err(format!("generated base RDATA rejected by the library too often: {} of {}", g("base-rejected"), g("rdata-case")));
    }
    Ok(())
}

pub fn prop() -> Option<Prop> {
    Some(Prop {
        id: "C04",
        rule: "case = a triple of related values (identical / equal up to ASCII case / same value in another representation / one octet changed near the ASCII letter ranges, 0x00, 0xFF / one a prefix or parent of the other / label-boundary variant / same fields different TTL / fresh value of the same type) built by construction from generated bytes; non-trivial = some pair of the triple is not octet-identical AND (compares Equal, or first differs inside a name or at an octet adjacent to the ASCII letter ranges, or differs in length only); distinct by the decoded triple (wire octets of all members)",
        assumptions: &[
            "reference order: RFC 4034 §6.1 on label vectors (two independent formulations cross-checked in every case) and §6.2/§6.3 + RFC 6840 §5.1 canonical RDATA computed from the generated uncompressed RDATA by refimpl::rdata (independent field table)",
            "the §6.3 reference order is demanded only for record data of the same type (and for records of the same owner, class and type); across types/classes/owners only the total-order laws are demanded",
            "types whose equality is deliberately coarser than field equality (Record ignores TTL, CharStr and CAA tags ignore ASCII case) are judged by the coherence laws only, never by field equality",
            "typed values are obtained by parsing generated messages with the library (AllRecordData / ZoneRecordData / typed structs) and flattening them to owned octets; mutated RDATA the library rejects is dropped from the triple",
        ],
        subchecks: vec![
            SubCheck::new("names", names::run, 120_000, 3_000_000, 900),
            SubCheck::new("atoms", atoms::run, 100_000, 3_000_000, 400),
            SubCheck::new("rdata", rdata::run, 300_000, 5_000_000, 1500),
        ],
        health: Some(health),
        extra: None,
    })
}
