//! Names in every representation against the §6.1 reference.
use super::atoms::{near_letter, tweak_byte};
use super::*;
use crate::gen::message::{Layout, Writer};
use crate::gen::name::{self as gn, Labels};
use crate::gen::*;
use arbitrary::Unstructured;
use bytes::Bytes;
use domain::base::cmp::CanonicalOrd;
use domain::base::name::{Chain, Name, ParsedName, RelativeName, ToLabelIter, ToName, ToRelativeName, UncertainName};
use octseq::Parser;

type NV = Name<Vec<u8>>;
type NB = Name<Bytes>;
type RV = RelativeName<Vec<u8>>;

/// All representations of one absolute name.
struct Reps<'a> {
    labels: &'a Labels,
    wire: Vec<u8>,
    v: NV,
    b: NB,
    s: &'a Name<[u8]>,
    p: ParsedName<&'a [u8]>,
    p_has_pointer: bool,
    c: Chain<RV, NV>,
    cu: Chain<UncertainName<Vec<u8>>, NV>,
    ua: UncertainName<Vec<u8>>,
    rel: RV,
    ur: UncertainName<Vec<u8>>,
    crel: Chain<RV, RV>,
}

fn rel_of(l: &[Vec<u8>]) -> RV {
    RelativeName::from_octets(gn::to_wire_rel(&l.to_vec())).expect("valid relative name")
}

/// Generic part: everything reachable through ToName on any pair of
/// representations.
fn toname_pair<X: ToName + ?Sized, Y: ToName + ?Sized>(ctx: &mut Ctx, what: &str, x: &X, y: &Y, rx: &Reps, ry: &Reps, want: Ordering) -> CaseResult {
    let detail = || format!("{what}: a={} b={}", gn::show(rx.labels), gn::show(ry.labels));
    law!(ctx, x.name_eq(y) == (want == Ordering::Equal), "name:name_eq-vs-reference", "{} name_eq={} reference {want:?}", detail(), x.name_eq(y));
    law!(ctx, x.name_cmp(y) == want, "name:name_cmp-vs-rfc4034-6.1", "{} name_cmp={:?} reference {want:?}", detail(), x.name_cmp(y));
    law!(ctx, x.composed_cmp(y) == rx.wire.cmp(&ry.wire), "name:composed_cmp-vs-wire", "{} got {:?}", detail(), x.composed_cmp(y));
    let (la, lb) = (rx.wire.to_ascii_lowercase(), ry.wire.to_ascii_lowercase());
    law!(ctx, x.lowercase_composed_cmp(y) == la.cmp(&lb), "name:lowercase_composed_cmp-vs-wire", "{} got {:?}", detail(), x.lowercase_composed_cmp(y));
    Ok(())
}

/// Operator part: X has ==, partial_cmp and canonical_cmp against Y.
fn op_pair<X, Y>(ctx: &mut Ctx, what: &str, x: &X, y: &Y, rx: &Reps, ry: &Reps, want: Ordering) -> CaseResult
where
    X: ToName + PartialEq<Y> + PartialOrd<Y> + CanonicalOrd<Y> + ?Sized,
    Y: ToName + ?Sized,
{
    let detail = || format!("{what}: a={} b={}", gn::show(rx.labels), gn::show(ry.labels));
    law!(ctx, (x == y) == (want == Ordering::Equal), "name:eq-vs-reference", "{} == gives {} reference {want:?}", detail(), x == y);
    law!(ctx, (x != y) == (want != Ordering::Equal), "name:ne-vs-reference", "{}", detail());
    law!(ctx, x.partial_cmp(y) == Some(want), "name:partial_cmp-vs-rfc4034-6.1", "{} got {:?} reference {want:?}", detail(), x.partial_cmp(y));
    law!(ctx, x.canonical_cmp(y) == want, "name:canonical_cmp-vs-rfc4034-6.1", "{} got {:?} reference {want:?}", detail(), x.canonical_cmp(y));
    law!(ctx, (x < y) == (want == Ordering::Less) && (x > y) == (want == Ordering::Greater) && (x <= y) == (want != Ordering::Greater), "name:operators", "{}", detail());
    toname_pair(ctx, what, x, y, rx, ry, want)
}

macro_rules! cross {
    ($ctx:expr, $rx:expr, $ry:expr, $want:expr, [$($xn:literal => $x:expr),*], $ys:tt) => {
        $( cross!(@row $ctx, $rx, $ry, $want, $xn, $x, $ys); )*
    };
    (@row $ctx:expr, $rx:expr, $ry:expr, $want:expr, $xn:literal, $x:expr, [$($yn:literal => $y:expr),*]) => {
        $( op_pair($ctx, concat!($xn, "/", $yn), $x, $y, $rx, $ry, $want)?; )*
    };
}

fn check_pair(ctx: &mut Ctx, rx: &Reps, ry: &Reps) -> CaseResult {
    let want = ref_name_cmp(rx.labels, ry.labels);
    // the two formulations of §6.1 must agree (guards the reference itself)
    if ref_name_key(rx.labels).cmp(&ref_name_key(ry.labels)) != want {
        vfail_harness(format!("reference formulations disagree on {} vs {}", gn::show(rx.labels), gn::show(ry.labels)))?;
    }
    cross!(ctx, rx, ry, want,
        ["vec" => &rx.v, "bytes" => &rx.b, "slice" => rx.s, "parsed" => &rx.p],
        ["vec" => &ry.v, "bytes" => &ry.b, "slice" => ry.s, "parsed" => &ry.p, "chain" => &ry.c, "uncertain-chain" => &ry.cu]);
    // chains on the left have no operators, only the ToName methods
    toname_pair(ctx, "chain/vec", &rx.c, &ry.v, rx, ry, want)?;
    toname_pair(ctx, "chain/parsed", &rx.c, &ry.p, rx, ry, want)?;
    toname_pair(ctx, "chain/chain", &rx.c, &ry.c, rx, ry, want)?;
    toname_pair(ctx, "uncertain-chain/chain", &rx.cu, &ry.c, rx, ry, want)?;
    toname_pair(ctx, "uncertain-chain/bytes", &rx.cu, &ry.b, rx, ry, want)?;
    // a reference to a name is a ToName of its own (`impl ToName for &N`)
    // that does not offer a flat slice: one more non-flat representation
    toname_pair(ctx, "ref-vec/vec", &&rx.v, &ry.v, rx, ry, want)?;
    toname_pair(ctx, "vec/ref-slice", &rx.v, &ry.s, rx, ry, want)?;
    toname_pair(ctx, "ref-bytes/ref-parsed", &&rx.b, &&ry.p, rx, ry, want)?;
    toname_pair(ctx, "parsed/ref-vec", &rx.p, &&ry.v, rx, ry, want)?;
    // Ord on identical types
    let detail = || format!("a={} b={}", gn::show(rx.labels), gn::show(ry.labels));
    law!(ctx, rx.v.cmp(&ry.v) == want, "name:cmp-vs-rfc4034-6.1", "vec {} got {:?} want {want:?}", detail(), rx.v.cmp(&ry.v));
    law!(ctx, rx.b.cmp(&ry.b) == want, "name:cmp-vs-rfc4034-6.1", "bytes {}", detail());
    law!(ctx, rx.s.cmp(ry.s) == want, "name:cmp-vs-rfc4034-6.1", "slice {}", detail());
    law!(ctx, rx.p.cmp(&ry.p) == want, "name:cmp-vs-rfc4034-6.1", "parsed {} got {:?} want {want:?}", detail(), rx.p.cmp(&ry.p));
    // hashes: equal names hash equal, in every hashable representation
    if want == Ordering::Equal {
        let hx = h2(&rx.v);
        law!(ctx, hx == h2(&ry.v) && hx == h2(&ry.b) && hx == h2(ry.s), "name:equal-but-hash-differs", "flat {}", detail());
        law!(ctx, hx == h2(&ry.p), "name:equal-but-hash-differs:parsed", "{}", detail());
        law!(ctx, h2(&rx.ua) == h2(&ry.ua), "name:equal-but-hash-differs:uncertain", "{}", detail());
    }
    // UncertainName: Eq + Hash only
    law!(ctx, (rx.ua == ry.ua) == (want == Ordering::Equal), "uncertain:eq-vs-reference", "absolute {}", detail());
    // an absolute and a relative value: whatever == says, it must be
    // symmetric and coherent with the hash
    law!(ctx, (rx.ua == ry.ur) == (ry.ur == rx.ua), "uncertain:eq-not-symmetric", "{}", detail());
    if rx.ua == ry.ur {
        law!(ctx, h2(&rx.ua) == h2(&ry.ur), "uncertain:equal-but-hash-differs", "absolute/relative {}", detail());
    }
    // relative names: same rule applied to the label vectors without root
    law!(ctx, (rx.rel == ry.rel) == (want == Ordering::Equal), "relname:eq-vs-reference", "{}", detail());
    law!(ctx, rx.rel.cmp(&ry.rel) == want && rx.rel.partial_cmp(&ry.rel) == Some(want), "relname:cmp-vs-rfc4034-6.1", "{} got {:?} want {want:?}", detail(), rx.rel.cmp(&ry.rel));
    law!(ctx, (rx.rel == ry.crel) == (want == Ordering::Equal) && rx.rel.partial_cmp(&ry.crel) == Some(want), "relname:chain-vs-reference", "{}", detail());
    law!(ctx, ToRelativeName::name_cmp(&rx.crel, &ry.crel) == want && ToRelativeName::name_eq(&rx.crel, &ry.rel) == (want == Ordering::Equal), "relname:chain-vs-reference", "{}", detail());
    law!(ctx, ToRelativeName::name_eq(&rx.rel, &ry.crel) == (want == Ordering::Equal) && ToRelativeName::name_eq(&&rx.rel, &ry.rel) == (want == Ordering::Equal) && ToRelativeName::name_eq(&rx.rel, &&ry.rel) == (want == Ordering::Equal), "relname:name_eq-vs-reference", "{}", detail());
    law!(ctx, (rx.ur == ry.ur) == (want == Ordering::Equal), "uncertain:eq-vs-reference", "relative {}", detail());
    if want == Ordering::Equal {
        law!(ctx, h2(&rx.rel) == h2(&ry.rel), "relname:equal-but-hash-differs", "{}", detail());
        law!(ctx, h2(&rx.ur) == h2(&ry.ur), "uncertain:equal-but-hash-differs", "relative {}", detail());
    }
    Ok(())
}

fn vfail_harness(msg: String) -> CaseResult {
    Err(Violation::new("harness-bug:names", msg))
}

fn check_single(ctx: &mut Ctx, r: &Reps) -> CaseResult {
    let lw = r.wire.to_ascii_lowercase();
    let detail = || gn::show(r.labels);
    macro_rules! canon {
        ($what:literal, $n:expr) => {{
            let mut out = vec![];
            $n.compose_canonical(&mut out).unwrap();
            law!(ctx, out == lw, "name:compose_canonical", "{} {}", $what, detail());
            let c: NV = $n.to_canonical_name();
            law!(ctx, c.as_slice() == &lw[..], "name:to_canonical_name", "{} {}", $what, detail());
            let mut out = vec![];
            $n.compose(&mut out).unwrap();
            law!(ctx, out == r.wire, "name:compose", "{} {}", $what, detail());
            law!(ctx, usize::from($n.compose_len()) == r.wire.len(), "name:compose_len", "{} {}", $what, detail());
        }};
    }
    canon!("vec", r.v);
    canon!("parsed", r.p);
    canon!("chain", r.c);
    canon!("uncertain-chain", r.cu);
    // hash of one value does not depend on its representation
    let h = h2(&r.v);
    law!(ctx, h == h2(&r.b) && h == h2(r.s), "name:hash-depends-on-representation", "flat {}", detail());
    law!(ctx, h == h2(&r.p), "name:hash-depends-on-representation", "parsed {}", detail());
    law!(ctx, h == h2(&r.ua), "name:hash-depends-on-representation", "uncertain {}", detail());
    law!(ctx, h2(&r.rel) == h2(&r.ur), "relname:hash-depends-on-representation", "{}", detail());
    Ok(())
}

/// A relative of `src` among names: returns (labels, relation).
fn relative(u: &mut Unstructured, src: &Labels, pool: &[Labels]) -> (Labels, &'static str) {
    match pick(u, 10) {
        0 => (src.clone(), "identical"),
        1 => (gn::swap_case(src, u), "case"),
        2 | 3 => {
            // one octet changed near the letter ranges
            let mut c = src.clone();
            if c.is_empty() {
                return (c, "identical");
            }
            let li = pick(u, c.len());
            let i = pick(u, c[li].len());
            c[li][i] = tweak_byte(u, c[li][i]);
            (c, "tweak")
        }
        4 => {
            // label boundary: merge two adjacent labels with a literal dot,
            // or split a label at a dot / in the middle
            let mut c = src.clone();
            if c.len() >= 2 && flag(u) {
                let i = pick(u, c.len() - 1);
                if c[i].len() + c[i + 1].len() + 1 <= 63 {
                    let b = c.remove(i + 1);
                    // the joining octet is a literal dot (a.b vs a\.b), or
                    // the length octet of the absorbed label (then the two
                    // wire forms have the same length and differ in ONE
                    // length octet only: \001a\001b vs \003a\001b), or
                    // any octet near the letter ranges
                    let join = match pick(u, 4) {
                        0 | 1 => b'.',
                        2 => b.len() as u8,
                        _ => super::atoms::NEAR[pick(u, super::atoms::NEAR.len())],
                    };
                    c[i].push(join);
                    c[i].extend_from_slice(&b);
                }
                (c, "boundary")
            } else if !c.is_empty() {
                let i = pick(u, c.len());
                if c[i].len() >= 3 && flag(u) {
                    // "aXb" -> "a" "b": the octet X gives way to a length
                    // octet, the wire length stays the same
                    let at = 1 + pick(u, c[i].len() - 2);
                    let tail = c[i].split_off(at + 1);
                    c[i].pop();
                    c.insert(i + 1, tail);
                } else if c[i].len() >= 2 && gn::wire_len(&c) < 255 {
                    let at = 1 + pick(u, c[i].len() - 1);
                    let tail = c[i].split_off(at);
                    // "ab" -> "a" "b": same octets, one more boundary
                    c.insert(i + 1, tail);
                }
                (c, "boundary")
            } else {
                (c, "identical")
            }
        }
        5 => {
            // parent / child / sibling-prefix
            let mut c = src.clone();
            match pick(u, 3) {
                0 if !c.is_empty() => {
                    c.remove(0);
                }
                1 if gn::wire_len(&c) + 2 <= 255 => {
                    let room = (255 - gn::wire_len(&c) - 1).min(63);
                    c.insert(0, gn::label(u, room.min(6), false));
                }
                _ if !c.is_empty() => {
                    // first label shortened or extended by one octet
                    if c[0].len() > 1 && flag(u) {
                        c[0].pop();
                    } else if c[0].len() < 63 && gn::wire_len(&c) < 255 {
                        c[0].push(super::atoms::NEAR[pick(u, super::atoms::NEAR.len())]);
                    }
                }
                _ => {}
            }
            (c, "prefix")
        }
        6 => {
            // drop the last label (differs at the most significant end)
            let mut c = src.clone();
            if !c.is_empty() {
                c.pop();
            }
            (c, "prefix")
        }
        7 | 8 => (pool[pick(u, pool.len())].clone(), "pool"),
        _ => (gn::name(u, false), "fresh"),
    }
}

/// The `Borrow` entry points: `Name<Octs>: Borrow<Name<[u8]>>` and
/// `RelativeName<Octs>: Borrow<RelativeName<[u8]>>` exist so that a map keyed
/// by an owned name can be queried with a name over a slice. The lookup must
/// find exactly the entries the §6.1 reference calls equal — with any
/// hasher, so the maps use the call-sequence and the word-at-a-time hasher
/// besides SipHash.
fn borrow_lookups(ctx: &mut Ctx, trip: &[Labels; 3], reps: &[Reps]) -> CaseResult {
    use std::collections::HashMap;
    use std::hash::BuildHasherDefault;
    fn lookups<S: std::hash::BuildHasher + Default>(ctx: &mut Ctx, what: &str, trip: &[Labels; 3], reps: &[Reps]) -> CaseResult {
        let mut abs: HashMap<NV, usize, S> = HashMap::default();
        let mut byt: HashMap<NB, usize, S> = HashMap::default();
        let mut rel: HashMap<RV, usize, S> = HashMap::default();
        for (i, r) in reps.iter().enumerate() {
            abs.entry(r.v.clone()).or_insert(i);
            byt.entry(r.b.clone()).or_insert(i);
            rel.entry(r.rel.clone()).or_insert(i);
        }
        for (j, r) in reps.iter().enumerate() {
            let want = (0..3).find(|&i| ref_name_cmp(&trip[i], &trip[j]) == Ordering::Equal);
            let detail = || format!("{what}: map keys {} | {} | {} queried with {}", gn::show(&trip[0]), gn::show(&trip[1]), gn::show(&trip[2]), gn::show(&trip[j]));
            law!(ctx, abs.get(r.s).copied() == want, "name:map-lookup-by-borrowed-slice", "{} (Name<Vec<u8>> keys) found {:?} want {want:?}", detail(), abs.get(r.s));
            law!(ctx, byt.get(r.s).copied() == want, "name:map-lookup-by-borrowed-slice", "{} (Name<Bytes> keys) found {:?} want {want:?}", detail(), byt.get(r.s));
            law!(ctx, abs.get(&r.v).copied() == want, "name:map-lookup", "{} found {:?} want {want:?}", detail(), abs.get(&r.v));
            let rs: &RelativeName<[u8]> = r.rel.for_slice();
            law!(ctx, rel.get(rs).copied() == want, "relname:map-lookup-by-borrowed-slice", "{} found {:?} want {want:?}", detail(), rel.get(rs));
        }
        Ok(())
    }
    lookups::<BuildHasherDefault<DefaultHasher>>(ctx, "siphash", trip, reps)?;
    lookups::<ChunkBuild>(ctx, "call-sequence hasher", trip, reps)?;
    lookups::<BuildHasherDefault<WordHasher>>(ctx, "word-at-a-time hasher", trip, reps)?;
    ctx.class("names:borrow-lookup");
    Ok(())
}

pub fn run(data: &[u8], ctx: &mut Ctx) -> CaseResult {
    let mut u = Unstructured::new(data);
    // relation decisions first (fixed-size prefix), bulk generation after
    let mut params = [[0u8; 16]; 2];
    for p in params.iter_mut() {
        for b in p.iter_mut() {
            *b = byte(&mut u);
        }
    }
    let npool = 2 + pick(&mut u, 5);
    let pool = gn::pool(&mut u, npool, false);
    let n0 = pool[pick(&mut u, pool.len())].clone();
    let mut ru = Unstructured::new(&params[0][..]);
    let (n1, r1) = relative(&mut ru, &n0, &pool);
    let mut ru = Unstructured::new(&params[1][..]);
    let src2 = if flag(&mut ru) { n1.clone() } else { n0.clone() };
    let (n2, r2) = relative(&mut ru, &src2, &pool);
    let trip = [n0, n1, n2];
    for n in &trip {
        if gn::wire_len(n) > 255 {
            return vfail_harness(format!("generated name too long: {}", gn::show(n)));
        }
    }
    // scratch message: header, the pool names (compression targets), then the
    // triple (mostly pointers)
    let mut w = Writer { buf: vec![0u8; 12], seen: vec![], layout: Layout::default() };
    let compress_pool = !chance(&mut u, 40);
    for n in &pool {
        w.name(&mut u, n, compress_pool);
    }
    let mut offs = [0usize; 3];
    for (i, n) in trip.iter().enumerate() {
        offs[i] = w.buf.len();
        let compress = !chance(&mut u, 50);
        w.name(&mut u, n, compress);
    }
    let msg = w.buf;
    let wires: Vec<Vec<u8>> = trip.iter().map(gn::to_wire).collect();
    let mut reps: Vec<Reps> = vec![];
    for (i, n) in trip.iter().enumerate() {
        let mut parser = Parser::from_ref(&msg[..]);
        parser.advance(offs[i]).expect("offset inside scratch message");
        let p = match ParsedName::parse(&mut parser) {
            Ok(p) => p,
            Err(e) => return vfail_harness(format!("scratch message name does not parse: {e} ({})", gn::show(n))),
        };
        let end = parser.pos();
        let p_has_pointer = msg[offs[i]..end].iter().any(|b| b & 0xC0 == 0xC0) && end - offs[i] < wires[i].len();
        // chain split at a generated label boundary
        let k = pick(&mut u, n.len() + 1);
        let left = rel_of(&n[..k]);
        let right = gn::to_name(&n[k..].to_vec());
        let c = left.clone().chain(right.clone()).expect("chain within 255 octets");
        let cu = UncertainName::relative(left.clone()).chain(right.clone()).expect("chain within 255 octets");
        let k2 = pick(&mut u, n.len() + 1);
        let crel = rel_of(&n[..k2]).chain(rel_of(&n[k2..])).expect("relative chain");
        if k > 0 && k < n.len() {
            ctx.class("names:chain");
        }
        reps.push(Reps {
            labels: n,
            wire: wires[i].clone(),
            v: gn::to_name(n),
            b: gn::to_name_bytes(n),
            s: Name::from_slice(&wires[i]).expect("valid name"),
            p,
            p_has_pointer,
            c,
            cu,
            ua: UncertainName::absolute(gn::to_name(n)),
            rel: rel_of(n),
            ur: UncertainName::relative(rel_of(n)),
            crel,
        });
    }
    // what the library parsed must be what was written (guards the scratch
    // message; a mismatch is C01/C02's business, not an order violation)
    for r in &reps {
        let got: Labels = r.p.iter_labels().filter(|l| !l.is_root()).map(|l| l.as_slice().to_vec()).collect();
        if &got != r.labels {
            return vfail_harness(format!("ParsedName reads {} where {} was written", gn::show(&got), gn::show(r.labels)));
        }
    }
    let mut nontrivial = false;
    for r in &reps {
        check_single(ctx, r)?;
        if r.p_has_pointer {
            ctx.class("names:parsed-with-pointer");
        }
        if r.wire.len() >= 250 {
            ctx.class("names:len>=250");
        }
    }
    ctx.class("names:relative");
    ctx.class("names:uncertain");
    let mut ords = [[Ordering::Equal; 3]; 3];
    for i in 0..3 {
        for j in 0..3 {
            check_pair(ctx, &reps[i], &reps[j])?;
            let want = ref_name_cmp(&trip[i], &trip[j]);
            ords[i][j] = reps[i].v.cmp(&reps[j].v);
            if wires[i] != wires[j] {
                if want == Ordering::Equal {
                    ctx.class("names:equal-diff-case");
                    nontrivial = true;
                }
                let flat_i: Vec<u8> = trip[i].join(&b'.');
                let flat_j: Vec<u8> = trip[j].join(&b'.');
                if flat_i.eq_ignore_ascii_case(&flat_j) && trip[i].len() != trip[j].len() {
                    ctx.class("names:boundary-variant");
                    nontrivial = true;
                }
                // same number of wire octets, other label boundaries, and
                // the octets outside the length octets agree: what an
                // in-place comparison that trusts one side's label lengths
                // cannot tell apart
                if trip[i].len() != trip[j].len() && wires[i].len() == wires[j].len() {
                    let diff = (0..wires[i].len()).filter(|&p| !wires[i][p].eq_ignore_ascii_case(&wires[j][p])).count();
                    if diff <= 2 {
                        ctx.class("names:boundary-same-wire-length");
                        if reps[i].p_has_pointer != reps[j].p_has_pointer {
                            ctx.class("names:boundary-same-wire-length:flat-vs-compressed");
                        }
                        nontrivial = true;
                    }
                }
                let (a, b) = (&trip[i], &trip[j]);
                if a.len() != b.len() && (a.ends_with(b) || b.ends_with(a) || a.starts_with(b) || b.starts_with(a)) {
                    ctx.class("names:prefix-or-parent");
                    nontrivial = true;
                }
                if wires[i].len() == wires[j].len() {
                    if let Some(p) = (0..wires[i].len()).find(|&p| wires[i][p] != wires[j][p]) {
                        if near_letter(wires[i][p]) || near_letter(wires[j][p]) {
                            ctx.class("names:tweak-near-letter");
                            nontrivial = true;
                        }
                    }
                }
            }
        }
    }
    borrow_lookups(ctx, &trip, &reps)?;
    for (a, b, c) in [(0, 1, 2), (1, 0, 2), (0, 2, 1), (2, 0, 1), (1, 2, 0), (2, 1, 0)] {
        law!(ctx, transitive(ords[a][b], ords[b][c], ords[a][c]), "name:cmp-not-transitive", "{} {} {}", gn::show(&trip[a]), gn::show(&trip[b]), gn::show(&trip[c]));
    }
    ctx.class(format!("names-rel:{r1}"));
    ctx.class(format!("names-rel:{r2}"));
    if nontrivial {
        ctx.nontrivial(&("names", &wires));
        ctx.sample(|| format!("names {} | {} | {} (relations {r1},{r2}; pointers {:?})", gn::show(&trip[0]), gn::show(&trip[1]), gn::show(&trip[2]), reps.iter().map(|r| r.p_has_pointer).collect::<Vec<_>>()));
    }
    Ok(())
}
