//! Record data of every type, records, record headers, questions.
use super::atoms::{near_letter, tweak_byte, NEAR};
use super::*;
use crate::gen::message::{Layout, Writer};
use crate::gen::name::{self as gn, Labels};
use crate::gen::rdata as grd;
use crate::gen::*;
use crate::refimpl::rdata as rr;
use crate::refimpl::wire;
use arbitrary::Unstructured;
use bytes::Bytes;
use domain::base::cmp::CanonicalOrd;
use domain::base::iana::{Class, Rtype};
use domain::base::message::Message;
use domain::base::name::{FlattenInto, Name, ParsedName};
use domain::base::rdata::{ComposeRecordData, UnknownRecordData};
use domain::base::record::{ParsedRecord, Record, RecordHeader};
use domain::base::{Question, Ttl};
use domain::rdata::*;
use octseq::OctetsFrom;

type NV = Name<Vec<u8>>;
type NB = Name<Bytes>;
type PN<'a> = ParsedName<&'a [u8]>;
type PA<'a> = AllRecordData<&'a [u8], PN<'a>>;
type FA = AllRecordData<Vec<u8>, NV>;
type BA = AllRecordData<Bytes, NB>;
type PZ<'a> = ZoneRecordData<&'a [u8], PN<'a>>;
type FZ = ZoneRecordData<Vec<u8>, NV>;

const UNKNOWN_TYPES: [u16; 6] = [99, 258, 1234, 65280, 65534, 32768];

pub fn type_labels() -> Vec<String> {
    let mut v: Vec<String> = rr::ALL_TYPES.iter().map(|&t| rr::mnemonic(t)).collect();
    v.push("UNKNOWN".into());
    v
}

/// The types whose layout starts with at least two fixed-width fields in
/// front of anything of variable length: for these the field-pair relation
/// must be populated (it is what notices a permuted field order).
pub fn field_pair_types() -> Vec<String> {
    rr::ALL_TYPES
        .iter()
        .filter(|&&t| t != rr::IPSECKEY)
        .filter(|&&t| {
            let f = rr::schema(t).unwrap_or(&[]);
            f.iter().take_while(|f| matches!(f, rr::F::U8 | rr::F::U16 | rr::F::U32 | rr::F::U48 | rr::F::Fixed(_))).count() >= 2
        })
        .map(|&t| rr::mnemonic(t))
        .collect()
}

fn tname(rtype: u16) -> String {
    if rr::schema(rtype).is_some() {
        rr::mnemonic(rtype)
    } else {
        "UNKNOWN".into()
    }
}

#[derive(Clone)]
struct Member {
    rtype: u16,
    rd: Vec<u8>,
    owner: Labels,
    class: u16,
    ttl: u32,
    rel: &'static str,
    /// canonical RDATA by the reference (None if the reference cannot walk it)
    canon: Option<Vec<u8>>,
    /// RDATA with every embedded name lower-cased: two members with the same
    /// key are the same value up to ASCII case of names
    ikey: Option<Vec<u8>>,
}

#[derive(PartialEq, Debug, Clone, Copy)]
struct Obs {
    eq: bool,
    ne: bool,
    pc: Option<Ordering>,
    cc: Ordering,
}

macro_rules! obs {
    ($x:expr, $y:expr) => {
        Obs { eq: *$x == *$y, ne: *$x != *$y, pc: $x.partial_cmp($y), cc: $x.canonical_cmp($y) }
    };
}

fn lower_names(rtype: u16, rd: &[u8]) -> Vec<u8> {
    let mut v = rd.to_vec();
    for (off, len, _, _) in rr::name_spans(rtype, rd) {
        v[off..off + len].make_ascii_lowercase();
    }
    v
}

/// The shared generator plus three rules the library's parsers enforce
/// (ZONEMD digest >= 12 octets, IPSECKEY key non-empty unless the algorithm
/// is 0, NSEC bitmap non-empty); all three fields are the tail of the RDATA.
fn gen_rdata(u: &mut Unstructured, rtype: u16, pool: &[Labels], o: grd::Opts) -> Vec<u8> {
    let mut rd = grd::rdata(u, rtype, pool, o);
    if rtype == rr::ZONEMD {
        while rd.len() < 6 + 12 {
            rd.push(byte(u));
        }
    }
    if rtype == rr::IPSECKEY && rd.len() >= 3 && rd[2] != 0 {
        rd.push(byte(u));
    }
    if rtype == rr::NSEC {
        // Nsec::parse rejects an empty type bitmap (RFC 4034 §4.1.2)
        if let Some((off, len, _, _)) = rr::name_spans(rtype, &rd).first() {
            if off + len == rd.len() {
                rd.extend_from_slice(&[0, 1, 0x40]);
            }
        }
    }
    rd
}

/// Positions of the length octet(s) of every length-prefixed field of
/// uncompressed RDATA: (offset, width of the length field, current length).
fn len_fields(rtype: u16, rd: &[u8]) -> Vec<(usize, usize, usize)> {
    let mut out = len_fields_raw(rtype, rd);
    out.retain(|(o, w, n)| o + w + n <= rd.len());
    out
}

fn len_fields_raw(rtype: u16, rd: &[u8]) -> Vec<(usize, usize, usize)> {
    let mut out = vec![];
    let Some(fields) = rr::schema(rtype) else { return out };
    let end = rd.len();
    let mut pos = 0usize;
    let mut gw = 0u8;
    for (i, f) in fields.iter().enumerate() {
        let adv = match *f {
            rr::F::U8 => {
                if rtype == rr::IPSECKEY && i == 1 && pos < end {
                    gw = rd[pos];
                }
                1
            }
            rr::F::U16 => 2,
            rr::F::U32 => 4,
            rr::F::U48 => 6,
            rr::F::Fixed(n) => n,
            rr::F::Name { .. } => match rr::read_name(rd, pos, end) {
                Ok((_, next, _)) => next - pos,
                Err(_) => return out,
            },
            rr::F::CharStr | rr::F::Len8 | rr::F::CaaTag => {
                if pos >= end {
                    return out;
                }
                out.push((pos, 1, rd[pos] as usize));
                1 + rd[pos] as usize
            }
            rr::F::Len16 => {
                if pos + 2 > end {
                    return out;
                }
                let n = u16::from_be_bytes([rd[pos], rd[pos + 1]]) as usize;
                out.push((pos, 2, n));
                2 + n
            }
            rr::F::CharStrs => {
                let mut p = pos;
                while p < end {
                    out.push((p, 1, rd[p] as usize));
                    p += 1 + rd[p] as usize;
                }
                end.saturating_sub(pos)
            }
            rr::F::IpsecGateway => match gw {
                1 => 4,
                2 => 16,
                3 => match rr::read_name(rd, pos, end) {
                    Ok((_, next, _)) => next - pos,
                    Err(_) => return out,
                },
                _ => 0,
            },
            rr::F::Rest | rr::F::Bitmap | rr::F::SvcParams | rr::F::OptOptions => end.saturating_sub(pos),
        };
        pos += adv;
        if pos > end {
            return out;
        }
    }
    out
}

/// The octet ranges of the fields of uncompressed RDATA that can take an
/// octet tweak without changing the structure: fixed-width integer/address
/// fields, the *content* of length-prefixed fields and the opaque rest.
/// Names, bitmaps, parameter lists and the IPSECKEY gateway are left out
/// (they are skipped over); empty fields are not listed.
fn plain_fields(rtype: u16, rd: &[u8]) -> Vec<(usize, usize)> {
    let mut out = vec![];
    let Some(fields) = rr::schema(rtype) else { return out };
    let end = rd.len();
    let mut pos = 0usize;
    let mut gw = 0u8;
    for (i, f) in fields.iter().enumerate() {
        let mut content: Option<(usize, usize)> = None;
        let adv = match *f {
            rr::F::U8 => {
                if rtype == rr::IPSECKEY && i == 1 && pos < end {
                    gw = rd[pos];
                } else {
                    content = Some((pos, 1));
                }
                1
            }
            rr::F::U16 => {
                content = Some((pos, 2));
                2
            }
            rr::F::U32 => {
                content = Some((pos, 4));
                4
            }
            rr::F::U48 => {
                content = Some((pos, 6));
                6
            }
            rr::F::Fixed(n) => {
                content = Some((pos, n));
                n
            }
            rr::F::Name { .. } => match rr::read_name(rd, pos, end) {
                Ok((_, next, _)) => next - pos,
                Err(_) => return out,
            },
            rr::F::CharStr | rr::F::Len8 | rr::F::CaaTag => {
                if pos >= end {
                    return out;
                }
                content = Some((pos + 1, rd[pos] as usize));
                1 + rd[pos] as usize
            }
            rr::F::Len16 => {
                if pos + 2 > end {
                    return out;
                }
                let n = u16::from_be_bytes([rd[pos], rd[pos + 1]]) as usize;
                content = Some((pos + 2, n));
                2 + n
            }
            rr::F::CharStrs => {
                let mut p = pos;
                while p < end {
                    let n = rd[p] as usize;
                    if n > 0 && p + 1 + n <= end {
                        out.push((p + 1, n));
                    }
                    p += 1 + n;
                }
                end.saturating_sub(pos)
            }
            rr::F::IpsecGateway => match gw {
                1 => 4,
                2 => 16,
                3 => match rr::read_name(rd, pos, end) {
                    Ok((_, next, _)) => next - pos,
                    Err(_) => return out,
                },
                _ => 0,
            },
            rr::F::Rest => {
                content = Some((pos, end.saturating_sub(pos)));
                end.saturating_sub(pos)
            }
            rr::F::Bitmap | rr::F::SvcParams | rr::F::OptOptions => end.saturating_sub(pos),
        };
        if let Some((o, n)) = content {
            if n > 0 && o + n <= end {
                out.push((o, n));
            }
        }
        pos += adv;
        if pos > end {
            return out;
        }
    }
    out
}

/// Mutates `src` into a related RDATA candidate. The candidate may be
/// invalid; validity is decided later (reference walk + library parse).
fn relative(u: &mut Unstructured, bulk: &mut Unstructured, rtype: u16, src: &[u8], pool: &[Labels], o: grd::Opts) -> (Vec<u8>, &'static str) {
    let spans = rr::name_spans(rtype, src);
    match pick(u, 12) {
        1 | 2 if !spans.is_empty() => {
            // ASCII case of embedded names
            let mut v = src.to_vec();
            let all = flag(u);
            for (off, len, _, _) in &spans {
                for b in &mut v[*off..*off + *len] {
                    if b.is_ascii_alphabetic() && (all || flag(u)) {
                        *b ^= 0x20;
                    }
                }
            }
            (v, "name-case")
        }
        3 => {
            // ASCII case of any letter anywhere (character strings, tags, blobs)
            let mut v = src.to_vec();
            let all = flag(u);
            for b in &mut v {
                if b.is_ascii_alphabetic() && (all || chance(u, 64)) {
                    *b ^= 0x20;
                }
            }
            (v, "ascii-case")
        }
        0 | 4 | 5 => {
            let mut v = src.to_vec();
            if v.is_empty() {
                return (v, "identical");
            }
            // inside a name (label content) half of the time, else anywhere,
            // biased to the end and the start
            let i = if !spans.is_empty() && flag(u) {
                let (off, len, _, _) = spans[pick(u, spans.len())];
                off + pick(u, len)
            } else {
                match pick(u, 4) {
                    0 => v.len() - 1,
                    1 => pick(u, v.len().min(12)),
                    _ => pick(u, v.len()),
                }
            };
            v[i] = tweak_byte(u, v[i]);
            (v, "octet-tweak")
        }
        7 | 8 if !spans.is_empty() => {
            // replace one embedded name by a related one
            let (off, len, _, _) = spans[pick(u, spans.len())];
            let cur = gn::from_wire(&src[off..off + len]).unwrap_or_default();
            let new: Labels = match pick(u, 6) {
                0 => gn::swap_case(&cur, u),
                1 => pool[pick(u, pool.len())].clone(),
                2 => {
                    let mut c = cur.clone();
                    if c.len() >= 2 && c[0].len() + c[1].len() + 1 <= 63 {
                        let b = c.remove(1);
                        c[0].push(b'.');
                        c[0].extend_from_slice(&b);
                    }
                    c
                }
                3 => {
                    let mut c = cur.clone();
                    if !c.is_empty() {
                        c.remove(0);
                    }
                    c
                }
                4 => {
                    let mut c = cur.clone();
                    if gn::wire_len(&c) + 3 <= 255 {
                        c.insert(0, vec![NEAR[pick(u, NEAR.len())], b'a']);
                    }
                    c
                }
                _ => {
                    let mut c = cur.clone();
                    if let Some(l) = c.last_mut() {
                        let i = pick(u, l.len());
                        l[i] = tweak_byte(u, l[i]);
                    }
                    c
                }
            };
            let mut v = src[..off].to_vec();
            v.extend(gn::to_wire(&new));
            v.extend_from_slice(&src[off + len..]);
            (v, "name-splice")
        }
        6 => (src.to_vec(), "identical"),
        9 => {
            // tail: drop or add octets at the end (one a prefix of the other)
            let mut v = src.to_vec();
            if flag(u) && !v.is_empty() {
                let k = 1 + pick(u, v.len().min(3));
                v.truncate(v.len() - k);
            } else {
                for _ in 0..1 + pick(u, 3) {
                    v.push([0u8, 0xff, b'a', b'A', 1][pick(u, 5)]);
                }
            }
            (v, "tail")
        }
        10 if src.len() >= 2 => {
            // two octets moved in opposite directions: the pair then orders
            // differently under any permutation of the fields they sit in
            let mut v = src.to_vec();
            let i = pick(u, v.len() - 1);
            let sel = byte(u);
            let span = if sel & 1 == 1 { 8 } else { 64 };
            let pf = plain_fields(rtype, src);
            let (i, j) = if sel & 2 == 2 && pf.len() >= 2 {
                // field-pair mode: the two octets sit in two DIFFERENT
                // fields of the type's layout (so every pair of fields,
                // also two adjacent one-octet fields behind a long blob's
                // header, is hit with a probability that does not depend on
                // the length of the RDATA)
                let fa = pick(u, pf.len() - 1);
                let fb = fa + 1 + pick(u, (pf.len() - 1 - fa).min(if sel & 4 == 4 { 1 } else { 8 }));
                let at = |u: &mut Unstructured, (o, n): (usize, usize)| match pick(u, 3) {
                    0 => o,
                    1 => o + n - 1,
                    _ => o + pick(u, n.min(8)),
                };
                (at(u, pf[fa]), at(u, pf[fb]))
            } else {
                (i, i + 1 + pick(u, (v.len() - 1 - i).min(span)))
            };
            let up = flag(u);
            v[i] = if up { v[i].wrapping_add(1) } else { v[i].wrapping_sub(1) };
            v[j] = if up { v[j].wrapping_sub(1) } else { v[j].wrapping_add(1) };
            (v, if sel & 2 == 2 && pf.len() >= 2 { "two-tweak-fields" } else { "two-tweak" })
        }
        11 if !len_fields(rtype, src).is_empty() => {
            // a length-prefixed field (character string, salt, hash, MAC,
            // tag) made one octet shorter or longer, optionally with its
            // first octet moved the other way: orders that look at the length
            // first and orders that do not then disagree
            let lf = len_fields(rtype, src);
            let (off, w, n) = lf[pick(u, lf.len())];
            let max = if w == 1 { 255 } else { 0xFFFF };
            let mut v = src.to_vec();
            let content = off + w;
            let shrink = n > 0 && (n >= max || flag(u));
            let newlen = if shrink {
                v.remove(if flag(u) { content + n - 1 } else { content });
                n - 1
            } else {
                v.insert(if flag(u) { content + n } else { content }, [b'a', b'A', 0, 0xff, b'z'][pick(u, 5)]);
                n + 1
            };
            if w == 1 {
                v[off] = newlen as u8;
            } else {
                v[off..off + 2].copy_from_slice(&(newlen as u16).to_be_bytes());
            }
            if newlen > 0 && flag(u) {
                v[content] = if shrink { v[content].wrapping_add(1) } else { v[content].wrapping_sub(1) };
            }
            (v, "field-resize")
        }
        _ => (gen_rdata(bulk, rtype, pool, o), "fresh"),
    }
}

struct Parsed<'a> {
    pr: ParsedRecord<'a, Vec<u8>>,
    rec: Record<PN<'a>, PA<'a>>,
    flat: Record<NV, FA>,
    byt: Record<NB, BA>,
    zone: Option<(Record<PN<'a>, PZ<'a>>, Record<NV, FZ>)>,
    rd_in_msg_len: usize,
    owner_pointer: bool,
}

fn harness_bug(msg: String) -> Violation {
    Violation::new("harness-bug:rdata", msg)
}

//------------ generic laws over a family of values ------------------------------

/// Laws for record data held in two representations (parsed `P`, flat `F`).
#[allow(clippy::too_many_arguments)]
fn data_laws<P, F>(ctx: &mut Ctx, tag: &str, m: &[&Member], p: &[&P], f: &[&F], check_ref: bool) -> Result<Vec<Vec<(Obs, Ordering)>>, Violation>
where
    P: Eq + Ord + Hash + PartialEq<F> + PartialOrd<F> + PartialOrd<P> + CanonicalOrd<P> + CanonicalOrd<F> + ComposeRecordData,
    F: Eq + Ord + Hash + PartialEq<P> + PartialOrd<P> + PartialOrd<F> + CanonicalOrd<F> + CanonicalOrd<P> + ComposeRecordData,
{
    let n = m.len();
    let mut mat: Vec<Vec<(Obs, Ordering)>> = vec![];
    for i in 0..n {
        let t = tname(m[i].rtype);
        let mut row = vec![];
        // one value: hash and canonical form do not depend on representation
        law!(ctx, h2(p[i]) == h2(f[i]), format!("{tag}:hash-depends-on-representation:{t}"), "rdata {}", hex(&m[i].rd));
        if check_ref {
            if let Some(c) = &m[i].canon {
                for (what, got) in [("parsed", compose_canon(p[i])), ("flat", compose_canon(f[i]))] {
                    law!(ctx, &got == c, format!("{tag}:compose_canonical_rdata-vs-reference:{t}"), "{what} rdata {} library {} reference {}", hex(&m[i].rd), hex(&got), hex(c));
                }
            }
        }
        for j in 0..n {
            let t = if m[i].rtype == m[j].rtype { t.clone() } else { "cross-type".to_string() };
            let detail = || format!("type {}/{} a={} b={}", m[i].rtype, m[j].rtype, hex(&m[i].rd), hex(&m[j].rd));
            let o = obs!(f[i], f[j]);
            let combos = [("parsed/parsed", obs!(p[i], p[j])), ("parsed/flat", obs!(p[i], f[j])), ("flat/parsed", obs!(f[i], p[j]))];
            for (what, oc) in combos {
                law!(ctx, oc == o, format!("{tag}:depends-on-representation:{t}"), "{} {what} gives {oc:?}, flat/flat gives {o:?}", detail());
            }
            let cmp = f[i].cmp(f[j]);
            law!(ctx, o.pc == Some(cmp) && p[i].cmp(p[j]) == cmp, format!("{tag}:partial_cmp-vs-cmp:{t}"), "{} partial_cmp {:?} cmp(flat) {cmp:?} cmp(parsed) {:?}", detail(), o.pc, p[i].cmp(p[j]));
            law!(ctx, o.ne != o.eq, format!("{tag}:ne-vs-eq:{t}"), "{}", detail());
            if i == j {
                law!(ctx, o.eq, format!("{tag}:eq-not-reflexive:{t}"), "{}", detail());
                law!(ctx, cmp == Ordering::Equal, format!("{tag}:cmp-not-reflexive:{t}"), "{}", detail());
                law!(ctx, o.cc == Ordering::Equal, format!("{tag}:canonical_cmp-not-reflexive:{t}"), "{}", detail());
            }
            law!(ctx, (cmp == Ordering::Equal) == o.eq, format!("{tag}:cmp-equal-vs-eq:{t}"), "{} == gives {} but cmp gives {cmp:?}", detail(), o.eq);
            if o.eq {
                law!(ctx, h2(f[i]) == h2(f[j]) && h2(p[i]) == h2(p[j]), format!("{tag}:equal-but-hash-differs:{t}"), "{}", detail());
            }
            // same value up to ASCII case of embedded names / representation
            if m[i].rtype == m[j].rtype {
                if let (Some(a), Some(b)) = (&m[i].ikey, &m[j].ikey) {
                    if a == b {
                        law!(ctx, o.eq, format!("{tag}:name-case-variant-not-equal:{t}"), "{}", detail());
                    }
                }
                if check_ref {
                    if let (Some(a), Some(b)) = (&m[i].canon, &m[j].canon) {
                        law!(ctx, o.cc == a.cmp(b), format!("{tag}:canonical_cmp-vs-canonical-wire:{t}"), "{} canonical_cmp {:?}, canonical forms {} vs {} compare {:?}", detail(), o.cc, hex(a), hex(b), a.cmp(b));
                    }
                }
            }
            row.push((o, cmp));
        }
        mat.push(row);
    }
    for i in 0..n {
        for j in 0..n {
            let t = if m[i].rtype == m[j].rtype { tname(m[i].rtype) } else { "cross-type".to_string() };
            let detail = || format!("type {}/{} a={} b={}", m[i].rtype, m[j].rtype, hex(&m[i].rd), hex(&m[j].rd));
            law!(ctx, mat[i][j].0.eq == mat[j][i].0.eq, format!("{tag}:eq-not-symmetric:{t}"), "{}", detail());
            law!(ctx, mat[i][j].1 == rev(mat[j][i].1), format!("{tag}:cmp-not-antisymmetric:{t}"), "{} {:?} vs {:?}", detail(), mat[i][j].1, mat[j][i].1);
            law!(ctx, mat[i][j].0.cc == rev(mat[j][i].0.cc), format!("{tag}:canonical_cmp-not-antisymmetric:{t}"), "{} {:?} vs {:?}", detail(), mat[i][j].0.cc, mat[j][i].0.cc);
            for k in 0..n {
                let t3 = if m[i].rtype == m[j].rtype && m[j].rtype == m[k].rtype { tname(m[i].rtype) } else { "cross-type".to_string() };
                let d3 = || format!("a={} b={} c={}", hex(&m[i].rd), hex(&m[j].rd), hex(&m[k].rd));
                law!(ctx, transitive(mat[i][j].1, mat[j][k].1, mat[i][k].1), format!("{tag}:cmp-not-transitive:{t3}"), "{}", d3());
                law!(ctx, transitive(mat[i][j].0.cc, mat[j][k].0.cc, mat[i][k].0.cc), format!("{tag}:canonical_cmp-not-transitive:{t3}"), "{}", d3());
                if mat[i][j].0.eq && mat[j][k].0.eq {
                    law!(ctx, mat[i][k].0.eq, format!("{tag}:eq-not-transitive:{t3}"), "{}", d3());
                }
            }
        }
    }
    Ok(mat)
}

fn compose_canon<D: ComposeRecordData>(d: &D) -> Vec<u8> {
    let mut v = vec![];
    d.compose_canonical_rdata(&mut v).unwrap();
    v
}

/// The laws applied directly to the typed structs (values taken out of the
/// parsed enum).
fn typed_laws<T>(ctx: &mut Ctx, t: &str, vals: &[Option<T>], m: &[&Member]) -> CaseResult
where
    T: Eq + Ord + Hash + CanonicalOrd + ComposeRecordData,
{
    for i in 0..vals.len() {
        for j in 0..vals.len() {
            let (Some(a), Some(b)) = (&vals[i], &vals[j]) else { continue };
            let detail = || format!("a={} b={}", hex(&m[i].rd), hex(&m[j].rd));
            let (o, back) = (obs!(a, b), obs!(b, a));
            let cmp = a.cmp(b);
            law!(ctx, o.eq == back.eq, format!("typed:eq-not-symmetric:{t}"), "{}", detail());
            law!(ctx, cmp == rev(b.cmp(a)), format!("typed:cmp-not-antisymmetric:{t}"), "{}", detail());
            law!(ctx, o.cc == rev(back.cc), format!("typed:canonical_cmp-not-antisymmetric:{t}"), "{}", detail());
            law!(ctx, o.pc == Some(cmp) && o.ne != o.eq, format!("typed:partial_cmp-vs-cmp:{t}"), "{} partial_cmp {:?} cmp {cmp:?}", detail(), o.pc);
            law!(ctx, (cmp == Ordering::Equal) == o.eq, format!("typed:cmp-equal-vs-eq:{t}"), "{} == gives {} cmp gives {cmp:?}", detail(), o.eq);
            if i == j {
                law!(ctx, o.eq && o.cc == Ordering::Equal, format!("typed:not-reflexive:{t}"), "{}", detail());
            }
            if o.eq {
                law!(ctx, h2(a) == h2(b), format!("typed:equal-but-hash-differs:{t}"), "{}", detail());
            }
            if let (Some(x), Some(y)) = (&m[i].ikey, &m[j].ikey) {
                if x == y {
                    law!(ctx, o.eq, format!("typed:name-case-variant-not-equal:{t}"), "{}", detail());
                }
            }
            if let (Some(x), Some(y)) = (&m[i].canon, &m[j].canon) {
                law!(ctx, o.cc == x.cmp(y), format!("typed:canonical_cmp-vs-canonical-wire:{t}"), "{} canonical_cmp {:?} canonical forms compare {:?}", detail(), o.cc, x.cmp(y));
            }
        }
        if let (Some(a), Some(c)) = (&vals[i], &m[i].canon) {
            law!(ctx, &compose_canon(a) == c, format!("typed:compose_canonical_rdata-vs-reference:{t}"), "rdata {}", hex(&m[i].rd));
        }
    }
    ctx.class("typed-struct");
    Ok(())
}

macro_rules! typed {
    ($ctx:expr, $ps:expr, $m:expr, $t:expr, $var:ident) => {{
        let vals: Vec<Option<_>> = $ps.iter().map(|p| match p.rec.data() { AllRecordData::$var(x) => Some(x.clone()), _ => None }).collect();
        typed_laws($ctx, $t, &vals, $m)?;
    }};
}

fn typed_dispatch<'a>(ctx: &mut Ctx, rtype: u16, ps: &[&Parsed<'a>], m: &[&Member]) -> CaseResult {
    let t = tname(rtype);
    let t = t.as_str();
    match rtype {
        rr::A => typed!(ctx, ps, m, t, A),
        rr::NS => typed!(ctx, ps, m, t, Ns),
        rr::MD => typed!(ctx, ps, m, t, Md),
        rr::MF => typed!(ctx, ps, m, t, Mf),
        rr::CNAME => typed!(ctx, ps, m, t, Cname),
        rr::SOA => typed!(ctx, ps, m, t, Soa),
        rr::MB => typed!(ctx, ps, m, t, Mb),
        rr::MG => typed!(ctx, ps, m, t, Mg),
        rr::MR => typed!(ctx, ps, m, t, Mr),
        rr::NULL => typed!(ctx, ps, m, t, Null),
        rr::PTR => typed!(ctx, ps, m, t, Ptr),
        rr::HINFO => typed!(ctx, ps, m, t, Hinfo),
        rr::MINFO => typed!(ctx, ps, m, t, Minfo),
        rr::MX => typed!(ctx, ps, m, t, Mx),
        rr::TXT => typed!(ctx, ps, m, t, Txt),
        rr::RP => typed!(ctx, ps, m, t, Rp),
        rr::AAAA => typed!(ctx, ps, m, t, Aaaa),
        rr::SRV => typed!(ctx, ps, m, t, Srv),
        rr::NAPTR => typed!(ctx, ps, m, t, Naptr),
        rr::DNAME => typed!(ctx, ps, m, t, Dname),
        rr::OPT => typed!(ctx, ps, m, t, Opt),
        rr::DS => typed!(ctx, ps, m, t, Ds),
        rr::SSHFP => typed!(ctx, ps, m, t, Sshfp),
        rr::IPSECKEY => typed!(ctx, ps, m, t, Ipseckey),
        rr::RRSIG => typed!(ctx, ps, m, t, Rrsig),
        rr::NSEC => typed!(ctx, ps, m, t, Nsec),
        rr::DNSKEY => typed!(ctx, ps, m, t, Dnskey),
        rr::NSEC3 => typed!(ctx, ps, m, t, Nsec3),
        rr::NSEC3PARAM => typed!(ctx, ps, m, t, Nsec3param),
        rr::TLSA => typed!(ctx, ps, m, t, Tlsa),
        rr::CDS => typed!(ctx, ps, m, t, Cds),
        rr::CDNSKEY => typed!(ctx, ps, m, t, Cdnskey),
        rr::OPENPGPKEY => typed!(ctx, ps, m, t, Openpgpkey),
        rr::ZONEMD => typed!(ctx, ps, m, t, Zonemd),
        rr::SVCB => typed!(ctx, ps, m, t, Svcb),
        rr::HTTPS => typed!(ctx, ps, m, t, Https),
        rr::TSIG => typed!(ctx, ps, m, t, Tsig),
        rr::CAA => typed!(ctx, ps, m, t, Caa),
        _ => {}
    }
    Ok(())
}

/// RFC 3597 §5 allows the `\#` notation for known types too, and
/// `ZoneRecordData::scan` then returns the `Unknown` variant holding a known
/// type code. Such a value and the typed value of the same type are members
/// of one RRset: the laws and the §6.3 order apply to them.
fn unknown_variant_laws(ctx: &mut Ctx, rtype: u16, m: &[&Member], fa: &[&FA], fz: Vec<Option<&FZ>>) -> CaseResult {
    let t = tname(rtype);
    for i in 0..m.len() {
        if m[i].rtype != rtype {
            continue;
        }
        let Ok(u) = UnknownRecordData::from_octets(Rtype::from_int(rtype), m[i].rd.clone()) else { continue };
        let ua: FA = AllRecordData::Unknown(u.clone());
        let uz: FZ = ZoneRecordData::Unknown(u);
        for j in 0..m.len() {
            if m[j].rtype != rtype {
                continue;
            }
            let detail = || format!("type {rtype} ({t}) unknown-variant rdata={} typed rdata={}", hex(&m[i].rd), hex(&m[j].rd));
            macro_rules! against {
                ($tag:literal, $u:expr, $v:expr) => {{
                    let (o, back) = (obs!($u, $v), obs!($v, $u));
                    let cmp = $u.cmp($v);
                    ctx.class("unknown-variant-vs-typed");
                    law!(ctx, o.eq == back.eq && cmp == rev($v.cmp($u)) && o.cc == rev(back.cc), concat!($tag, ":unknown-variant-vs-typed:not-symmetric"), "{}", detail());
                    law!(ctx, (cmp == Ordering::Equal) == o.eq && o.pc == Some(cmp), concat!($tag, ":unknown-variant-vs-typed:cmp-equal-vs-eq"), "{} == gives {} cmp gives {cmp:?}", detail(), o.eq);
                    if o.eq {
                        law!(ctx, h2($u) == h2($v), concat!($tag, ":unknown-variant-vs-typed:equal-but-hash-differs"), "{}", detail());
                    }
                    if let (Some(a), Some(b)) = (&m[i].canon, &m[j].canon) {
                        law!(ctx, o.cc == a.cmp(b), concat!($tag, ":unknown-variant-vs-typed:canonical_cmp-vs-canonical-wire"), "{} canonical_cmp {:?} canonical forms compare {:?}", detail(), o.cc, a.cmp(b));
                    }
                }};
            }
            against!("all", &ua, fa[j]);
            if let Some(z) = fz[j] {
                if rr::ZONE_TYPES.contains(&rtype) {
                    against!("zone", &uz, z);
                }
            }
        }
    }
    Ok(())
}

//------------ the case -----------------------------------------------------------

pub fn run(data: &[u8], ctx: &mut Ctx) -> CaseResult {
    let mut u = Unstructured::new(data);
    let u = &mut u;
    ctx.class("rdata-case");
    // type: round robin over all modelled types + unknown
    let ti = pick(u, rr::ALL_TYPES.len() + 2);
    let rtype = if ti < rr::ALL_TYPES.len() { rr::ALL_TYPES[ti] } else { UNKNOWN_TYPES[pick(u, UNKNOWN_TYPES.len())] };
    let known = rr::schema(rtype).is_some();
    let t = tname(rtype);
    let npool = 3 + pick(u, 4);
    let pool = gn::pool(u, npool, false);
    // blob size class from the input length (not from the tier) so that a
    // replay file decodes identically in every tier
    let o = grd::Opts { plain_names: false, max_blob: if data.len() > 700 { 300 } else { 40 } };

    // members. The decisions that shape the triple are read first (from a
    // fixed-size prefix of the input) so that they still have entropy when
    // the bulk generators below exhaust a short input.
    let mut params = [[0u8; 20]; 2];
    for p in params.iter_mut() {
        for b in p.iter_mut() {
            *b = byte(u);
        }
    }
    let rd0 = gen_rdata(u, rtype, &pool, o);
    let owner0 = pool[pick(u, pool.len())].clone();
    let class0 = if rtype == rr::OPT { u16_(u) } else if chance(u, 230) { 1 } else { [3u16, 4, 254, 255, 0, 2][pick(u, 6)] };
    let mut ms: Vec<Member> = vec![Member { rtype, rd: rd0, owner: owner0, class: class0, ttl: crate::gen::message::ttl(u), rel: "base", canon: None, ikey: None }];
    for p in params.iter() {
        let mut ru = Unstructured::new(&p[..]);
        let ru = &mut ru;
        let src = ms[pick(ru, ms.len())].clone();
        let (mut mt, mut rd) = (src.rtype, src.rd.clone());
        let rel;
        let sel = byte(ru);
        if sel >= 244 {
            // a member of another type: only the total-order laws apply
            let ti = pick(ru, rr::ALL_TYPES.len());
            mt = rr::ALL_TYPES[ti];
            rd = gen_rdata(u, mt, &pool, o);
            rel = "cross-type";
        } else if !known && sel >= 160 {
            // unknown type: same data, other type code
            mt = UNKNOWN_TYPES[pick(ru, UNKNOWN_TYPES.len())];
            rel = "unknown-other-type";
        } else {
            let (r, l) = relative(ru, u, src.rtype, &src.rd, &pool, o);
            rd = r;
            rel = l;
        }
        let owner = match pick(ru, 8) {
            7 => gn::swap_case(&src.owner, ru),
            6 => pool[pick(ru, pool.len())].clone(),
            _ => src.owner.clone(),
        };
        let class = if !chance(ru, 232) { [1u16, 3, 4, 254, 255, 0][pick(ru, 6)] } else { src.class };
        let ttl = if flag(ru) { crate::gen::message::ttl(ru) } else { src.ttl };
        ms.push(Member { rtype: mt, rd, owner, class, ttl, rel, canon: None, ikey: None });
    }
    // reference forms; a member whose uncompressed RDATA is not in normal form
    // (e.g. a mutation planted a compression pointer) is dropped
    let mut keep: Vec<bool> = vec![true; ms.len()];
    for (k, m) in ms.iter_mut().enumerate() {
        if m.rd.len() > 0xFFFF {
            keep[k] = false;
            continue;
        }
        match rr::normal_rdata(m.rtype, &m.rd, 0, m.rd.len(), false) {
            Ok((n, _)) if n == m.rd => {
                m.canon = rr::canonical_rdata(m.rtype, &m.rd).ok();
                m.ikey = Some(lower_names(m.rtype, &m.rd));
            }
            _ => {
                if k == 0 {
                    return Err(harness_bug(format!("generated base RDATA of type {rtype} is not walkable by the reference: {}", hex(&m.rd))));
                }
                keep[k] = false;
            }
        }
    }

    // message: two questions, then the members as answers
    let mut w = Writer { buf: vec![0u8; 12], seen: vec![], layout: Layout::default() };
    let qn0 = pool[pick(u, pool.len())].clone();
    let qn1 = match pick(u, 4) {
        0 => gn::swap_case(&qn0, u),
        1 => pool[pick(u, pool.len())].clone(),
        _ => qn0.clone(),
    };
    let qn2 = match pick(u, 4) {
        0 => gn::swap_case(&qn1, u),
        1 => pool[pick(u, pool.len())].clone(),
        _ => qn0.clone(),
    };
    let qt0 = [1u16, 28, 255, 6, 65535][pick(u, 5)];
    let qs: Vec<(Labels, u16, u16)> = vec![
        (qn0, qt0, 1),
        (qn1, if chance(u, 200) { qt0 } else { 15 }, if chance(u, 220) { 1 } else { 3 }),
        (qn2, if chance(u, 200) { qt0 } else { 2 }, if chance(u, 220) { 1 } else { 255 }),
    ];
    let compress_q = !chance(u, 60);
    for (n, qt, qc) in &qs {
        w.name(u, n, compress_q);
        w.buf.extend_from_slice(&qt.to_be_bytes());
        w.buf.extend_from_slice(&qc.to_be_bytes());
    }
    let mut placed: Vec<usize> = vec![];
    for (k, m) in ms.iter().enumerate() {
        if !keep[k] {
            continue;
        }
        let compress_owner = !chance(u, 60);
        let compress_rd = rr::schema(m.rtype).is_some() && !chance(u, 80);
        let nonwk = chance(u, 128);
        w.name(u, &m.owner, compress_owner);
        w.buf.extend_from_slice(&m.rtype.to_be_bytes());
        w.buf.extend_from_slice(&m.class.to_be_bytes());
        w.buf.extend_from_slice(&m.ttl.to_be_bytes());
        w.rdata(u, m.rtype, &m.rd, compress_rd, nonwk);
        placed.push(k);
    }
    if w.buf.len() > 0xFFFF {
        ctx.class("message-too-long");
        return Ok(());
    }
    w.buf[4..6].copy_from_slice(&(qs.len() as u16).to_be_bytes());
    w.buf[6..8].copy_from_slice(&(placed.len() as u16).to_be_bytes());
    let bytes = w.buf;

    // the independent walker must read back exactly what was generated
    let walk = wire::walk(&bytes).ok_or_else(|| harness_bug("walker rejects header".into()))?;
    if walk.error.is_some() || walk.records.len() != placed.len() {
        return Err(harness_bug(format!("walker cannot read the generated message: {:?}", walk.error)));
    }
    let mut ok_in_msg: Vec<bool> = vec![];
    for (wr, &k) in walk.records.iter().zip(&placed) {
        let same = matches!(wire::rdata_normal(&bytes, wr), Ok((n, _)) if n == ms[k].rd) && wr.owner.as_ref().ok() == Some(&ms[k].owner);
        if !same && k == 0 {
            return Err(harness_bug(format!("walker reads other RDATA than generated for the base member (type {rtype})")));
        }
        ok_in_msg.push(same);
    }

    // library parse
    let msg = Message::from_octets(bytes.clone()).map_err(|_| harness_bug("short message".into()))?;
    let mut parsed: Vec<Option<Parsed>> = vec![];
    let section = match msg.answer() {
        Ok(s) => s,
        Err(e) => return Err(harness_bug(format!("library rejects the question section: {e}"))),
    };
    let mut it = section;
    for (idx, &k) in placed.iter().enumerate() {
        let pr = match it.next() {
            Some(Ok(pr)) => pr,
            other => {
                if k == 0 {
                    ctx.class("base-rejected");
                    return Ok(());
                }
                let _ = other;
                // a record frame the library cannot step over: stop here
                break;
            }
        };
        if !ok_in_msg[idx] {
            parsed.push(None);
            continue;
        }
        let rec = match pr.clone().into_any_record::<PA>() {
            Ok(r) => r,
            Err(_) => {
                if k == 0 {
                    ctx.class("base-rejected");
                    ctx.class(format!("base-rejected:{t}"));
                    return Ok(());
                }
                ctx.class("mutation-rejected");
                parsed.push(None);
                continue;
            }
        };
        let flat: Record<NV, FA> = rec.clone().flatten_into();
        let byt: Record<NB, BA> = Record::octets_from(flat.clone());
        let zone_ok = rr::ZONE_TYPES.contains(&ms[k].rtype) || rr::schema(ms[k].rtype).is_none();
        let zone = if zone_ok {
            match pr.clone().into_record::<PZ>() {
                Ok(Some(z)) => {
                    let zf: Record<NV, FZ> = z.clone().flatten_into();
                    Some((z, zf))
                }
                _ => None,
            }
        } else {
            None
        };
        let wr = &walk.records[idx];
        parsed.push(Some(Parsed { pr, rec, flat, byt, zone, rd_in_msg_len: wr.rd_end - wr.rd_start, owner_pointer: wr.owner_ptrs > 0 }));
    }
    // the surviving members
    let mut mem: Vec<&Member> = vec![];
    let mut ps: Vec<&Parsed> = vec![];
    for (idx, &k) in placed.iter().enumerate() {
        if let Some(Some(p)) = parsed.get(idx) {
            mem.push(&ms[k]);
            ps.push(p);
        }
    }
    if mem.is_empty() || !std::ptr::eq(mem[0], &ms[0]) {
        ctx.class("base-rejected");
        return Ok(());
    }
    ctx.class(format!("type:{t}"));
    for m in &mem {
        ctx.class(format!("rel:{}", m.rel));
        if m.rel == "two-tweak-fields" {
            // surviving (accepted by the library) field-pair members per type
            ctx.class(format!("two-tweak-fields:{}", tname(m.rtype)));
        }
    }
    for (m, p) in mem.iter().zip(&ps) {
        if p.rd_in_msg_len < m.rd.len() {
            ctx.class("rdata-compressed-name");
        }
        if p.owner_pointer {
            ctx.class("owner-pointer");
        }
    }

    //--- record data: AllRecordData
    let pd: Vec<&PA> = ps.iter().map(|p| p.rec.data()).collect();
    let fd: Vec<&FA> = ps.iter().map(|p| p.flat.data()).collect();
    let mat = data_laws(ctx, "all", &mem, &pd, &fd, true)?;
    // third representation (Bytes): same hash, equal to the others
    for (i, p) in ps.iter().enumerate() {
        let b = p.byt.data();
        law!(ctx, h2(b) == h2(fd[i]), format!("all:hash-depends-on-representation:{}", tname(mem[i].rtype)), "bytes vs vec, rdata {}", hex(&mem[i].rd));
        for j in 0..ps.len() {
            let o = obs!(b, pd[j]);
            let t2 = if mem[i].rtype == mem[j].rtype { tname(mem[i].rtype) } else { "cross-type".into() };
            law!(ctx, o == mat[i][j].0, format!("all:depends-on-representation:{t2}"), "bytes/parsed gives {o:?}, flat/flat {:?}; a={} b={}", mat[i][j].0, hex(&mem[i].rd), hex(&mem[j].rd));
        }
    }
    //--- ZoneRecordData
    if ps.iter().all(|p| p.zone.is_some()) {
        let pz: Vec<&PZ> = ps.iter().map(|p| p.zone.as_ref().unwrap().0.data()).collect();
        let fz: Vec<&FZ> = ps.iter().map(|p| p.zone.as_ref().unwrap().1.data()).collect();
        data_laws(ctx, "zone", &mem, &pz, &fz, true)?;
        ctx.class("zone-enum");
    }
    //--- the Unknown variant carrying a known type (what the RFC 3597 `\#`
    // notation scans to) against the typed variant of the same type
    if known {
        unknown_variant_laws(ctx, rtype, &mem, &fd, ps.iter().map(|p| p.zone.as_ref().map(|z| z.1.data())).collect())?;
    }
    //--- typed structs
    typed_dispatch(ctx, rtype, &ps, &mem)?;
    if !known {
        // UnknownRecordData directly (no Hash): laws only, and the order of
        // the raw data for two values of the same type
        let vals: Vec<Option<UnknownRecordData<&[u8]>>> = ps.iter().map(|p| p.pr.clone().into_record::<UnknownRecordData<&[u8]>>().ok().flatten().map(|r| r.into_data())).collect();
        for i in 0..vals.len() {
            for j in 0..vals.len() {
                let (Some(a), Some(b)) = (&vals[i], &vals[j]) else { continue };
                if rr::schema(mem[i].rtype).is_some() || rr::schema(mem[j].rtype).is_some() {
                    continue;
                }
                let o = obs!(a, b);
                let cmp = a.cmp(b);
                let back = obs!(b, a);
                law!(ctx, o.eq == back.eq && cmp == rev(b.cmp(a)) && o.cc == rev(back.cc), "unknown:not-symmetric", "a={} b={}", hex(&mem[i].rd), hex(&mem[j].rd));
                law!(ctx, (cmp == Ordering::Equal) == o.eq && o.pc == Some(cmp) && o.ne != o.eq, "unknown:cmp-equal-vs-eq", "a={} b={}", hex(&mem[i].rd), hex(&mem[j].rd));
                if mem[i].rtype == mem[j].rtype {
                    law!(ctx, o.cc == mem[i].rd.cmp(&mem[j].rd), "unknown:canonical_cmp-vs-canonical-wire", "a={} b={}", hex(&mem[i].rd), hex(&mem[j].rd));
                }
                if mem[i].rtype != mem[j].rtype && mem[i].rd == mem[j].rd {
                    ctx.class("unknown:type-differs-same-data");
                }
            }
        }
    }

    //--- records
    record_laws(ctx, &mem, &ps, &mat)?;
    //--- record headers and parsed records
    header_laws(ctx, &mem, &ps)?;
    //--- questions
    question_laws(ctx, &msg, &qs)?;

    // evidence: pair classes and non-triviality
    let mut nontrivial = false;
    let mut ref_checked = false;
    for i in 0..mem.len() {
        for j in 0..mem.len() {
            if i == j || mem[i].rtype != mem[j].rtype {
                continue;
            }
            let (a, b) = (&mem[i].rd, &mem[j].rd);
            let identical = a == b && ps[i].rd_in_msg_len == ps[j].rd_in_msg_len;
            if mem[i].canon.is_some() && mem[j].canon.is_some() && a != b {
                ref_checked = true;
            }
            if identical {
                continue;
            }
            let eq = mat[i][j].0.eq;
            if eq {
                ctx.class("pair:equal-not-identical");
                nontrivial = true;
                if mem[i].canon != mem[j].canon {
                    ctx.class("pair:canonical-differs-eq-equal");
                }
            }
            if let Some(p) = (0..a.len().min(b.len())).find(|&p| a[p] != b[p]) {
                let in_name = rr::name_spans(mem[i].rtype, a).iter().any(|(off, len, _, _)| p >= *off && p < off + len);
                if in_name {
                    ctx.class("pair:differs-in-embedded-name");
                    nontrivial = true;
                }
                if near_letter(a[p]) || near_letter(b[p]) {
                    ctx.class("pair:differs-near-letter");
                    nontrivial = true;
                }
            } else if a.len() != b.len() {
                ctx.class("pair:prefix");
                nontrivial = true;
            }
        }
    }
    if ref_checked {
        ctx.class(format!("ref-order-checked:{t}"));
    }
    if nontrivial {
        let key: Vec<(u16, &Vec<u8>, &Labels, u16, u32, usize)> = mem.iter().zip(&ps).map(|(m, p)| (m.rtype, &m.rd, &m.owner, m.class, m.ttl, p.rd_in_msg_len)).collect();
        ctx.nontrivial(&key);
        ctx.sample(|| {
            let mut s = format!("{t}:");
            for m in &mem {
                s.push_str(&format!(" [{} owner={} class={} ttl={} rdata={}]", m.rel, gn::show(&m.owner), m.class, m.ttl, hex(&m.rd[..m.rd.len().min(40)])));
            }
            s
        });
    }
    Ok(())
}

//------------ records ---------------------------------------------------------------

fn record_canon(m: &Member) -> Option<Vec<u8>> {
    let c = m.canon.as_ref()?;
    let mut v = gn::to_wire(&gn::lower(&m.owner));
    v.extend_from_slice(&m.rtype.to_be_bytes());
    v.extend_from_slice(&m.class.to_be_bytes());
    v.extend_from_slice(&m.ttl.to_be_bytes());
    v.extend_from_slice(&(c.len() as u16).to_be_bytes());
    v.extend_from_slice(c);
    Some(v)
}

fn record_laws(ctx: &mut Ctx, m: &[&Member], ps: &[&Parsed], dmat: &[Vec<(Obs, Ordering)>]) -> CaseResult {
    let n = m.len();
    let mut mat: Vec<Vec<(Obs, Ordering)>> = vec![];
    for i in 0..n {
        let (p, f) = (&ps[i].rec, &ps[i].flat);
        let detail1 = || format!("owner={} class={} ttl={} type={} rdata={}", gn::show(&m[i].owner), m[i].class, m[i].ttl, m[i].rtype, hex(&m[i].rd));
        law!(ctx, h2(p) == h2(f) && h2(f) == h2(&ps[i].byt), "record:hash-depends-on-representation", "{}", detail1());
        if let Some(c) = record_canon(m[i]) {
            for (what, got) in [("parsed", { let mut v = vec![]; p.compose_canonical(&mut v).unwrap(); v }), ("flat", { let mut v = vec![]; f.compose_canonical(&mut v).unwrap(); v })] {
                law!(ctx, got == c, "record:compose_canonical-vs-reference", "{what} {} library {} reference {}", detail1(), hex(&got), hex(&c));
            }
        }
        let mut row = vec![];
        for j in 0..n {
            let (q, g) = (&ps[j].rec, &ps[j].flat);
            let detail = || format!("a=[{}] b=[owner={} class={} ttl={} type={} rdata={}]", detail1(), gn::show(&m[j].owner), m[j].class, m[j].ttl, m[j].rtype, hex(&m[j].rd));
            let o = obs!(f, g);
            for (what, oc) in [("parsed/parsed", obs!(p, q)), ("parsed/flat", obs!(p, g)), ("flat/parsed", obs!(f, q)), ("bytes/parsed", obs!(&ps[i].byt, q))] {
                law!(ctx, oc == o, "record:depends-on-representation", "{} {what} gives {oc:?}, flat/flat gives {o:?}", detail());
            }
            let cmp = f.cmp(g);
            law!(ctx, o.pc == Some(cmp) && p.cmp(q) == cmp, "record:partial_cmp-vs-cmp", "{}", detail());
            law!(ctx, o.ne != o.eq, "record:ne-vs-eq", "{}", detail());
            if i == j {
                law!(ctx, o.eq && cmp == Ordering::Equal && o.cc == Ordering::Equal, "record:not-reflexive", "{} {o:?}", detail());
            }
            law!(ctx, (cmp == Ordering::Equal) == o.eq, "record:cmp-equal-vs-eq", "{} == gives {}, cmp gives {cmp:?}", detail(), o.eq);
            if o.eq {
                let why = if m[i].ttl != m[j].ttl { "ttl-differs" } else { "same-ttl" };
                law!(ctx, h2(f) == h2(g) && h2(p) == h2(q), format!("record:equal-but-hash-differs:{why}"), "{}", detail());
                if m[i].ttl != m[j].ttl {
                    ctx.class("record:ttl-differs-equal");
                }
            }
            // independence of case and representation: same owner up to
            // case, same class, data equal => records equal
            let same_owner = ref_name_cmp(&m[i].owner, &m[j].owner) == Ordering::Equal;
            if same_owner && m[i].class == m[j].class && dmat[i][j].0.eq {
                law!(ctx, o.eq, "record:equal-parts-but-records-differ", "{}", detail());
            }
            if !same_owner {
                ctx.class("record:owner-differs");
            }
            if m[i].class != m[j].class {
                ctx.class("record:class-differs");
            }
            // §6.3: members of one RRset order by canonical RDATA
            if same_owner && m[i].class == m[j].class && m[i].rtype == m[j].rtype {
                if let (Some(a), Some(b)) = (&m[i].canon, &m[j].canon) {
                    law!(ctx, o.cc == a.cmp(b), "record:canonical_cmp-vs-rfc4034-6.3", "{} canonical_cmp {:?} canonical RDATA order {:?}", detail(), o.cc, a.cmp(b));
                    if i != j && a != b {
                        ctx.class("record:same-rrset");
                    }
                }
            }
            row.push((o, cmp));
        }
        mat.push(row);
    }
    for i in 0..n {
        for j in 0..n {
            let detail = || format!("a=[{} {} {}] b=[{} {} {}]", gn::show(&m[i].owner), m[i].class, hex(&m[i].rd), gn::show(&m[j].owner), m[j].class, hex(&m[j].rd));
            law!(ctx, mat[i][j].0.eq == mat[j][i].0.eq, "record:eq-not-symmetric", "{}", detail());
            law!(ctx, mat[i][j].1 == rev(mat[j][i].1), "record:cmp-not-antisymmetric", "{}", detail());
            law!(ctx, mat[i][j].0.cc == rev(mat[j][i].0.cc), "record:canonical_cmp-not-antisymmetric", "{}", detail());
            for k in 0..n {
                law!(ctx, transitive(mat[i][j].1, mat[j][k].1, mat[i][k].1), "record:cmp-not-transitive", "{} c=[{} {} {}]", detail(), gn::show(&m[k].owner), m[k].class, hex(&m[k].rd));
                law!(ctx, transitive(mat[i][j].0.cc, mat[j][k].0.cc, mat[i][k].0.cc), "record:canonical_cmp-not-transitive", "{} c=[{} {} {}]", detail(), gn::show(&m[k].owner), m[k].class, hex(&m[k].rd));
                if mat[i][j].0.eq && mat[j][k].0.eq {
                    law!(ctx, mat[i][k].0.eq, "record:eq-not-transitive", "{}", detail());
                }
            }
        }
    }
    Ok(())
}

//------------ record headers, parsed records -------------------------------------------

fn header_laws(ctx: &mut Ctx, m: &[&Member], ps: &[&Parsed]) -> CaseResult {
    let n = m.len();
    let hp: Vec<RecordHeader<PN>> = (0..n)
        .map(|i| RecordHeader::new(ps[i].rec.owner().clone(), Rtype::from_int(m[i].rtype), Class::from_int(m[i].class), Ttl::from_secs(m[i].ttl), ps[i].rd_in_msg_len as u16))
        .collect();
    let hf: Vec<RecordHeader<NV>> = (0..n)
        .map(|i| RecordHeader::new(ps[i].flat.owner().clone(), Rtype::from_int(m[i].rtype), Class::from_int(m[i].class), Ttl::from_secs(m[i].ttl), ps[i].rd_in_msg_len as u16))
        .collect();
    let mut ords = vec![vec![Ordering::Equal; n]; n];
    for i in 0..n {
        law!(ctx, h2(&hp[i]) == h2(&hf[i]), "header:hash-depends-on-representation", "owner {}", gn::show(&m[i].owner));
        for j in 0..n {
            let detail = || format!("a=[{} {} {} {} {}] b=[{} {} {} {} {}]", gn::show(&m[i].owner), m[i].rtype, m[i].class, m[i].ttl, ps[i].rd_in_msg_len, gn::show(&m[j].owner), m[j].rtype, m[j].class, m[j].ttl, ps[j].rd_in_msg_len);
            let eq = hf[i] == hf[j];
            let cmp = hf[i].cmp(&hf[j]);
            ords[i][j] = cmp;
            let all = [
                (hp[i] == hp[j], hp[i].partial_cmp(&hp[j])),
                (hp[i] == hf[j], hp[i].partial_cmp(&hf[j])),
                (hf[i] == hp[j], hf[i].partial_cmp(&hp[j])),
                (eq, hf[i].partial_cmp(&hf[j])),
            ];
            for a in all {
                law!(ctx, a == (eq, Some(cmp)), "header:depends-on-representation", "{} {a:?} vs {:?}", detail(), (eq, cmp));
            }
            law!(ctx, hp[i].cmp(&hp[j]) == cmp, "header:depends-on-representation", "{} Ord", detail());
            law!(ctx, (cmp == Ordering::Equal) == eq, "header:cmp-equal-vs-eq", "{}", detail());
            law!(ctx, (hf[j] == hf[i]) == eq && hf[j].cmp(&hf[i]) == rev(cmp), "header:not-symmetric", "{}", detail());
            if i == j {
                law!(ctx, eq, "header:eq-not-reflexive", "{}", detail());
            }
            if eq {
                law!(ctx, h2(&hf[i]) == h2(&hf[j]) && h2(&hp[i]) == h2(&hp[j]), "header:equal-but-hash-differs", "{}", detail());
            }
            // same fields, owner equal up to case => equal
            let same = ref_name_cmp(&m[i].owner, &m[j].owner) == Ordering::Equal && (m[i].rtype, m[i].class, m[i].ttl, ps[i].rd_in_msg_len) == (m[j].rtype, m[j].class, m[j].ttl, ps[j].rd_in_msg_len);
            if same {
                law!(ctx, eq, "header:same-fields-not-equal", "{}", detail());
            }
            // ParsedRecord: Eq only
            let pe = ps[i].pr == ps[j].pr;
            law!(ctx, pe == (ps[j].pr == ps[i].pr), "parsedrecord:eq-not-symmetric", "{}", detail());
            if i == j {
                law!(ctx, pe, "parsedrecord:eq-not-reflexive", "{}", detail());
            }
        }
    }
    for i in 0..n {
        for j in 0..n {
            for k in 0..n {
                law!(ctx, transitive(ords[i][j], ords[j][k], ords[i][k]), "header:cmp-not-transitive", "{} {} {}", gn::show(&m[i].owner), gn::show(&m[j].owner), gn::show(&m[k].owner));
            }
        }
    }
    Ok(())
}

//------------ questions -----------------------------------------------------------------

fn question_laws(ctx: &mut Ctx, msg: &Message<Vec<u8>>, qs: &[(Labels, u16, u16)]) -> CaseResult {
    let mut qp: Vec<Question<ParsedName<&[u8]>>> = vec![];
    for q in msg.question() {
        match q {
            Ok(q) => qp.push(q),
            Err(e) => return Err(harness_bug(format!("question does not parse: {e}"))),
        }
    }
    if qp.len() != qs.len() {
        return Err(harness_bug("question count".into()));
    }
    let qf: Vec<Question<NV>> = qs.iter().map(|(n, t, c)| Question::new(gn::to_name(n), Rtype::from_int(*t), Class::from_int(*c))).collect();
    let n = qs.len();
    let mut mat = vec![vec![(Ordering::Equal, Ordering::Equal); n]; n];
    for i in 0..n {
        law!(ctx, h2(&qp[i]) == h2(&qf[i]), "question:hash-depends-on-representation", "{}", gn::show(&qs[i].0));
        for j in 0..n {
            let detail = || format!("a=[{} {} {}] b=[{} {} {}]", gn::show(&qs[i].0), qs[i].1, qs[i].2, gn::show(&qs[j].0), qs[j].1, qs[j].2);
            let o = obs!(&qf[i], &qf[j]);
            for (what, oc) in [("parsed/parsed", obs!(&qp[i], &qp[j])), ("parsed/flat", obs!(&qp[i], &qf[j])), ("flat/parsed", obs!(&qf[i], &qp[j]))] {
                law!(ctx, oc == o, "question:depends-on-representation", "{} {what} {oc:?} vs {o:?}", detail());
            }
            let cmp = qf[i].cmp(&qf[j]);
            mat[i][j] = (cmp, o.cc);
            law!(ctx, o.pc == Some(cmp) && qp[i].cmp(&qp[j]) == cmp, "question:partial_cmp-vs-cmp", "{}", detail());
            law!(ctx, (cmp == Ordering::Equal) == o.eq && o.ne != o.eq, "question:cmp-equal-vs-eq", "{}", detail());
            let same = ref_name_cmp(&qs[i].0, &qs[j].0) == Ordering::Equal && qs[i].1 == qs[j].1 && qs[i].2 == qs[j].2;
            if same {
                law!(ctx, o.eq, "question:same-fields-not-equal", "{}", detail());
            }
            if o.eq {
                law!(ctx, h2(&qf[i]) == h2(&qf[j]) && h2(&qp[i]) == h2(&qp[j]), "question:equal-but-hash-differs", "{}", detail());
            }
            let back = obs!(&qf[j], &qf[i]);
            law!(ctx, back.eq == o.eq && qf[j].cmp(&qf[i]) == rev(cmp) && back.cc == rev(o.cc), "question:not-symmetric", "{}", detail());
        }
    }
    for i in 0..n {
        for j in 0..n {
            for k in 0..n {
                law!(ctx, transitive(mat[i][j].0, mat[j][k].0, mat[i][k].0) && transitive(mat[i][j].1, mat[j][k].1, mat[i][k].1), "question:cmp-not-transitive", "{} {} {}", gn::show(&qs[i].0), gn::show(&qs[j].0), gn::show(&qs[k].0));
            }
        }
    }
    Ok(())
}
