//! Labels and character strings.
use super::*;
use crate::gen::name as gn;
use crate::gen::*;
use arbitrary::Unstructured;
use bytes::Bytes;
use domain::base::charstr::CharStr;
use domain::base::cmp::CanonicalOrd;
use domain::base::name::{Label, OwnedLabel};

pub(crate) const NEAR: &[u8] = b"@AZ[`az{\x00\xff\x40\x5b\x60\x7b\x41\x5a\x61\x7a";

pub(crate) fn tweak_byte(u: &mut Unstructured, old: u8) -> u8 {
    match pick(u, 6) {
        0 => old ^ 0x20,
        1 => old.wrapping_add(1),
        2 => old.wrapping_sub(1),
        3 | 4 => NEAR[pick(u, NEAR.len())],
        _ => byte(u),
    }
}

pub(crate) fn near_letter(b: u8) -> bool {
    matches!(b, 0x40 | 0x41 | 0x5a | 0x5b | 0x60 | 0x61 | 0x7a | 0x7b)
}

/// A relative of `src` (an octet string of at most `max` octets, at least
/// `min`): (variant, relation label).
fn relative(u: &mut Unstructured, src: &[u8], min: usize, max: usize, gen_byte: &mut dyn FnMut(&mut Unstructured) -> u8) -> (Vec<u8>, &'static str) {
    match pick(u, 8) {
        0 => (src.to_vec(), "identical"),
        1 => (src.iter().map(|&b| if b.is_ascii_alphabetic() && flag(u) { b ^ 0x20 } else { b }).collect(), "case"),
        2 => (src.iter().map(|&b| if b.is_ascii_alphabetic() { b ^ 0x20 } else { b }).collect(), "case"),
        3 | 4 => {
            let mut v = src.to_vec();
            if v.is_empty() {
                return (v, "identical");
            }
            let i = pick(u, v.len());
            v[i] = tweak_byte(u, v[i]);
            (v, "tweak")
        }
        5 => {
            // prefix
            let n = range(u, min, src.len().max(min));
            (src[..n.min(src.len())].to_vec(), "prefix")
        }
        6 => {
            // extension
            let mut v = src.to_vec();
            let room = max - v.len();
            for _ in 0..pick(u, room.min(3) + 1) {
                v.push(NEAR[pick(u, NEAR.len())]);
            }
            (v, "prefix")
        }
        _ => {
            let n = range(u, min, max.min(12));
            ((0..n).map(|_| gen_byte(u)).collect(), "fresh")
        }
    }
}

fn labels(u: &mut Unstructured, ctx: &mut Ctx) -> CaseResult {
    let l0 = gn::label(u, 63, false);
    let mut gb = |u: &mut Unstructured| gn::label_byte(u, false);
    let (l1, r1) = relative(u, &l0, 1, 63, &mut gb);
    let src2 = if flag(u) { l0.clone() } else { l1.clone() };
    let (l2, r2) = relative(u, &src2, 1, 63, &mut gb);
    let raw = [l0, l1, l2];
    let ls: Vec<&Label> = raw.iter().map(|l| Label::from_slice(l).expect("label <= 63 octets")).collect();
    let owned: Vec<OwnedLabel> = ls.iter().map(|l| OwnedLabel::from_label(l)).collect();
    let mut nontrivial = false;
    for i in 0..3 {
        for j in 0..3 {
            let (a, b) = (ls[i], ls[j]);
            let want = ref_label_cmp(&raw[i], &raw[j]);
            let detail = || format!("a={} b={}", hex(&raw[i]), hex(&raw[j]));
            law!(ctx, a.cmp(b) == want, "label:cmp-vs-rfc4034-6.1", "{} cmp={:?} want {want:?}", detail(), a.cmp(b));
            law!(ctx, a.partial_cmp(b) == Some(want), "label:partial_cmp-vs-cmp", "{}", detail());
            law!(ctx, (a == b) == (want == Ordering::Equal), "label:eq-vs-cmp", "{} eq={} ref={want:?}", detail(), a == b);
            law!(ctx, (*a == raw[j][..]) == (want == Ordering::Equal), "label:eq-slice", "{}", detail());
            if want == Ordering::Equal {
                law!(ctx, h2(a) == h2(b), "label:equal-but-hash-differs", "{}", detail());
            }
            // wire-form orders
            let wa: Vec<u8> = std::iter::once(raw[i].len() as u8).chain(raw[i].iter().copied()).collect();
            let wb: Vec<u8> = std::iter::once(raw[j].len() as u8).chain(raw[j].iter().copied()).collect();
            law!(ctx, a.composed_cmp(b) == wa.cmp(&wb), "label:composed_cmp-vs-wire", "{}", detail());
            law!(ctx, a.lowercase_composed_cmp(b) == wa.to_ascii_lowercase().cmp(&wb.to_ascii_lowercase()), "label:lowercase_composed_cmp-vs-wire", "{}", detail());
            // OwnedLabel mirrors Label
            let (oa, ob) = (&owned[i], &owned[j]);
            law!(ctx, (oa == ob) == (a == b), "ownedlabel:eq-differs-from-label", "{}", detail());
            law!(ctx, oa.cmp(ob) == want, "ownedlabel:cmp-differs-from-label", "{}", detail());
            law!(ctx, oa.partial_cmp(ob) == Some(want), "ownedlabel:partial_cmp", "{}", detail());
            // OwnedLabel: Borrow<Label>, so it must hash exactly like the
            // Label it holds, for every hasher (h2 includes two hashers
            // that see how the input is chopped into Hasher calls)
            law!(ctx, h2(oa) == h2(a), "ownedlabel:hash-differs-from-label", "{} ({})", detail(), hdiff(h2(oa), h2(a)));
            if want == Ordering::Equal {
                law!(ctx, h2(oa) == h2(ob) && h2(oa) == h2(b), "ownedlabel:equal-but-hash-differs", "{} ({})", detail(), hdiff(h2(oa), h2(b)));
            }
            if raw[i] != raw[j] {
                if want == Ordering::Equal {
                    ctx.class("label:case-pair");
                    nontrivial = true;
                }
                if raw[i].starts_with(&raw[j]) || raw[j].starts_with(&raw[i]) {
                    ctx.class("label:prefix");
                    nontrivial = true;
                }
                if raw[i].len() == raw[j].len() {
                    if let Some(p) = (0..raw[i].len()).find(|&p| raw[i][p] != raw[j][p]) {
                        if near_letter(raw[i][p]) || near_letter(raw[j][p]) {
                            ctx.class("label:near-letter");
                            nontrivial = true;
                        }
                    }
                }
            }
        }
        // the Borrow entry point: maps keyed by OwnedLabel (the zone tree's
        // children maps) are queried with the &Label of a query name
        {
            use std::collections::{BTreeMap as BM, HashMap};
            use std::hash::BuildHasherDefault;
            let want = (0..3).find(|&k| ref_label_cmp(&raw[k], &raw[i]) == Ordering::Equal);
            let mut m1: HashMap<OwnedLabel, usize, BuildHasherDefault<DefaultHasher>> = HashMap::default();
            let mut m2: HashMap<OwnedLabel, usize, ChunkBuild> = HashMap::default();
            let mut m3: HashMap<OwnedLabel, usize, BuildHasherDefault<WordHasher>> = HashMap::default();
            let mut m4: BM<OwnedLabel, usize> = BM::new();
            for (k, o) in owned.iter().enumerate() {
                m1.entry(*o).or_insert(k);
                m2.entry(*o).or_insert(k);
                m3.entry(*o).or_insert(k);
                m4.entry(*o).or_insert(k);
            }
            let got = [m1.get(ls[i]).copied(), m2.get(ls[i]).copied(), m3.get(ls[i]).copied(), m4.get(ls[i]).copied()];
            law!(ctx, got.iter().all(|g| *g == want), "ownedlabel:map-lookup-by-label", "keys {} | {} | {} queried with label {}: [siphash, call-sequence, word-at-a-time, btree] found {got:?} want {want:?}", hex(&raw[0]), hex(&raw[1]), hex(&raw[2]), hex(&raw[i]));
            ctx.class("label:borrow-lookup");
        }
        let mut canon = vec![];
        ls[i].compose_canonical(&mut canon).unwrap();
        let want: Vec<u8> = std::iter::once(raw[i].len() as u8).chain(raw[i].iter().map(|b| b.to_ascii_lowercase())).collect();
        law!(ctx, canon == want, "label:compose_canonical", "{}", hex(&raw[i]));
    }
    ctx.class(format!("label-rel:{r1}"));
    ctx.class(format!("label-rel:{r2}"));
    if nontrivial {
        ctx.nontrivial(&("label", &raw));
        ctx.sample(|| format!("labels {} | {} | {}", hex(&raw[0]), hex(&raw[1]), hex(&raw[2])));
    }
    Ok(())
}

fn charstrs(u: &mut Unstructured, ctx: &mut Ctx) -> CaseResult {
    let c0 = crate::gen::rdata::charstr(u)[1..].to_vec();
    let mut gb = |u: &mut Unstructured| match pick(u, 3) {
        0 => NEAR[pick(u, NEAR.len())],
        1 => pickb(u, b"abcxyzABCXYZ019 "),
        _ => byte(u),
    };
    let (c1, r1) = relative(u, &c0, 0, 255, &mut gb);
    let src2 = if flag(u) { c0.clone() } else { c1.clone() };
    let (c2, r2) = relative(u, &src2, 0, 255, &mut gb);
    let raw = [c0, c1, c2];
    let v: Vec<CharStr<Vec<u8>>> = raw.iter().map(|c| CharStr::from_octets(c.clone()).expect("<= 255 octets")).collect();
    let b: Vec<CharStr<Bytes>> = raw.iter().map(|c| CharStr::from_octets(Bytes::from(c.clone())).expect("<= 255 octets")).collect();
    let s: Vec<&CharStr<[u8]>> = raw.iter().map(|c| CharStr::from_slice(c).expect("<= 255 octets")).collect();
    let mut nontrivial = false;
    let mut ords = [[Ordering::Equal; 3]; 3];
    for i in 0..3 {
        if raw[i].len() == 255 {
            ctx.class("charstr:len255");
        }
        for j in 0..3 {
            let detail = || format!("a={} b={}", hex(&raw[i]), hex(&raw[j]));
            let (x, y) = (&v[i], &v[j]);
            let eq = x == y;
            let cmp = x.cmp(y);
            ords[i][j] = cmp;
            law!(ctx, (y == x) == eq, "charstr:eq-not-symmetric", "{}", detail());
            law!(ctx, y.cmp(x) == rev(cmp), "charstr:cmp-not-antisymmetric", "{}", detail());
            law!(ctx, (cmp == Ordering::Equal) == eq, "charstr:cmp-equal-vs-eq", "{} eq={eq} cmp={cmp:?}", detail());
            law!(ctx, x.partial_cmp(y) == Some(cmp), "charstr:partial_cmp-vs-cmp", "{}", detail());
            if eq {
                law!(ctx, h2(x) == h2(y), "charstr:equal-but-hash-differs", "{}", detail());
            }
            if i == j {
                law!(ctx, eq, "charstr:eq-not-reflexive", "{}", detail());
            }
            // independence of ASCII case: case variants are equal
            if raw[i].eq_ignore_ascii_case(&raw[j]) {
                law!(ctx, eq, "charstr:case-variant-not-equal", "{}", detail());
            }
            // independence of representation
            let reps = [
                (b[i] == b[j], b[i].cmp(&b[j]), b[i].canonical_cmp(&b[j])),
                (*s[i] == *s[j], s[i].cmp(s[j]), s[i].canonical_cmp(s[j])),
                (v[i] == b[j], v[i].partial_cmp(&b[j]).unwrap_or(Ordering::Less), v[i].canonical_cmp(&b[j])),
                (b[i] == *s[j], b[i].partial_cmp(s[j]).unwrap_or(Ordering::Less), b[i].canonical_cmp(s[j])),
                (v[i] == raw[j], v[i].partial_cmp(&raw[j]).unwrap_or(Ordering::Less), x.canonical_cmp(y)),
            ];
            for (k, r) in reps.iter().enumerate() {
                law!(ctx, *r == (eq, cmp, x.canonical_cmp(y)), "charstr:depends-on-representation", "{} combination {k}: {r:?} vs Vec/Vec {:?}", detail(), (eq, cmp, x.canonical_cmp(y)));
            }
            law!(ctx, h2(&v[i]) == h2(&b[i]) && h2(&v[i]) == h2(s[i]), "charstr:hash-depends-on-representation", "{}", detail());
            // canonical order = order of the wire forms (length octet + octets)
            let wa: Vec<u8> = std::iter::once(raw[i].len() as u8).chain(raw[i].iter().copied()).collect();
            let wb: Vec<u8> = std::iter::once(raw[j].len() as u8).chain(raw[j].iter().copied()).collect();
            law!(ctx, x.canonical_cmp(y) == wa.cmp(&wb), "charstr:canonical_cmp-vs-wire", "{} got {:?} want {:?}", detail(), x.canonical_cmp(y), wa.cmp(&wb));
            if raw[i] != raw[j] {
                if eq {
                    ctx.class("charstr:case-pair");
                    nontrivial = true;
                }
                if raw[i].starts_with(&raw[j]) || raw[j].starts_with(&raw[i]) {
                    ctx.class("charstr:prefix");
                    nontrivial = true;
                }
                if let Some(p) = (0..raw[i].len().min(raw[j].len())).find(|&p| raw[i][p] != raw[j][p]) {
                    if near_letter(raw[i][p]) || near_letter(raw[j][p]) {
                        ctx.class("charstr:near-letter");
                        nontrivial = true;
                    }
                }
            }
        }
    }
    for (a, b, c) in [(0, 1, 2), (1, 0, 2), (0, 2, 1), (2, 0, 1), (1, 2, 0), (2, 1, 0)] {
        law!(ctx, transitive(ords[a][b], ords[b][c], ords[a][c]), "charstr:cmp-not-transitive", "{} {} {}", hex(&raw[a]), hex(&raw[b]), hex(&raw[c]));
        if v[a] == v[b] && v[b] == v[c] {
            law!(ctx, v[a] == v[c], "charstr:eq-not-transitive", "{} {} {}", hex(&raw[a]), hex(&raw[b]), hex(&raw[c]));
        }
    }
    ctx.class(format!("charstr-rel:{r1}"));
    ctx.class(format!("charstr-rel:{r2}"));
    if nontrivial {
        ctx.nontrivial(&("charstr", &raw));
        ctx.sample(|| format!("charstrs {} | {} | {}", hex(&raw[0]), hex(&raw[1]), hex(&raw[2])));
    }
    Ok(())
}

pub fn run(data: &[u8], ctx: &mut Ctx) -> CaseResult {
    let mut u = Unstructured::new(data);
    if flag(&mut u) {
        ctx.class("atoms:label");
        labels(&mut u, ctx)
    } else {
        ctx.class("atoms:charstr");
        charstrs(&mut u, ctx)
    }
}
