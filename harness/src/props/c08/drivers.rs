//! Bridge between the model and the library: conversions, the construction
//! paths (ZoneBuilder, zone file, write interface, ZoneUpdater) and the
//! observation of an answer through `Answer::to_message` (parsed back with
//! the independent wire walker). Reusable by C09/C10.
use super::model::*;
use super::plan::*;
use super::resolver::{Observed, WRec};
use crate::refimpl::wire;
use bytes::Bytes;
use domain::base::iana::{Class, DigestAlgorithm, Rtype, SecurityAlgorithm};
use domain::base::name::Label;
use domain::base::{Message, MessageBuilder, Name, Record, Serial, Ttl};
use domain::rdata::{Aaaa, Cname, Ds, Mx, Ns, Soa, Txt, ZoneRecordData, A};
use domain::zonefile::inplace;
use domain::zonetree::types::{StoredRecordData, ZoneCut, ZoneUpdate};
use domain::zonetree::update::ZoneUpdater;
use domain::zonetree::{parsed, ReadableZone, Rrset, SharedRr, SharedRrset, StoredName, StoredRecord, WritableZoneNode, Zone, ZoneBuilder};
use std::future::Future;
use std::net::{Ipv4Addr, Ipv6Addr};
use std::task::{Context, Poll};

//------------ conversions ---------------------------------------------------------

pub fn lname(n: &Nm) -> StoredName {
    Name::from_octets(Bytes::from(name_wire(n))).expect("model names are valid")
}

pub fn ldata(d: &RData) -> StoredRecordData {
    match d {
        RData::A(a) => ZoneRecordData::A(A::new(Ipv4Addr::from(*a))),
        RData::Aaaa(a) => ZoneRecordData::Aaaa(Aaaa::new(Ipv6Addr::from(*a))),
        RData::Ns(n) => ZoneRecordData::Ns(Ns::new(lname(n))),
        RData::Cname(n) => ZoneRecordData::Cname(Cname::new(lname(n))),
        RData::Soa { mname, rname, serial, refresh, retry, expire, minimum } => ZoneRecordData::Soa(Soa::new(
            lname(mname),
            lname(rname),
            Serial(*serial),
            Ttl::from_secs(*refresh),
            Ttl::from_secs(*retry),
            Ttl::from_secs(*expire),
            Ttl::from_secs(*minimum),
        )),
        RData::Mx(p, n) => ZoneRecordData::Mx(Mx::new(*p, lname(n))),
        RData::Txt(_) => ZoneRecordData::Txt(Txt::from_octets(Bytes::from(d.wire())).expect("valid TXT")),
        RData::Ds { key_tag, alg, digest_type, digest } => {
            ZoneRecordData::Ds(Ds::new(*key_tag, SecurityAlgorithm::from_int(*alg), DigestAlgorithm::from_int(*digest_type), Bytes::from(digest.clone())).expect("short DS"))
        }
    }
}

pub fn lrrset(t: u16, r: &RRset) -> SharedRrset {
    let mut s = Rrset::new(Rtype::from_int(t), Ttl::from_secs(r.ttl));
    for d in &r.data {
        s.push_data(ldata(d));
    }
    s.into_shared()
}

pub fn lrecord(r: &Rec) -> StoredRecord {
    Record::new(lname(&r.owner), Class::IN, Ttl::from_secs(r.ttl), ldata(&r.data))
}

pub fn lcut(s: &Spec, name: &Nm) -> Option<ZoneCut> {
    match s {
        Spec::Cut { ns, ds, glue, .. } => Some(ZoneCut { name: lname(name), ns: lrrset(NS, ns), ds: ds.as_ref().map(|d| lrrset(DS, d)), glue: glue.iter().map(lrecord).collect() }),
        _ => None,
    }
}

pub fn lcname(s: &Spec) -> Option<SharedRr> {
    match s {
        Spec::Cname { ttl, target, .. } => Some(SharedRr::new(Ttl::from_secs(*ttl), ldata(target))),
        _ => None,
    }
}

//------------ immediate futures -----------------------------------------------------

/// Polls a future that must complete without waiting (the in-memory zone's
/// futures are all immediately ready when no other writer holds the lock).
pub fn now<F: Future>(f: F) -> Result<F::Output, String> {
    let mut f = std::pin::pin!(f);
    let w = futures_util::task::noop_waker();
    let mut cx = Context::from_waker(&w);
    for _ in 0..4 {
        if let Poll::Ready(x) = f.as_mut().poll(&mut cx) {
            return Ok(x);
        }
    }
    Err("future stays pending (write lock still held?)".into())
}

//------------ construction paths ---------------------------------------------------

pub fn empty_zone(apex: &Nm) -> Zone {
    ZoneBuilder::new(lname(apex), Class::IN).build()
}

/// Path (a): `ZoneBuilder`, records classified the way the zone-file loader
/// does it (delegations via `insert_zone_cut` with NS, DS and the zone's
/// address records of the NS targets; CNAMEs via `insert_cname`; the rest
/// via `insert_rrset`).
pub fn build_direct(c: &Content) -> Result<Zone, String> {
    let mut b = ZoneBuilder::new(lname(&c.apex), Class::IN);
    let ak = c.apex_key();
    for (k, n) in &c.nodes {
        let name = lname(&n.name);
        if *k != ak {
            match c.special(k) {
                Some(s @ Spec::Cut { .. }) => {
                    let cut = lcut(&s, &n.name).unwrap();
                    b.insert_zone_cut(&name, cut.ns, cut.ds, cut.glue).map_err(|e| format!("insert_zone_cut({}): {e:?}", show(&n.name)))?;
                }
                Some(s @ Spec::Cname { .. }) => {
                    b.insert_cname(&name, lcname(&s).unwrap()).map_err(|e| format!("insert_cname({}): {e:?}", show(&n.name)))?;
                }
                None => {}
            }
        }
        for t in c.plain_types(k) {
            b.insert_rrset(&name, lrrset(t, &n.rrsets[&t])).map_err(|_| format!("insert_rrset({}): out of zone", show(&n.name)))?;
        }
    }
    Ok(b.build())
}

/// Path (b): zone-file text -> `inplace::Zonefile` -> `parsed::Zonefile` ->
/// `ZoneBuilder` -> `Zone`.
pub fn build_zonefile(c: &Content) -> Result<Zone, String> {
    let text = c.zonefile_text();
    let zf = inplace::Zonefile::from(text.as_str());
    let p = parsed::Zonefile::try_from(zf).map_err(|e| format!("parsed::Zonefile rejects the zone file: {e}\n{text}"))?;
    Zone::try_from(p).map_err(|e| format!("Zone::try_from(parsed) fails: {e}\n{text}"))
}

fn descend(root: &dyn WritableZoneNode, apex_len: usize, name: &Nm) -> Result<Option<Box<dyn WritableZoneNode>>, String> {
    // labels below the apex, top down
    let rel: Vec<&Vec<u8>> = name[..name.len() - apex_len].iter().rev().collect();
    let mut cur: Option<Box<dyn WritableZoneNode>> = None;
    for l in rel {
        let label = Label::from_slice(l).map_err(|e| format!("label: {e}"))?;
        let next = match &cur {
            None => now(root.update_child(label))?,
            Some(n) => now(n.update_child(label))?,
        }
        .map_err(|e| format!("update_child: {e}"))?;
        cur = Some(next);
    }
    Ok(cur)
}

fn exec_w(root: &dyn WritableZoneNode, apex_len: usize, op: &WOp) -> Result<(), String> {
    let name = match op {
        WOp::UpdateRrset(n, ..) | WOp::RemoveRrset(n, _) | WOp::MakeCut(n, _) | WOp::MakeCname(n, _) | WOp::MakeRegular(n) | WOp::RemoveAll(n) => n,
    };
    let child = descend(root, apex_len, name)?;
    let node: &dyn WritableZoneNode = match &child {
        Some(c) => c.as_ref(),
        None => root,
    };
    let r = match op {
        WOp::UpdateRrset(_, t, r) => now(node.update_rrset(lrrset(*t, r)))?,
        WOp::RemoveRrset(_, t) => now(node.remove_rrset(Rtype::from_int(*t)))?,
        WOp::MakeCut(n, s) => now(node.make_zone_cut(lcut(s, n).unwrap()))?,
        WOp::MakeCname(_, s) => now(node.make_cname(lcname(s).unwrap()))?,
        WOp::MakeRegular(_) => now(node.make_regular())?,
        WOp::RemoveAll(_) => now(node.remove_all())?,
    };
    r.map_err(|e| format!("{op:?}: {e}"))
}

fn uop(op: &UOp) -> ZoneUpdate<StoredRecord> {
    match op {
        UOp::DeleteAll => ZoneUpdate::DeleteAllRecords,
        UOp::Delete(r) => ZoneUpdate::DeleteRecord(lrecord(r)),
        UOp::Add(r) => ZoneUpdate::AddRecord(lrecord(r)),
        UOp::BeginBatchDelete(r) => ZoneUpdate::BeginBatchDelete(lrecord(r)),
        UOp::BeginBatchAdd(r) => ZoneUpdate::BeginBatchAdd(lrecord(r)),
        UOp::Finished(r) => ZoneUpdate::Finished(lrecord(r)),
    }
}

/// Executes one batch of a history against the zone (paths (c) and (d)).
pub fn exec_batch(zone: &Zone, apex_len: usize, b: &Batch) -> Result<(), String> {
    match b {
        Batch::Write { diff, bump, ops, commit } => {
            let mut w = now(zone.write())?;
            {
                let root = now(w.open(*diff))?.map_err(|e| format!("open: {e}"))?;
                for op in ops {
                    exec_w(root.as_ref(), apex_len, op)?;
                }
                // all node handles are gone before commit
            }
            if *commit {
                now(w.commit(*bump))?.map_err(|e| format!("commit: {e}"))?;
            }
            drop(w);
            Ok(())
        }
        Batch::Updater { ops } => {
            let mut up: ZoneUpdater<StoredName> = now(ZoneUpdater::new(zone.clone()))?.map_err(|e| format!("ZoneUpdater::new: {e}"))?;
            for op in ops {
                now(up.apply(uop(op)))?.map_err(|e| format!("apply({op:?}): {e}"))?;
            }
            drop(up);
            Ok(())
        }
    }
}

//------------ observation ---------------------------------------------------------

/// Queries the zone and renders the answer through `Answer::to_message`;
/// the message octets are parsed with the independent walker.
pub fn observe(read: &dyn ReadableZone, qname: &Nm, qtype: u16) -> Result<Observed, String> {
    let ans = match read.query(lname(qname), Rtype::from_int(qtype)) {
        Ok(a) => a,
        Err(_) => return Ok(Observed::OutOfZone),
    };
    let mut asm = wire::Asm::new(0x1234, 0x0100);
    asm.question(qname, qtype, 1);
    let req = Message::from_octets(asm.buf).map_err(|e| format!("request: {e}"))?;
    let out: Vec<u8> = ans.to_message(&req, MessageBuilder::new_vec()).finish();
    let w = wire::walk(&out).ok_or("to_message output shorter than a header")?;
    if let Some((i, e)) = &w.error {
        return Err(format!("to_message output does not parse at item {i}: {e:?}"));
    }
    if w.end != out.len() {
        return Err("to_message output has trailing octets".into());
    }
    if w.questions.len() != 1 || w.questions[0].name != *qname || w.questions[0].qtype != qtype || w.questions[0].qclass != 1 {
        return Err("to_message does not echo the question".into());
    }
    if !w.header.qr() {
        return Err("to_message output is not a response".into());
    }
    if u16::from(w.header.rcode()) != u16::from(ans.rcode().to_int()) {
        return Err(format!("message rcode {} differs from Answer::rcode {}", w.header.rcode(), ans.rcode()));
    }
    let mut secs: [Vec<WRec>; 3] = [vec![], vec![], vec![]];
    for r in &w.records {
        let owner = r.owner.clone().map_err(|e| format!("owner: {e:?}"))?;
        if r.class != 1 {
            return Err(format!("record class {}", r.class));
        }
        let (rdata, _) = wire::rdata_normal(&out, r).map_err(|e| format!("rdata: {e:?}"))?;
        secs[(r.section - 1) as usize].push(WRec { owner: lower(&owner), rtype: r.rtype, ttl: r.ttl, rdata });
    }
    for s in secs.iter_mut() {
        s.sort();
    }
    let [answer, authority, additional] = secs;
    Ok(Observed::Answer { rcode: w.header.rcode(), aa: w.header.aa(), answer, authority, additional })
}
