//! Histories as explicit operation lists (independent of the library), the
//! planner that turns "content A -> content B" into write-interface or
//! ZoneUpdater operations, and a bookkeeping model (`Sim`) of which tree
//! nodes a history has created / emptied / marked. `Sim` is NOT an oracle:
//! it is used (1) by the restricted generator mode to keep histories away
//! from the known defect shapes and (2) to name the structural cause in the
//! signature of a history-dependence mismatch.
use super::model::*;
use std::collections::{BTreeMap, BTreeSet};

//------------ operations -------------------------------------------------------

#[derive(Clone, Debug, PartialEq, Eq)]
pub enum WOp {
    /// `update_rrset` at the node of `name`
    UpdateRrset(Nm, u16, RRset),
    RemoveRrset(Nm, u16),
    MakeCut(Nm, Spec),
    MakeCname(Nm, Spec),
    MakeRegular(Nm),
    RemoveAll(Nm),
}

#[derive(Clone, Debug, PartialEq, Eq)]
pub enum UOp {
    DeleteAll,
    Delete(Rec),
    Add(Rec),
    BeginBatchDelete(Rec),
    BeginBatchAdd(Rec),
    Finished(Rec),
}

#[derive(Clone, Debug, PartialEq, Eq)]
pub enum Batch {
    /// `zone.write()`, `open(diff)`, ops, then `commit(bump)` or drop.
    Write { diff: bool, bump: bool, ops: Vec<WOp>, commit: bool },
    /// one `ZoneUpdater`, ops applied in order, then dropped. The batch is
    /// committed iff the ops end in `Finished`.
    Updater { ops: Vec<UOp> },
}

impl Batch {
    pub fn commits(&self) -> bool {
        match self {
            Batch::Write { commit, .. } => *commit,
            Batch::Updater { ops } => matches!(ops.last(), Some(UOp::Finished(_))),
        }
    }
    pub fn is_updater(&self) -> bool {
        matches!(self, Batch::Updater { .. })
    }
    pub fn len(&self) -> usize {
        match self {
            Batch::Write { ops, .. } => ops.len(),
            Batch::Updater { ops } => ops.len(),
        }
    }
}

/// How the initial content of a history is loaded.
#[derive(Clone, Copy, Debug, PartialEq, Eq, Hash)]
pub enum Init {
    Builder,
    Zonefile,
    /// empty zone, then an AXFR-like updater batch
    EmptyUpdater,
    /// empty zone, then a write-interface batch
    EmptyWrite,
}

//------------ small deterministic mixing -----------------------------------------

#[derive(Clone, Copy)]
pub struct Mix(pub u64);
impl Mix {
    pub fn next(&mut self) -> u64 {
        // splitmix64
        self.0 = self.0.wrapping_add(0x9E3779B97F4A7C15);
        let mut z = self.0;
        z = (z ^ (z >> 30)).wrapping_mul(0xBF58476D1CE4E5B9);
        z = (z ^ (z >> 27)).wrapping_mul(0x94D049BB133111EB);
        z ^ (z >> 31)
    }
    pub fn below(&mut self, n: usize) -> usize {
        if n == 0 {
            0
        } else {
            (self.next() % n as u64) as usize
        }
    }
    pub fn shuffle<T>(&mut self, v: &mut [T]) {
        for i in (1..v.len()).rev() {
            let j = self.below(i + 1);
            v.swap(i, j);
        }
    }
    /// Random case variant of a name (0 = leave alone).
    pub fn case(&mut self, n: &Nm) -> Nm {
        if self.0 == 0 {
            return n.clone();
        }
        let r = self.next();
        if r & 3 != 0 {
            return n.clone();
        }
        let mut bits = self.next();
        n.iter()
            .map(|l| {
                l.iter()
                    .map(|&b| {
                        bits = bits.rotate_left(1);
                        if b.is_ascii_alphabetic() && bits & 1 == 1 {
                            b ^ 0x20
                        } else {
                            b
                        }
                    })
                    .collect()
            })
            .collect()
    }
}

//------------ planner ----------------------------------------------------------

#[derive(Clone, Copy, Debug, PartialEq, Eq)]
pub enum UStyle {
    /// deletes, adds, Finished
    Plain,
    /// BeginBatchDelete, deletes, BeginBatchAdd, adds (IXFR-like)
    Batch,
    /// DeleteAllRecords, adds of the complete new content (AXFR-like)
    Replace,
}

fn soa_rec(c: &Content) -> Option<Rec> {
    c.soa().map(|(ttl, data)| Rec { owner: c.apex.clone(), ttl, data })
}

/// ZoneUpdater operations that take `old` to `new`, without the final
/// `Finished`.
pub fn plan_updater_body(old: &Content, new: &Content, style: UStyle, mix: &mut Mix) -> Vec<UOp> {
    let mut ops = vec![];
    let new_soa = soa_rec(new);
    match style {
        UStyle::Replace => {
            ops.push(UOp::DeleteAll);
            let mut recs = new.records();
            if recs.len() > 1 {
                // AXFR order: SOA first, the rest in any order
                let (_, rest) = recs.split_at_mut(1);
                mix.shuffle(rest);
            }
            for mut r in recs {
                r.owner = mix.case(&r.owner);
                ops.push(UOp::Add(r));
            }
        }
        UStyle::Plain | UStyle::Batch => {
            let (mut del, mut add) = diff(old, new);
            if style == UStyle::Batch {
                del.retain(|r| r.data.rtype() != SOA);
                add.retain(|r| r.data.rtype() != SOA);
                // an IXFR batch is framed by the old and the new SOA
                match soa_rec(old).or(new_soa.clone()) {
                    Some(s) => ops.push(UOp::BeginBatchDelete(s)),
                    None => {}
                }
            }
            mix.shuffle(&mut del);
            mix.shuffle(&mut add);
            for mut r in del {
                r.owner = mix.case(&r.owner);
                ops.push(UOp::Delete(r));
            }
            if style == UStyle::Batch {
                if let Some(s) = new_soa.clone() {
                    ops.push(UOp::BeginBatchAdd(s));
                }
            }
            for mut r in add {
                r.owner = mix.case(&r.owner);
                ops.push(UOp::Add(r));
            }
        }
    }
    ops
}

pub fn finished_op(new: &Content) -> Option<UOp> {
    soa_rec(new).map(UOp::Finished)
}

#[derive(Clone, Copy, Debug)]
pub struct WStyle {
    /// `remove_all` at the apex first, then write the complete new content
    pub replace_all: bool,
    /// realise the disappearance of a whole subtree with `remove_all` on
    /// its top node
    pub subtree_remove_all: bool,
}

/// Write-interface operations that take `old` to `new`, issued the way the
/// zone-file loader classifies records: delegations through `make_zone_cut`
/// (NS, DS, glue), CNAMEs through `make_cname`, everything else as RRsets.
pub fn plan_write(old: &Content, new: &Content, style: WStyle, mix: &mut Mix) -> Vec<WOp> {
    let mut ops = vec![];
    let empty = Content::empty(new.apex.clone());
    let base: &Content = if style.replace_all {
        ops.push(WOp::RemoveAll(new.apex.clone()));
        &empty
    } else {
        old
    };
    let ak = new.apex_key();
    let mut removed_subtrees: Vec<Key> = vec![];
    if style.subtree_remove_all && !style.replace_all {
        // maximal subtrees that hold data in base and none in new
        for k in base.tree_names() {
            if removed_subtrees.iter().any(|r| key_is_at_or_below(&k, r)) {
                continue;
            }
            if base.exists(&k) && !new.exists(&k) {
                let name = base.nodes.get(&k).map(|n| n.name.clone()).unwrap_or_else(|| k.iter().rev().cloned().collect());
                ops.push(WOp::RemoveAll(mix.case(&name)));
                removed_subtrees.push(k);
            }
        }
    }
    let keys: BTreeSet<Key> = base.nodes.keys().chain(new.nodes.keys()).cloned().collect();
    let mut keys: Vec<Key> = keys.into_iter().collect();
    mix.shuffle(&mut keys);
    for k in keys {
        if removed_subtrees.iter().any(|r| key_is_at_or_below(&k, r)) {
            continue;
        }
        let name = new.nodes.get(&k).or(base.nodes.get(&k)).map(|n| n.name.clone()).unwrap();
        let name = mix.case(&name);
        let mut here = vec![];
        let bt: BTreeSet<u16> = base.plain_types(&k).into_iter().collect();
        let nt: BTreeSet<u16> = new.plain_types(&k).into_iter().collect();
        for t in bt.union(&nt) {
            match (bt.contains(t), nt.contains(t)) {
                (_, true) => {
                    let r = new.get(&k, *t).unwrap();
                    if !bt.contains(t) || base.get(&k, *t) != Some(r) {
                        here.push(WOp::UpdateRrset(name.clone(), *t, r.clone()));
                    }
                }
                (true, false) => here.push(WOp::RemoveRrset(name.clone(), *t)),
                _ => {}
            }
        }
        if k != ak {
            match (base.special(&k), new.special(&k)) {
                (b, Some(n)) => {
                    if !b.map(|b| b.same(&n)).unwrap_or(false) {
                        here.push(match n {
                            Spec::Cut { .. } => WOp::MakeCut(name.clone(), n),
                            Spec::Cname { .. } => WOp::MakeCname(name.clone(), n),
                        });
                    }
                }
                (Some(_), None) => here.push(WOp::MakeRegular(name.clone())),
                (None, None) => {}
            }
        }
        mix.shuffle(&mut here);
        ops.extend(here);
    }
    ops
}

//------------ Sim: bookkeeping of the node tree a history leaves behind ----------

#[derive(Clone, Debug, PartialEq, Eq)]
pub enum SimSpecial {
    None,
    Nx,
    Cut(Spec),
    Cname(Spec),
}

#[derive(Clone, Debug)]
pub struct SimNode {
    pub special: SimSpecial,
}

#[derive(Clone, Copy, Debug, PartialEq, Eq, Hash, PartialOrd, Ord)]
pub enum Defect {
    /// node without own RRsets, marked NXDOMAIN by the write path, although
    /// names below it hold data (it is an empty non-terminal)
    NxMarkedEnt,
    /// node that no longer exists, still in the tree and marked NXDOMAIN,
    /// so the lookup ends there instead of trying the closest encloser's
    /// wildcard
    NxMarkedShadowsWildcard,
    /// node that does not exist in the current content (created by an
    /// aborted batch, or emptied by remove_all) but carries no NXDOMAIN mark
    GhostNode,
    /// delegation whose NS arrived through ZoneUpdater: stored as plain RRset
    CutNotSpecial,
    /// CNAME that arrived through ZoneUpdater: stored as plain RRset
    CnameNotSpecial,
    /// delegation data (NS/DS/glue) changed or removed through ZoneUpdater:
    /// the zone-cut entry keeps the old copy
    StaleCut,
    StaleCname,
}

impl Defect {
    pub fn label(self) -> &'static str {
        match self {
            Defect::NxMarkedEnt => "nx-marked-ent",
            Defect::NxMarkedShadowsWildcard => "nx-marked-node-shadows-wildcard",
            Defect::GhostNode => "ghost-node",
            Defect::CutNotSpecial => "updater-cut-not-special",
            Defect::CnameNotSpecial => "updater-cname-not-special",
            Defect::StaleCut => "updater-stale-cut",
            Defect::StaleCname => "updater-stale-cname",
        }
    }
}

/// The three marker-related defect shapes (`NxMarkedEnt`,
/// `NxMarkedShadowsWildcard`, `GhostNode`) are repaired by proposed fix
/// C08-2 (node existence derived from the version's content at read time).
/// With the fix applied they are not defects any more; set this to `true`
/// to run the check against a tree without that fix (the restricted mode
/// then avoids these shapes and the unrestricted mode names them).
pub const MARKER_DEFECTS: bool = false;

#[derive(Clone, Debug)]
pub struct Sim {
    pub apex: Key,
    /// nodes below the apex
    pub nodes: BTreeMap<Key, SimNode>,
    /// record data held as plain RRsets (what `rrsets` of a node contains)
    pub rr: BTreeMap<(Key, u16), BTreeSet<RData>>,
}

impl Sim {
    pub fn new(apex: &Nm) -> Self {
        Sim { apex: key(apex), nodes: BTreeMap::new(), rr: BTreeMap::new() }
    }
    fn has_rrsets(&self, k: &Key) -> bool {
        self.rr.range((k.clone(), 0)..=(k.clone(), u16::MAX)).any(|(_, s)| !s.is_empty())
    }
    fn ensure(&mut self, k: &Key, created_special: SimSpecial) {
        for i in self.apex.len() + 1..=k.len() {
            let p: Key = k[..i].to_vec();
            self.nodes.entry(p).or_insert(SimNode { special: created_special.clone() });
        }
    }
    fn check_nx(&mut self, k: &Key) {
        if *k == self.apex {
            return;
        }
        let has = self.has_rrsets(k);
        if let Some(n) = self.nodes.get_mut(k) {
            match n.special {
                SimSpecial::Nx if has => n.special = SimSpecial::None,
                SimSpecial::None if !has => n.special = SimSpecial::Nx,
                _ => {}
            }
        }
    }
    /// ZoneBuilder / zone-file load of a content.
    pub fn load_builder(&mut self, c: &Content) {
        for k in c.nodes.keys() {
            self.ensure(k, SimSpecial::None);
            for t in c.plain_types(k) {
                self.rr.insert((k.clone(), t), c.get(k, t).unwrap().data.iter().map(|d| d.canon()).collect());
            }
            if *k != self.apex {
                match c.special(k) {
                    Some(s @ Spec::Cut { .. }) => self.nodes.get_mut(k).unwrap().special = SimSpecial::Cut(s),
                    Some(s @ Spec::Cname { .. }) => self.nodes.get_mut(k).unwrap().special = SimSpecial::Cname(s),
                    None => {}
                }
            }
        }
    }
    fn remove_all(&mut self, k: &Key) {
        let ks: Vec<(Key, u16)> = self.rr.keys().filter(|(kk, _)| key_is_at_or_below(kk, k)).cloned().collect();
        for kk in ks {
            self.rr.remove(&kk);
        }
        for (kk, n) in self.nodes.iter_mut() {
            if key_is_at_or_below(kk, k) {
                n.special = SimSpecial::None;
            }
        }
    }
    pub fn apply_w(&mut self, op: &WOp) {
        match op {
            WOp::UpdateRrset(n, t, r) => {
                let k = key(n);
                self.ensure(&k, SimSpecial::Nx);
                self.rr.insert((k.clone(), *t), r.data.iter().map(|d| d.canon()).collect());
                self.check_nx(&k);
            }
            WOp::RemoveRrset(n, t) => {
                let k = key(n);
                self.ensure(&k, SimSpecial::Nx);
                self.rr.remove(&(k.clone(), *t));
                self.check_nx(&k);
            }
            WOp::MakeCut(n, s) => {
                let k = key(n);
                self.ensure(&k, SimSpecial::Nx);
                self.nodes.get_mut(&k).unwrap().special = SimSpecial::Cut(s.clone());
            }
            WOp::MakeCname(n, s) => {
                let k = key(n);
                self.ensure(&k, SimSpecial::Nx);
                self.nodes.get_mut(&k).unwrap().special = SimSpecial::Cname(s.clone());
            }
            WOp::MakeRegular(n) => {
                let k = key(n);
                self.ensure(&k, SimSpecial::Nx);
                if let Some(x) = self.nodes.get_mut(&k) {
                    x.special = SimSpecial::None;
                }
                self.check_nx(&k);
            }
            WOp::RemoveAll(n) => {
                let k = key(n);
                self.ensure(&k, SimSpecial::Nx);
                self.remove_all(&k);
            }
        }
    }
    pub fn apply_u(&mut self, op: &UOp) {
        match op {
            UOp::DeleteAll => {
                let a = self.apex.clone();
                self.remove_all(&a);
            }
            UOp::Delete(r) => {
                let k = key(&r.owner);
                self.ensure(&k, SimSpecial::Nx);
                let t = r.data.rtype();
                if let Some(s) = self.rr.get_mut(&(k.clone(), t)) {
                    s.remove(&r.data.canon());
                    if s.is_empty() {
                        self.rr.remove(&(k.clone(), t));
                    }
                }
                self.check_nx(&k);
            }
            UOp::Add(r) => {
                let k = key(&r.owner);
                self.ensure(&k, SimSpecial::Nx);
                self.rr.entry((k.clone(), r.data.rtype())).or_default().insert(r.data.canon());
                self.check_nx(&k);
            }
            UOp::BeginBatchDelete(_) => {}
            UOp::BeginBatchAdd(r) | UOp::Finished(r) => {
                let k = key(&r.owner);
                let mut s = BTreeSet::new();
                s.insert(r.data.canon());
                self.rr.insert((k, SOA), s);
            }
        }
    }
    /// Applies a batch: a committed batch changes the state; an aborted one
    /// leaves the nodes it created behind, unmarked.
    pub fn apply_batch(&mut self, b: &Batch) {
        let snap = if b.commits() { None } else { Some(self.clone()) };
        match b {
            Batch::Write { ops, .. } => ops.iter().for_each(|o| self.apply_w(o)),
            Batch::Updater { ops } => ops.iter().for_each(|o| self.apply_u(o)),
        }
        if let Some(snap) = snap {
            let created: Vec<Key> = self.nodes.keys().filter(|k| !snap.nodes.contains_key(*k)).cloned().collect();
            *self = snap;
            for k in created {
                self.nodes.insert(k, SimNode { special: SimSpecial::None });
            }
        }
    }
    /// Nodes whose bookkeeping state does not correspond to the content.
    pub fn defects(&self, c: &Content) -> BTreeMap<Key, Defect> {
        let mut out = BTreeMap::new();
        for (k, n) in &self.nodes {
            let want = c.special(k);
            // record types that the content treats as special at this name
            // (NS/DS of a delegation, CNAME) or does not hold at all, but
            // that sit in the node's plain RRsets (put there by ZoneUpdater)
            let plain: BTreeSet<u16> = c.plain_types(k).into_iter().collect();
            let stray = self.rr.range((k.clone(), 0)..=(k.clone(), u16::MAX)).find(|((_, t), s)| !s.is_empty() && !plain.contains(t)).map(|((_, t), _)| *t);
            let d = match (&n.special, &want) {
                _ if stray == Some(CNAME) => Some(Defect::CnameNotSpecial),
                _ if stray.is_some() => Some(Defect::CutNotSpecial),
                (SimSpecial::Cut(s), Some(w)) if s.same(w) => None,
                (SimSpecial::Cname(s), Some(w)) if s.same(w) => None,
                (SimSpecial::Cut(_), _) => Some(Defect::StaleCut),
                (SimSpecial::Cname(_), _) => Some(Defect::StaleCname),
                (_, Some(Spec::Cut { .. })) => Some(Defect::CutNotSpecial),
                (_, Some(Spec::Cname { .. })) => Some(Defect::CnameNotSpecial),
                _ if !MARKER_DEFECTS => None,
                (SimSpecial::Nx, None) => {
                    if c.exists(k) {
                        Some(Defect::NxMarkedEnt)
                    } else {
                        // closest existing ancestor and its wildcard child
                        let mut i = k.len() - 1;
                        while i > self.apex.len() && !c.exists(&k[..i].to_vec()) {
                            i -= 1;
                        }
                        let src = key_child(&k[..i].to_vec(), b"*");
                        if c.exists(&src) && src != *k {
                            Some(Defect::NxMarkedShadowsWildcard)
                        } else {
                            None
                        }
                    }
                }
                (SimSpecial::None, None) => {
                    if !self.has_rrsets(k) && !c.exists(k) {
                        Some(Defect::GhostNode)
                    } else {
                        None
                    }
                }
            };
            if let Some(d) = d {
                out.insert(k.clone(), d);
            }
        }
        out
    }
}

/// The defect that can explain a wrong answer for `qname`: the topmost
/// defective node among the ancestors-or-self of qname (below the apex) and
/// the wildcard children of qname's ancestors; failing that, a defective
/// node in the subtree of such a node that does not exist in the content
/// (whether a name exists depends on the names below it).
pub fn defect_on_path(defects: &BTreeMap<Key, Defect>, c: &Content, qname: &Nm) -> Option<(Key, Defect)> {
    let apex = c.apex_key();
    let qk = key(qname);
    if defects.is_empty() || !key_is_at_or_below(&qk, &apex) {
        return None;
    }
    // the names of the lookup path first, then the wildcard candidates
    let mut cands: Vec<Key> = vec![];
    for i in apex.len() + 1..=qk.len() {
        cands.push(qk[..i].to_vec());
    }
    for i in apex.len()..qk.len() {
        cands.push(key_child(&qk[..i].to_vec(), b"*"));
    }
    for k in &cands {
        if let Some(d) = defects.get(k) {
            return Some((k.clone(), *d));
        }
    }
    for k in &cands {
        if c.exists(k) {
            continue;
        }
        if let Some((kk, d)) = defects.range(k.clone()..).take_while(|(kk, _)| key_is_at_or_below(kk, k)).next() {
            return Some((kk.clone(), *d));
        }
    }
    None
}
