//! Zone-content model for C08 (reusable by C09/C10): names as label vectors,
//! a small closed set of record data, RRsets and a zone content as
//! `BTreeMap<name key, BTreeMap<rtype, RRset>>`. Nothing in this file calls
//! into the library.
use std::collections::{BTreeMap, BTreeSet};

/// Absolute name, leftmost label first, root label implicit.
pub type Nm = Vec<Vec<u8>>;
/// Ordering/lookup key of a name: labels lower-cased, root side first.
pub type Key = Vec<Vec<u8>>;

pub const A: u16 = 1;
pub const NS: u16 = 2;
pub const CNAME: u16 = 5;
pub const SOA: u16 = 6;
pub const MX: u16 = 15;
pub const TXT: u16 = 16;
pub const AAAA: u16 = 28;
pub const SRV: u16 = 33;
pub const DS: u16 = 43;
pub const ANY: u16 = 255;

pub fn key(n: &Nm) -> Key {
    n.iter().rev().map(|l| l.to_ascii_lowercase()).collect()
}
pub fn lower(n: &Nm) -> Nm {
    n.iter().map(|l| l.to_ascii_lowercase()).collect()
}
/// `child.parent`
pub fn child(label: &[u8], parent: &Nm) -> Nm {
    let mut v = Vec::with_capacity(parent.len() + 1);
    v.push(label.to_vec());
    v.extend(parent.iter().cloned());
    v
}
pub fn key_child(k: &Key, label: &[u8]) -> Key {
    let mut v = k.clone();
    v.push(label.to_ascii_lowercase());
    v
}
pub fn key_is_at_or_below(k: &Key, anc: &Key) -> bool {
    k.len() >= anc.len() && k[..anc.len()] == anc[..]
}
pub fn show(n: &Nm) -> String {
    if n.is_empty() {
        return ".".into();
    }
    let mut s = String::new();
    for l in n {
        for &b in l {
            if b == b'.' || b == b'\\' {
                s.push('\\');
                s.push(b as char);
            } else if (0x21..0x7f).contains(&b) {
                s.push(b as char);
            } else {
                s.push_str(&format!("\\{b:03}"));
            }
        }
        s.push('.');
    }
    s
}
pub fn show_key(k: &Key) -> String {
    let n: Nm = k.iter().rev().cloned().collect();
    show(&n)
}
pub fn name_wire(n: &Nm) -> Vec<u8> {
    let mut v = vec![];
    for l in n {
        v.push(l.len() as u8);
        v.extend_from_slice(l);
    }
    v.push(0);
    v
}
pub fn tname(t: u16) -> String {
    match t {
        A => "A".into(),
        NS => "NS".into(),
        CNAME => "CNAME".into(),
        SOA => "SOA".into(),
        MX => "MX".into(),
        TXT => "TXT".into(),
        AAAA => "AAAA".into(),
        SRV => "SRV".into(),
        DS => "DS".into(),
        ANY => "ANY".into(),
        t => format!("TYPE{t}"),
    }
}

#[derive(Clone, Debug, PartialEq, Eq, PartialOrd, Ord, Hash)]
pub enum RData {
    A([u8; 4]),
    Aaaa([u8; 16]),
    Ns(Nm),
    Cname(Nm),
    Soa { mname: Nm, rname: Nm, serial: u32, refresh: u32, retry: u32, expire: u32, minimum: u32 },
    Mx(u16, Nm),
    /// character strings, each <= 255 octets, printable ASCII without quote/backslash
    Txt(Vec<Vec<u8>>),
    Ds { key_tag: u16, alg: u8, digest_type: u8, digest: Vec<u8> },
}

impl RData {
    pub fn rtype(&self) -> u16 {
        match self {
            RData::A(_) => A,
            RData::Aaaa(_) => AAAA,
            RData::Ns(_) => NS,
            RData::Cname(_) => CNAME,
            RData::Soa { .. } => SOA,
            RData::Mx(..) => MX,
            RData::Txt(_) => TXT,
            RData::Ds { .. } => DS,
        }
    }
    /// Uncompressed wire RDATA.
    pub fn wire(&self) -> Vec<u8> {
        match self {
            RData::A(a) => a.to_vec(),
            RData::Aaaa(a) => a.to_vec(),
            RData::Ns(n) | RData::Cname(n) => name_wire(n),
            RData::Soa { mname, rname, serial, refresh, retry, expire, minimum } => {
                let mut v = name_wire(mname);
                v.extend(name_wire(rname));
                for x in [serial, refresh, retry, expire, minimum] {
                    v.extend_from_slice(&x.to_be_bytes());
                }
                v
            }
            RData::Mx(p, n) => {
                let mut v = p.to_be_bytes().to_vec();
                v.extend(name_wire(n));
                v
            }
            RData::Txt(ss) => {
                let mut v = vec![];
                for s in ss {
                    v.push(s.len() as u8);
                    v.extend_from_slice(s);
                }
                v
            }
            RData::Ds { key_tag, alg, digest_type, digest } => {
                let mut v = key_tag.to_be_bytes().to_vec();
                v.push(*alg);
                v.push(*digest_type);
                v.extend_from_slice(digest);
                v
            }
        }
    }
    /// Zone-file presentation of the RDATA.
    pub fn text(&self) -> String {
        match self {
            RData::A(a) => format!("{}.{}.{}.{}", a[0], a[1], a[2], a[3]),
            RData::Aaaa(a) => {
                // uncompressed colon-hex form is valid input
                (0..8).map(|i| format!("{:x}", u16::from_be_bytes([a[2 * i], a[2 * i + 1]]))).collect::<Vec<_>>().join(":")
            }
            RData::Ns(n) | RData::Cname(n) => show(n),
            RData::Soa { mname, rname, serial, refresh, retry, expire, minimum } => {
                format!("{} {} {serial} {refresh} {retry} {expire} {minimum}", show(mname), show(rname))
            }
            RData::Mx(p, n) => format!("{p} {}", show(n)),
            RData::Txt(ss) => ss.iter().map(|s| format!("\"{}\"", String::from_utf8_lossy(s))).collect::<Vec<_>>().join(" "),
            RData::Ds { key_tag, alg, digest_type, digest } => {
                let hex: String = digest.iter().map(|b| format!("{b:02x}")).collect();
                format!("{key_tag} {alg} {digest_type} {hex}")
            }
        }
    }
    /// The record data with embedded names lower-cased: two records of an
    /// RRset are the same record if they are equal in this form (names
    /// compare case-insensitively).
    pub fn canon(&self) -> RData {
        match self {
            RData::Ns(n) => RData::Ns(lower(n)),
            RData::Cname(n) => RData::Cname(lower(n)),
            RData::Mx(p, n) => RData::Mx(*p, lower(n)),
            RData::Soa { mname, rname, serial, refresh, retry, expire, minimum } => RData::Soa { mname: lower(mname), rname: lower(rname), serial: *serial, refresh: *refresh, retry: *retry, expire: *expire, minimum: *minimum },
            d => d.clone(),
        }
    }
    pub fn same(&self, o: &RData) -> bool {
        self.canon() == o.canon()
    }
    /// Name of an NS target.
    pub fn ns_target(&self) -> Option<&Nm> {
        match self {
            RData::Ns(n) => Some(n),
            _ => None,
        }
    }
}

#[derive(Clone, Debug, PartialEq, Eq, Hash)]
pub struct RRset {
    pub ttl: u32,
    /// distinct record data (set semantics; kept sorted)
    pub data: Vec<RData>,
}

impl RRset {
    pub fn new(ttl: u32, mut data: Vec<RData>) -> Self {
        data.sort_by_key(|d| d.canon());
        data.dedup_by(|a, b| a.same(b));
        RRset { ttl, data }
    }
    pub fn contains(&self, d: &RData) -> bool {
        self.data.iter().any(|x| x.same(d))
    }
}

#[derive(Clone, Debug, PartialEq, Eq, Hash, Default)]
pub struct Node {
    /// owner name as written (case preserved from the first insertion)
    pub name: Nm,
    pub rrsets: BTreeMap<u16, RRset>,
}

/// The role the records at a name give it.
#[derive(Clone, Copy, Debug, PartialEq, Eq)]
pub enum Role {
    Regular,
    Cut,
    Cname,
}

/// One record: (owner, type, ttl, data).
#[derive(Clone, Debug, PartialEq, Eq, PartialOrd, Ord, Hash)]
pub struct Rec {
    pub owner: Nm,
    pub ttl: u32,
    pub data: RData,
}

#[derive(Clone, Debug, PartialEq, Eq, Hash)]
pub struct Content {
    pub apex: Nm,
    pub nodes: BTreeMap<Key, Node>,
}

impl Content {
    pub fn empty(apex: Nm) -> Self {
        Content { apex, nodes: BTreeMap::new() }
    }
    pub fn apex_key(&self) -> Key {
        key(&self.apex)
    }
    pub fn in_zone(&self, n: &Nm) -> bool {
        key_is_at_or_below(&key(n), &self.apex_key())
    }
    pub fn is_apex(&self, k: &Key) -> bool {
        *k == self.apex_key()
    }
    pub fn get(&self, k: &Key, t: u16) -> Option<&RRset> {
        self.nodes.get(k).and_then(|n| n.rrsets.get(&t))
    }
    pub fn node(&self, k: &Key) -> Option<&Node> {
        self.nodes.get(k).filter(|n| !n.rrsets.is_empty())
    }
    pub fn has_data(&self, k: &Key) -> bool {
        self.node(k).is_some()
    }
    /// The name exists in the RFC 4592 section 2.2.2 sense: it owns data or
    /// a name below it does (empty non-terminal).
    pub fn exists(&self, k: &Key) -> bool {
        self.nodes.range(k.clone()..).take_while(|(kk, _)| key_is_at_or_below(kk, k)).any(|(_, n)| !n.rrsets.is_empty())
    }
    /// Strict descendants owning data.
    pub fn has_descendant_data(&self, k: &Key) -> bool {
        self.nodes.range(k.clone()..).take_while(|(kk, _)| key_is_at_or_below(kk, k)).any(|(kk, n)| kk != k && !n.rrsets.is_empty())
    }
    pub fn role(&self, k: &Key) -> Role {
        match self.nodes.get(k) {
            Some(n) if n.rrsets.contains_key(&CNAME) => Role::Cname,
            Some(n) if n.rrsets.contains_key(&NS) && !self.is_apex(k) => Role::Cut,
            _ => Role::Regular,
        }
    }
    pub fn rrset_count(&self) -> usize {
        self.nodes.values().map(|n| n.rrsets.len()).sum()
    }
    pub fn record_count(&self) -> usize {
        self.nodes.values().flat_map(|n| n.rrsets.values()).map(|r| r.data.len()).sum()
    }
    pub fn soa(&self) -> Option<(u32, RData)> {
        self.get(&self.apex_key(), SOA).and_then(|r| r.data.first().map(|d| (r.ttl, d.clone())))
    }
    /// Inserts / replaces an RRset (empty data removes it).
    pub fn set(&mut self, name: &Nm, t: u16, rrset: Option<RRset>) {
        let k = key(name);
        match rrset {
            Some(r) if !r.data.is_empty() => {
                let n = self.nodes.entry(k).or_insert_with(|| Node { name: name.clone(), rrsets: BTreeMap::new() });
                n.rrsets.insert(t, r);
            }
            _ => {
                if let Some(n) = self.nodes.get_mut(&k) {
                    n.rrsets.remove(&t);
                    if n.rrsets.is_empty() {
                        self.nodes.remove(&k);
                    }
                }
            }
        }
    }
    pub fn remove_name(&mut self, k: &Key) {
        self.nodes.remove(k);
    }
    pub fn remove_subtree(&mut self, k: &Key) {
        let ks: Vec<Key> = self.nodes.range(k.clone()..).take_while(|(kk, _)| key_is_at_or_below(kk, k)).map(|(kk, _)| kk.clone()).collect();
        for kk in ks {
            self.nodes.remove(&kk);
        }
    }
    /// All records, apex SOA first, then in key order.
    pub fn records(&self) -> Vec<Rec> {
        let mut out = vec![];
        let ak = self.apex_key();
        if let Some(n) = self.nodes.get(&ak) {
            if let Some(r) = n.rrsets.get(&SOA) {
                for d in &r.data {
                    out.push(Rec { owner: n.name.clone(), ttl: r.ttl, data: d.clone() });
                }
            }
        }
        for (k, n) in &self.nodes {
            for (t, r) in &n.rrsets {
                if *k == ak && *t == SOA {
                    continue;
                }
                for d in &r.data {
                    out.push(Rec { owner: n.name.clone(), ttl: r.ttl, data: d.clone() });
                }
            }
        }
        out
    }
    /// All names of the tree the content spans below the apex: owners and
    /// their ancestors down to (excluding) the apex.
    pub fn tree_names(&self) -> BTreeSet<Key> {
        let al = self.apex.len();
        let mut s = BTreeSet::new();
        for (k, n) in &self.nodes {
            if n.rrsets.is_empty() {
                continue;
            }
            for i in al + 1..=k.len() {
                s.insert(k[..i].to_vec());
            }
        }
        s
    }
    /// Address records (A, AAAA) at a name, as records.
    pub fn addresses(&self, n: &Nm) -> Vec<Rec> {
        let mut out = vec![];
        if let Some(node) = self.nodes.get(&key(n)) {
            for t in [A, AAAA] {
                if let Some(r) = node.rrsets.get(&t) {
                    for d in &r.data {
                        out.push(Rec { owner: node.name.clone(), ttl: r.ttl, data: d.clone() });
                    }
                }
            }
        }
        out
    }
    /// What a caller that classifies records like RFC 1034 section 4.2.1
    /// hands to the zone as "special" for a name: the delegation (NS, DS and
    /// the address records of the NS targets that the zone holds) or the
    /// CNAME.
    pub fn special(&self, k: &Key) -> Option<Spec> {
        let node = self.nodes.get(k)?;
        match self.role(k) {
            Role::Regular => None,
            Role::Cname => {
                let r = &node.rrsets[&CNAME];
                Some(Spec::Cname { name: node.name.clone(), ttl: r.ttl, target: r.data[0].clone() })
            }
            Role::Cut => {
                let ns = node.rrsets[&NS].clone();
                let ds = node.rrsets.get(&DS).cloned();
                let mut glue = vec![];
                let mut seen = BTreeSet::new();
                for d in &ns.data {
                    if let Some(t) = d.ns_target() {
                        if seen.insert(key(t)) && self.in_zone(t) {
                            glue.extend(self.addresses(t));
                        }
                    }
                }
                glue.sort();
                Some(Spec::Cut { name: node.name.clone(), ns, ds, glue })
            }
        }
    }
    pub fn specials(&self) -> BTreeMap<Key, Spec> {
        let mut m = BTreeMap::new();
        for k in self.nodes.keys() {
            if let Some(s) = self.special(k) {
                m.insert(k.clone(), s);
            }
        }
        m
    }
    /// Types at a name that are stored as ordinary RRsets by a caller that
    /// uses the dedicated cut / CNAME entry points for the special ones.
    pub fn plain_types(&self, k: &Key) -> Vec<u16> {
        let Some(n) = self.nodes.get(k) else { return vec![] };
        let role = self.role(k);
        n.rrsets
            .keys()
            .copied()
            .filter(|t| match role {
                Role::Regular => true,
                Role::Cname => *t != CNAME,
                Role::Cut => *t != NS && *t != DS,
            })
            .collect()
    }
    /// Zone-file text, absolute owner names, explicit class and TTL, SOA
    /// first.
    pub fn zonefile_text(&self) -> String {
        let mut s = String::new();
        for r in self.records() {
            s.push_str(&format!("{} {} IN {} {}\n", show(&r.owner), r.ttl, tname(r.data.rtype()), r.data.text()));
        }
        s
    }
    pub fn render(&self) -> String {
        let mut s = format!("apex {} ;", show(&self.apex));
        for r in self.records() {
            s.push_str(&format!(" {} {} {} {};", show(&r.owner), r.ttl, tname(r.data.rtype()), r.data.text()));
        }
        s
    }
}

/// Special handling a name needs (delegation or alias).
#[derive(Clone, Debug, PartialEq, Eq)]
pub enum Spec {
    Cut { name: Nm, ns: RRset, ds: Option<RRset>, glue: Vec<Rec> },
    Cname { name: Nm, ttl: u32, target: RData },
}

impl Spec {
    /// Equality that ignores the case of owner names.
    pub fn same(&self, o: &Spec) -> bool {
        match (self, o) {
            (Spec::Cut { name: n1, ns: a1, ds: d1, glue: g1 }, Spec::Cut { name: n2, ns: a2, ds: d2, glue: g2 }) => {
                key(n1) == key(n2) && a1 == a2 && d1 == d2 && {
                    let f = |g: &Vec<Rec>| {
                        let mut v: Vec<(Key, u32, RData)> = g.iter().map(|r| (key(&r.owner), r.ttl, r.data.clone())).collect();
                        v.sort();
                        v
                    };
                    f(g1) == f(g2)
                }
            }
            (Spec::Cname { name: n1, ttl: t1, target: x1 }, Spec::Cname { name: n2, ttl: t2, target: x2 }) => key(n1) == key(n2) && t1 == t2 && x1 == x2,
            _ => false,
        }
    }
}

/// Record-level difference between two contents: records to delete (with the
/// TTL they have in `old`) and records to add (with the TTL of `new`). When
/// the TTL of an RRset changes, all its records are deleted and re-added.
pub fn diff(old: &Content, new: &Content) -> (Vec<Rec>, Vec<Rec>) {
    let mut del = vec![];
    let mut add = vec![];
    let keys: BTreeSet<&Key> = old.nodes.keys().chain(new.nodes.keys()).collect();
    for k in keys {
        let on = old.nodes.get(k);
        let nn = new.nodes.get(k);
        let types: BTreeSet<u16> = on.iter().flat_map(|n| n.rrsets.keys()).chain(nn.iter().flat_map(|n| n.rrsets.keys())).copied().collect();
        for t in types {
            let o = on.and_then(|n| n.rrsets.get(&t));
            let n = nn.and_then(|n| n.rrsets.get(&t));
            let oname = on.map(|n| n.name.clone());
            let nname = nn.map(|n| n.name.clone());
            match (o, n) {
                (Some(o), Some(n)) if o.ttl == n.ttl => {
                    for d in &o.data {
                        if !n.contains(d) {
                            del.push(Rec { owner: oname.clone().unwrap(), ttl: o.ttl, data: d.clone() });
                        }
                    }
                    for d in &n.data {
                        if !o.contains(d) {
                            add.push(Rec { owner: nname.clone().unwrap(), ttl: n.ttl, data: d.clone() });
                        }
                    }
                }
                (o, n) => {
                    if let Some(o) = o {
                        for d in &o.data {
                            del.push(Rec { owner: oname.clone().unwrap(), ttl: o.ttl, data: d.clone() });
                        }
                    }
                    if let Some(n) = n {
                        for d in &n.data {
                            add.push(Rec { owner: nname.clone().unwrap(), ttl: n.ttl, data: d.clone() });
                        }
                    }
                }
            }
        }
    }
    (del, add)
}

/// Applies record deletions and additions to a content (set semantics; the
/// TTL of an RRset becomes the TTL of the last record added to it).
pub fn apply(c: &mut Content, del: &[Rec], add: &[Rec]) {
    for r in del {
        let k = key(&r.owner);
        let t = r.data.rtype();
        if let Some(rs) = c.get(&k, t).cloned() {
            let data: Vec<RData> = rs.data.into_iter().filter(|d| !d.same(&r.data)).collect();
            let name = c.nodes[&k].name.clone();
            c.set(&name, t, Some(RRset::new(rs.ttl, data)));
        }
    }
    for r in add {
        let k = key(&r.owner);
        let t = r.data.rtype();
        let mut data = c.get(&k, t).map(|x| x.data.clone()).unwrap_or_default();
        data.push(r.data.clone());
        let name = c.nodes.get(&k).map(|n| n.name.clone()).unwrap_or_else(|| r.owner.clone());
        c.set(&name, t, Some(RRset::new(r.ttl, data)));
    }
}
