//! Generators for C08: zone contents (name tree with empty non-terminals,
//! wildcards at several depths, CNAME nodes, delegations with DS / glue /
//! occluded names), content mutations (the steps of a history) and query
//! sets aimed at the interesting lookup branches. All choices come from the
//! `Unstructured` byte source; contents are constructed valid (what every
//! construction path accepts) instead of being filtered.
use super::model::*;
use super::plan::Mix;
use crate::gen::{byte, pick, u32_};
use arbitrary::Unstructured;
use std::collections::BTreeSet;

pub const LABELS: &[&[u8]] = &[b"a", b"b", b"c", b"w", b"x", b"ns", b"sub", b"www", b"d", b"Mail"];
pub const FRESH: &[&[u8]] = &[b"zz", b"q1", b"nope", b"Zq"];

/// true with probability about num/256; false once the input is exhausted
/// (so that a short input gives a small case).
pub fn maybe(u: &mut Unstructured, num: u8) -> bool {
    !u.is_empty() && byte(u) < num
}

pub fn nm(s: &str) -> Nm {
    s.trim_end_matches('.').split('.').filter(|l| !l.is_empty()).map(|l| l.as_bytes().to_vec()).collect()
}

#[derive(Clone, Copy)]
pub struct Cfg {
    pub max_depth: usize,
    pub max_features: usize,
    pub max_rrsets: usize,
}

impl Cfg {
    pub fn new(thorough: bool) -> Self {
        if thorough {
            Cfg { max_depth: 6, max_features: 40, max_rrsets: 400 }
        } else {
            Cfg { max_depth: 4, max_features: 10, max_rrsets: 40 }
        }
    }
}

fn label(u: &mut Unstructured) -> Vec<u8> {
    LABELS[pick(u, LABELS.len())].to_vec()
}

pub fn ttl(u: &mut Unstructured) -> u32 {
    [3600u32, 300, 60, 0, 1, 86400, 2147483647][pick(u, 7)]
}

fn ext_name(u: &mut Unstructured) -> Nm {
    [nm("ns.other."), nm("host.example.net."), nm("x.y.z.invalid.")][pick(u, 3)].clone()
}

/// Names of the tree spanned by `c` (owners and empty non-terminals), the
/// apex included.
pub fn tree(c: &Content) -> Vec<Nm> {
    let mut v = vec![c.apex.clone()];
    for k in c.tree_names() {
        // an empty non-terminal takes the spelling of a name below it
        let n = c.nodes.get(&k).map(|n| n.name.clone()).unwrap_or_else(|| {
            let below = c.nodes.range(k.clone()..).next().map(|(_, n)| n.name.clone()).unwrap();
            below[below.len() - k.len()..].to_vec()
        });
        v.push(n);
    }
    v
}

fn some_name(u: &mut Unstructured, c: &Content) -> Nm {
    // a name the zone knows, or a new one
    let t = tree(c);
    match pick(u, 4) {
        0 => child(&label(u), &c.apex),
        1 => ext_name(u),
        _ => t[pick(u, t.len())].clone(),
    }
}

pub fn rdata(u: &mut Unstructured, c: &Content, t: u16) -> RData {
    match t {
        A => RData::A([[10u8, 192, 127][pick(u, 3)], 0, pick(u, 3) as u8, 1 + pick(u, 6) as u8]),
        AAAA => {
            let mut a = [0u8; 16];
            a[0] = 0x20;
            a[1] = 0x01;
            a[2] = 0x0d;
            a[3] = 0xb8;
            a[15] = 1 + pick(u, 6) as u8;
            a[7] = pick(u, 2) as u8;
            RData::Aaaa(a)
        }
        NS => RData::Ns(some_name(u, c)),
        CNAME => RData::Cname(some_name(u, c)),
        MX => RData::Mx([10u16, 0, 20, 65535][pick(u, 4)], some_name(u, c)),
        TXT => {
            let n = 1 + pick(u, 2);
            RData::Txt((0..n).map(|_| [&b"v=spf1"[..], b"hello", b"x", b"This-Is-Text", b"0123456789"][pick(u, 5)].to_vec()).collect())
        }
        DS => RData::Ds { key_tag: [1u16, 12345, 65535][pick(u, 3)], alg: [8u8, 13, 15][pick(u, 3)], digest_type: [2u8, 1, 4][pick(u, 3)], digest: (0..[4usize, 20, 32][pick(u, 3)]).map(|i| (i as u8).wrapping_mul(7).wrapping_add(pick(u, 4) as u8)).collect() },
        _ => {
            let serial = match pick(u, 4) {
                0 => [0u32, 1, 0x7fff_ffff, 0x8000_0000, 0xffff_ffff, 2024010101][pick(u, 6)],
                _ => 1 + (u32_(u) % 1000),
            };
            RData::Soa { mname: child(b"ns1", &c.apex), rname: child(b"hostmaster", &c.apex), serial, refresh: 7200, retry: 900, expire: 1209600, minimum: [300u32, 0, 3600, 86400][pick(u, 4)] }
        }
    }
}

fn rrset(u: &mut Unstructured, c: &Content, t: u16) -> RRset {
    let n = match t {
        CNAME | SOA => 1,
        _ => 1 + [0usize, 0, 0, 1, 2][pick(u, 5)],
    };
    let data = (0..n).map(|_| rdata(u, c, t)).collect();
    RRset::new(ttl(u), data)
}

fn depth_below_apex(c: &Content, n: &Nm) -> usize {
    n.len().saturating_sub(c.apex.len())
}

fn is_wild(n: &Nm) -> bool {
    n.first().map(|l| l.as_slice() == b"*").unwrap_or(false)
}

/// May an RRset of type `t` be placed at `name` without making the zone
/// something a loader rejects (CNAME and other data, non-glue data at a
/// delegation, DS without NS, NS/DS at a wildcard owner, CNAME/DS at apex)?
pub fn can_add(c: &Content, name: &Nm, t: u16, cfg: &Cfg) -> bool {
    let k = key(name);
    if !c.in_zone(name) || depth_below_apex(c, name) > cfg.max_depth || name_wire(name).len() > 255 {
        return false;
    }
    let apex = c.is_apex(&k);
    if t == SOA {
        return apex;
    }
    if apex && (t == CNAME || t == DS) {
        return false;
    }
    if is_wild(name) && (t == NS || t == DS) {
        return false;
    }
    let types: BTreeSet<u16> = c.nodes.get(&k).map(|n| n.rrsets.keys().copied().collect()).unwrap_or_default();
    if types.contains(&CNAME) {
        return t == CNAME;
    }
    if t == CNAME {
        return types.is_empty();
    }
    if apex {
        return true;
    }
    if types.contains(&NS) {
        return matches!(t, A | AAAA | DS | NS);
    }
    if t == NS {
        return types.iter().all(|x| matches!(*x, A | AAAA));
    }
    if t == DS {
        return false;
    }
    true
}

fn put(u: &mut Unstructured, c: &mut Content, name: &Nm, t: u16, cfg: &Cfg) -> bool {
    if c.rrset_count() >= cfg.max_rrsets || !can_add(c, name, t, cfg) {
        return false;
    }
    let r = rrset(u, c, t);
    c.set(name, t, Some(r));
    true
}

fn put_plain(u: &mut Unstructured, c: &mut Content, name: &Nm, cfg: &Cfg) -> bool {
    let t = plain_type(u);
    put(u, c, name, t, cfg)
}

fn plain_type(u: &mut Unstructured) -> u16 {
    [A, TXT, MX, AAAA][pick(u, 4)]
}

fn parent(u: &mut Unstructured, c: &Content) -> Nm {
    let t = tree(c);
    // bias to the apex and shallow names
    if maybe(u, 90) {
        return c.apex.clone();
    }
    t[pick(u, t.len())].clone()
}

/// Adds one structural feature to the content.
pub fn add_feature(u: &mut Unstructured, c: &mut Content, cfg: &Cfg) {
    match pick(u, 13) {
        0 | 1 => {
            let p = parent(u, c);
            let n = child(&label(u), &p);
            put_plain(u, c, &n, cfg);
            if maybe(u, 80) {
                put_plain(u, c, &n, cfg);
            }
        }
        2 => {
            // deep name: creates empty non-terminals
            let p = parent(u, c);
            let mut n = child(&label(u), &p);
            for _ in 0..1 + pick(u, 2) {
                n = child(&label(u), &n);
            }
            put_plain(u, c, &n, cfg);
        }
        3 | 4 => {
            let p = parent(u, c);
            let n = child(b"*", &p);
            put_plain(u, c, &n, cfg);
            if maybe(u, 80) {
                put_plain(u, c, &n, cfg);
            }
        }
        5 => {
            let p = parent(u, c);
            let n = child(b"*", &p);
            put(u, c, &n, CNAME, cfg);
        }
        6 => {
            // below a wildcard: `sub.*.parent` (makes `*.parent` exist)
            let p = parent(u, c);
            let n = child(&label(u), &child(b"*", &p));
            put_plain(u, c, &n, cfg);
        }
        7 => {
            let p = parent(u, c);
            let n = child(&label(u), &p);
            put(u, c, &n, CNAME, cfg);
        }
        8 | 9 => delegation(u, c, cfg),
        10 => {
            // a concrete sibling of a wildcard
            let wilds: Vec<Nm> = tree(c).into_iter().filter(is_wild).collect();
            if !wilds.is_empty() {
                let w = &wilds[pick(u, wilds.len())];
                let p: Nm = w[1..].to_vec();
                let mut n = child(&label(u), &p);
                if maybe(u, 80) {
                    n = child(&label(u), &n);
                }
                put_plain(u, c, &n, cfg);
            }
        }
        11 => {
            // another RRset at an existing owner (the apex too)
            let owners: Vec<Nm> = c.nodes.values().map(|n| n.name.clone()).collect();
            if !owners.is_empty() {
                let n = owners[pick(u, owners.len())].clone();
                put_plain(u, c, &n, cfg);
            }
        }
        _ => {
            // wildcard deeper in the tree, below an empty non-terminal
            let p = child(&label(u), &parent(u, c));
            let n = child(b"*", &p);
            put_plain(u, c, &n, cfg);
        }
    }
}

fn delegation(u: &mut Unstructured, c: &mut Content, cfg: &Cfg) {
    let p = parent(u, c);
    let mut cut = child(&label(u), &p);
    if maybe(u, 50) {
        cut = child(&label(u), &cut);
    }
    if is_wild(&cut) || !can_add(c, &cut, NS, cfg) || c.rrset_count() + 4 > cfg.max_rrsets {
        return;
    }
    let ntargets = 1 + pick(u, 2);
    let mut targets: Vec<Nm> = vec![];
    for _ in 0..ntargets {
        let t = match pick(u, 6) {
            0 | 1 => child(b"ns", &cut),
            2 => cut.clone(),
            3 => child(b"ns1", &c.apex),
            4 => child(&label(u), &child(b"deep", &cut)),
            _ => ext_name(u),
        };
        if !targets.iter().any(|x| key(x) == key(&t)) {
            targets.push(t);
        }
    }
    let ns = RRset::new(ttl(u), targets.iter().map(|t| RData::Ns(t.clone())).collect());
    c.set(&cut, NS, Some(ns));
    if maybe(u, 110) {
        let r = rrset(u, c, DS);
        c.set(&cut, DS, Some(r));
    }
    for t in &targets {
        if !c.in_zone(t) {
            continue;
        }
        // glue (sometimes missing, sometimes only one address family)
        if maybe(u, 200) {
            put(u, c, t, A, cfg);
        }
        if maybe(u, 90) {
            put(u, c, t, AAAA, cfg);
        }
    }
    // occluded data below the cut
    if maybe(u, 110) {
        let n = child(&label(u), &cut);
        put_plain(u, c, &n, cfg);
    }
    if maybe(u, 40) {
        let n = child(b"*", &cut);
        put_plain(u, c, &n, cfg);
    }
    if maybe(u, 30) {
        // occluded delegation below the delegation
        let n = child(&label(u), &cut);
        if can_add(c, &n, NS, cfg) {
            c.set(&n, NS, Some(RRset::new(ttl(u), vec![RData::Ns(ext_name(u))])));
        }
    }
}

pub fn apex(u: &mut Unstructured) -> Nm {
    [nm("example."), nm("example."), nm("Zone.Example."), nm("e.")][pick(u, 4)].clone()
}

/// A fresh valid zone content: apex SOA + NS and a number of features.
pub fn content(u: &mut Unstructured, apex: &Nm, cfg: &Cfg) -> Content {
    let mut c = Content::empty(apex.clone());
    let soa = rrset(u, &c, SOA);
    c.set(apex, SOA, Some(soa));
    let mut ns = vec![RData::Ns(child(b"ns1", apex))];
    if maybe(u, 100) {
        ns.push(RData::Ns(ext_name(u)));
    }
    c.set(apex, NS, Some(RRset::new(ttl(u), ns)));
    if maybe(u, 150) {
        let n = child(b"ns1", apex);
        put(u, &mut c, &n, A, cfg);
    }
    let n = match pick(u, 4) {
        0 => pick(u, 3),
        _ => pick(u, cfg.max_features + 1),
    };
    for _ in 0..n {
        add_feature(u, &mut c, cfg);
    }
    c
}

/// Re-establishes the validity rules after deletions: a DS needs its NS.
pub fn normalize(c: &mut Content) {
    let ak = c.apex_key();
    let ks: Vec<Key> = c.nodes.keys().cloned().collect();
    for k in ks {
        if k == ak {
            continue;
        }
        let n = &c.nodes[&k];
        if n.rrsets.contains_key(&DS) && !n.rrsets.contains_key(&NS) {
            let name = n.name.clone();
            c.set(&name, DS, None);
        }
        if c.nodes.get(&k).map(|n| n.rrsets.contains_key(&NS)).unwrap_or(false) {
            // non-glue data may not share a name with a delegation
            let n = &c.nodes[&k];
            let bad: Vec<u16> = n.rrsets.keys().copied().filter(|t| !matches!(*t, A | AAAA | NS | DS)).collect();
            let name = n.name.clone();
            for t in bad {
                c.set(&name, t, None);
            }
        }
    }
}

fn owners_below_apex(c: &Content) -> Vec<Nm> {
    let ak = c.apex_key();
    c.nodes.iter().filter(|(k, _)| **k != ak).map(|(_, n)| n.name.clone()).collect()
}

/// One mutation of a content (a step of a history is a few of these).
/// Returns a short label for the class histogram.
pub fn mutate(u: &mut Unstructured, c: &mut Content, cfg: &Cfg) -> &'static str {
    let owners = owners_below_apex(c);
    let what = pick(u, 20);
    let label = match what {
        0..=4 => {
            add_feature(u, c, cfg);
            "add-feature"
        }
        5 | 6 if !owners.is_empty() => {
            let n = &owners[pick(u, owners.len())];
            c.remove_name(&key(n));
            "delete-name"
        }
        7 if !owners.is_empty() => {
            let n = owners[pick(u, owners.len())].clone();
            let types: Vec<u16> = c.nodes[&key(&n)].rrsets.keys().copied().collect();
            let t = types[pick(u, types.len())];
            c.set(&n, t, None);
            "delete-rrset"
        }
        8 => {
            // add or remove one record of an RRset
            let all: Vec<(Nm, u16)> = c.nodes.values().flat_map(|n| n.rrsets.keys().map(move |t| (n.name.clone(), *t))).filter(|(_, t)| *t != SOA && *t != CNAME).collect();
            if all.is_empty() {
                return "noop";
            }
            let (n, t) = all[pick(u, all.len())].clone();
            let mut r = c.get(&key(&n), t).unwrap().clone();
            if r.data.len() > 1 && maybe(u, 128) {
                let i = pick(u, r.data.len());
                r.data.remove(i);
            } else {
                let d = rdata(u, c, t);
                r.data.push(d);
            }
            c.set(&n, t, Some(RRset::new(r.ttl, r.data)));
            "change-record"
        }
        9 => {
            let all: Vec<(Nm, u16)> = c.nodes.values().flat_map(|n| n.rrsets.keys().map(move |t| (n.name.clone(), *t))).collect();
            let (n, t) = all[pick(u, all.len())].clone();
            let mut r = c.get(&key(&n), t).unwrap().clone();
            r.ttl = ttl(u);
            c.set(&n, t, Some(r));
            "change-ttl"
        }
        10 => {
            let all: Vec<(Nm, u16)> = c.nodes.values().flat_map(|n| n.rrsets.keys().map(move |t| (n.name.clone(), *t))).filter(|(_, t)| *t != SOA).collect();
            if all.is_empty() {
                return "noop";
            }
            let (n, t) = all[pick(u, all.len())].clone();
            let r = rrset(u, c, t);
            c.set(&n, t, Some(r));
            "replace-rrset"
        }
        11 if !owners.is_empty() => {
            let n = &owners[pick(u, owners.len())];
            let mut k = key(n);
            // sometimes a whole branch
            while k.len() > c.apex.len() + 1 && maybe(u, 100) {
                k.pop();
            }
            c.remove_subtree(&k);
            "delete-subtree"
        }
        12 | 13 if !owners.is_empty() => {
            // change the role of a name: plain <-> CNAME <-> delegation
            let n = owners[pick(u, owners.len())].clone();
            c.remove_name(&key(&n));
            match pick(u, 3) {
                0 => {
                    put(u, c, &n, CNAME, cfg);
                }
                1 => {
                    if !is_wild(&n) {
                        c.set(&n, NS, Some(RRset::new(ttl(u), vec![RData::Ns(child(b"ns", &n))])));
                        let g = child(b"ns", &n);
                        if maybe(u, 200) {
                            put(u, c, &g, A, cfg);
                        }
                    }
                }
                _ => {
                    put_plain(u, c, &n, cfg);
                }
            }
            "change-role"
        }
        14 => {
            // the SOA changes (serial mostly)
            let ak = c.apex_key();
            if let Some(r) = c.get(&ak, SOA).cloned() {
                if let Some(RData::Soa { mname, rname, serial, refresh, retry, expire, minimum }) = r.data.first().cloned() {
                    let serial = match pick(u, 4) {
                        0 => serial.wrapping_add(0x7fff_ffff),
                        1 => u32_(u),
                        _ => serial.wrapping_add(1),
                    };
                    let minimum = if maybe(u, 40) { [0u32, 300, 3600][pick(u, 3)] } else { minimum };
                    let ttl_ = if maybe(u, 40) { ttl(u) } else { r.ttl };
                    let apex = c.apex.clone();
                    c.set(&apex, SOA, Some(RRset::new(ttl_, vec![RData::Soa { mname, rname, serial, refresh, retry, expire, minimum }])));
                }
            }
            "change-soa"
        }
        15 | 16 => {
            // delete a concrete name next to a wildcard (the wildcard must
            // take over) or the last name below an empty non-terminal
            let cands: Vec<Nm> = owners
                .iter()
                .filter(|n| {
                    let p: Nm = n[1..].to_vec();
                    !is_wild(n) && (c.exists(&key(&child(b"*", &p))) || (n.len() > c.apex.len() + 1 && !c.has_data(&key(&p))))
                })
                .cloned()
                .collect();
            if cands.is_empty() {
                add_feature(u, c, cfg);
                return "add-feature";
            }
            let n = &cands[pick(u, cands.len())];
            c.remove_name(&key(n));
            "delete-beside-wildcard-or-below-ent"
        }
        17 => {
            // delete the data of a name that has names below it (it becomes
            // an empty non-terminal)
            let cands: Vec<Nm> = owners.iter().filter(|n| c.has_descendant_data(&key(n))).cloned().collect();
            if cands.is_empty() {
                add_feature(u, c, cfg);
                return "add-feature";
            }
            let n = &cands[pick(u, cands.len())];
            c.remove_name(&key(n));
            "make-ent"
        }
        18 => {
            // new data at a name that is an empty non-terminal, or a
            // wildcard next to existing names
            let ents: Vec<Nm> = tree(c).into_iter().filter(|n| !c.has_data(&key(n))).collect();
            if !ents.is_empty() && maybe(u, 128) {
                let n = ents[pick(u, ents.len())].clone();
                put_plain(u, c, &n, cfg);
                "fill-ent"
            } else {
                let t = tree(c);
                let p = t[pick(u, t.len())].clone();
                let n = child(b"*", &p);
                put_plain(u, c, &n, cfg);
                "add-wildcard-beside"
            }
        }
        _ => {
            add_feature(u, c, cfg);
            "add-feature"
        }
    };
    normalize(c);
    label
}

pub const QTYPES: &[u16] = &[A, AAAA, NS, SOA, CNAME, DS, TXT, MX, ANY, SRV];

#[derive(Clone, Debug, PartialEq, Eq, Hash)]
pub struct Query {
    pub name: Nm,
    pub qtype: u16,
}

fn swap_case(m: &mut Mix, n: &Nm) -> Nm {
    let mut bits = m.next();
    n.iter()
        .map(|l| {
            l.iter()
                .map(|&b| {
                    bits = bits.rotate_left(1);
                    if b.is_ascii_alphabetic() && bits & 1 == 1 {
                        b ^ 0x20
                    } else {
                        b
                    }
                })
                .collect()
        })
        .collect()
}

/// Query set: every name of the final tree and every name any earlier
/// content (or aborted batch) of the history knew, names below / beside /
/// above them, literal asterisk names, names with an asterisk label
/// replaced, names below delegations, targets of NS/CNAME/MX, the apex,
/// names outside the zone; each with several query types (a type present at
/// the name or at the covering wildcard, DS at delegations, and others).
/// The choices come from a generator seeded by 8 input octets, so that the
/// query set does not starve when the input is short. `limit` caps the
/// number of queries.
pub fn queries(m: &mut Mix, fin: &Content, seen: &[&Content], limit: usize) -> Vec<Query> {
    let mut names: Vec<Nm> = vec![];
    let mut have: BTreeSet<Nm> = BTreeSet::new();
    let mut push = |n: Nm, names: &mut Vec<Nm>| {
        if name_wire(&n).len() <= 255 && n.iter().all(|l| !l.is_empty() && l.len() <= 63) && have.insert(n.clone()) {
            names.push(n);
        }
    };
    let mut base: Vec<Nm> = tree(fin);
    for c in seen {
        base.extend(tree(c));
    }
    // NS / CNAME / MX targets in the zone are interesting too
    for n in fin.nodes.values() {
        for r in n.rrsets.values() {
            for d in &r.data {
                match d {
                    RData::Ns(t) | RData::Cname(t) | RData::Mx(_, t) if fin.in_zone(t) => base.push(t.clone()),
                    _ => {}
                }
            }
        }
    }
    for n in &base {
        push(n.clone(), &mut names);
    }
    for n in &base {
        let f = FRESH[m.below(FRESH.len())];
        match m.below(8) {
            0 | 1 => push(child(f, n), &mut names),
            2 => push(child(LABELS[m.below(LABELS.len())], n), &mut names),
            3 => push(child(f, &child(FRESH[m.below(FRESH.len())], n)), &mut names),
            4 => push(child(b"*", n), &mut names),
            5 => {
                if n.len() > fin.apex.len() {
                    // sibling with a fresh label
                    push(child(f, &n[1..].to_vec()), &mut names);
                }
            }
            6 => push(swap_case(m, n), &mut names),
            _ => {}
        }
        // a name with an asterisk label: the same name with the asterisk
        // replaced (a wildcard never matches through its own children)
        if let Some(i) = n.iter().position(|l| l.as_slice() == b"*") {
            if i > 0 {
                let mut x = n.clone();
                x[i] = f.to_vec();
                push(x, &mut names);
            }
        }
    }
    // outside the zone
    let mut up = fin.apex.clone();
    up.remove(0);
    push(up.clone(), &mut names);
    push(child(b"other", &up), &mut names);
    push(nm("invalid."), &mut names);
    let per_name = 3usize;
    let total = names.len() * per_name;
    let mut out = vec![];
    for n in names {
        if total > limit && m.below(total) >= limit {
            continue;
        }
        let k = key(&n);
        // types present at the name, at the wildcard that may cover it, and others
        let mut present: Vec<u16> = fin.nodes.get(&k).map(|x| x.rrsets.keys().copied().collect()).unwrap_or_default();
        if present.is_empty() && n.len() > 1 {
            let w = key(&child(b"*", &n[1..].to_vec()));
            present = fin.nodes.get(&w).map(|x| x.rrsets.keys().copied().collect()).unwrap_or_default();
        }
        let mut ts: BTreeSet<u16> = BTreeSet::new();
        if present.contains(&NS) && n.len() > fin.apex.len() && m.below(8) < 5 {
            ts.insert(DS);
        }
        if !present.is_empty() {
            ts.insert(present[m.below(present.len())]);
        }
        let mut i = m.below(QTYPES.len());
        while ts.len() < per_name {
            ts.insert(QTYPES[i % QTYPES.len()]);
            i += 1 + m.below(4);
        }
        for t in ts {
            let name = if m.below(10) == 0 { swap_case(m, &n) } else { n.clone() };
            out.push(Query { name, qtype: t });
        }
    }
    out
}

