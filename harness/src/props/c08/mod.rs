//! C08 — zone answers follow RFC 1034 section 4.3.2 / RFC 4592 and depend
//! only on the zone's current content.
//!
//! Sub-checks
//! * `direct`: a generated zone content is loaded through `ZoneBuilder` and
//!   through the zone-file path; every query of a query set aimed at the
//!   lookup branches is compared with the independent reference resolver
//!   (`resolver.rs`), and the two zones with each other.
//! * `restricted`: a history (initial content, then batches of changes
//!   through the write interface / `ZoneUpdater`, aborted batches in
//!   between) generated so that it stays away from the known defect shapes;
//!   the resulting zone must answer exactly like a zone built directly from
//!   the final content (and like the reference). Any mismatch is a violation.
//! * `unrestricted`: any history. A mismatch is attributed to a known
//!   finding only if the history left a structurally defective node
//!   (bookkeeping model `plan::Sim`) on the lookup path of the query; the
//!   signature names that cause. Anything else is reported.
//! * `rfc4592`: the RFC 4592 section 2.2.1 example zone with the answers the
//!   RFC text lists, hard-coded (checks library and reference resolver
//!   against the RFC independently of each other).
pub mod drivers;
pub mod gen;
pub mod model;
pub mod plan;
pub mod resolver;

use crate::engine::*;
use crate::gen::{pick, u64_};
use gen::maybe;
use crate::{vensure, vfail};
use arbitrary::Unstructured;
use model::*;
use plan::*;
use resolver::{Kind, Observed, Outcome};
use std::collections::BTreeMap;

//------------ case -------------------------------------------------------------

pub struct Case {
    pub init: Init,
    pub contents: Vec<Content>,
    pub decoys: Vec<Content>,
    pub history: Vec<Batch>,
    pub sim: Sim,
    pub queries: Vec<gen::Query>,
    pub with_zonefile: bool,
    pub labels: Vec<String>,
}

impl Case {
    pub fn fin(&self) -> &Content {
        self.contents.last().unwrap()
    }
    fn path_class(&self) -> &'static str {
        let w = self.history.iter().any(|b| !b.is_updater());
        let u = self.history.iter().any(|b| b.is_updater());
        match (w, u) {
            (true, true) => "mixed",
            (true, false) => "write",
            (false, true) => "updater",
            (false, false) => "none",
        }
    }
    fn render(&self) -> String {
        let mut s = format!("init={:?} c0: {}\n", self.init, self.contents[0].render());
        for (i, b) in self.history.iter().enumerate() {
            s.push_str(&format!(" batch{i}: {}\n", render_batch(b)));
        }
        s.push_str(&format!(" final: {}", self.fin().render()));
        s
    }
}

fn render_rec(r: &Rec) -> String {
    format!("{} {} {} {}", show(&r.owner), r.ttl, tname(r.data.rtype()), r.data.text())
}

pub fn render_batch(b: &Batch) -> String {
    match b {
        Batch::Write { diff, bump, ops, commit } => {
            let o: Vec<String> = ops
                .iter()
                .map(|o| match o {
                    WOp::UpdateRrset(n, t, r) => format!("update_rrset({} {} ttl={} [{}])", show(n), tname(*t), r.ttl, r.data.iter().map(|d| d.text()).collect::<Vec<_>>().join(", ")),
                    WOp::RemoveRrset(n, t) => format!("remove_rrset({} {})", show(n), tname(*t)),
                    WOp::MakeCut(n, _) => format!("make_zone_cut({})", show(n)),
                    WOp::MakeCname(n, _) => format!("make_cname({})", show(n)),
                    WOp::MakeRegular(n) => format!("make_regular({})", show(n)),
                    WOp::RemoveAll(n) => format!("remove_all({})", show(n)),
                })
                .collect();
            format!("write open(diff={diff}) {} {}", o.join("; "), if *commit { format!("commit(bump={bump})") } else { "DROPPED".into() })
        }
        Batch::Updater { ops } => {
            let o: Vec<String> = ops
                .iter()
                .map(|o| match o {
                    UOp::DeleteAll => "DeleteAllRecords".into(),
                    UOp::Delete(r) => format!("Delete({})", render_rec(r)),
                    UOp::Add(r) => format!("Add({})", render_rec(r)),
                    UOp::BeginBatchDelete(r) => format!("BeginBatchDelete({})", render_rec(r)),
                    UOp::BeginBatchAdd(r) => format!("BeginBatchAdd({})", render_rec(r)),
                    UOp::Finished(r) => format!("Finished({})", render_rec(r)),
                })
                .collect();
            format!("updater {}{}", o.join("; "), if b.commits() { "" } else { "; DROPPED" })
        }
    }
}

fn bump_serial(c: &mut Content) {
    let ak = c.apex_key();
    if let Some(r) = c.get(&ak, SOA).cloned() {
        if let Some(RData::Soa { mname, rname, serial, refresh, retry, expire, minimum }) = r.data.first().cloned() {
            let apex = c.apex.clone();
            c.set(&apex, SOA, Some(RRset::new(r.ttl, vec![RData::Soa { mname, rname, serial: serial.wrapping_add(1), refresh, retry, expire, minimum }])));
        }
    }
}

#[derive(Clone, Copy)]
enum ViaPlan {
    Write { diff: bool, bump: bool, style: WStyle },
    Updater { style: UStyle },
}

/// Plans the batch that takes `old` to `new`; `commit=false` gives the
/// aborted variant (no commit / no `Finished`). Returns the batch and the
/// content the batch really produces (serial bump).
fn plan_batch(old: &Content, new: &Content, via: ViaPlan, commit: bool, seed: u64) -> (Batch, Content) {
    let mut mix = Mix(seed);
    match via {
        ViaPlan::Write { diff, bump, style } => {
            let ops = plan_write(old, new, style, &mut mix);
            let mut result = new.clone();
            if commit && bump && old.soa().is_some() && new.soa() == old.soa() {
                bump_serial(&mut result);
            }
            (Batch::Write { diff, bump, ops, commit }, result)
        }
        ViaPlan::Updater { style } => {
            let mut ops = plan_updater_body(old, new, style, &mut mix);
            if commit {
                if let Some(f) = finished_op(new) {
                    ops.push(f);
                }
            }
            (Batch::Updater { ops }, new.clone())
        }
    }
}

fn via_plan(u: &mut Unstructured) -> ViaPlan {
    if maybe(u, 128) {
        ViaPlan::Write { diff: maybe(u, 128), bump: maybe(u, 50), style: WStyle { replace_all: maybe(u, 16), subtree_remove_all: maybe(u, 64) } }
    } else {
        ViaPlan::Updater { style: [UStyle::Plain, UStyle::Batch, UStyle::Plain, UStyle::Batch, UStyle::Replace][pick(u, 5)] }
    }
}

struct StepPlan {
    abort: Option<(ViaPlan, usize)>,
    via: ViaPlan,
    full_replace: bool,
    n_mut: usize,
    chain: bool,
    seed: u64,
}

/// Decodes a case. The cheap structural choices (seeds, initial load, number
/// of steps, how each step is realised) are read first, then the initial
/// content, then the mutations of each step, so that a short input still
/// gives a complete (small) case.
pub fn decode(u: &mut Unstructured, restricted: bool, with_history: bool) -> Case {
    // The size class is part of the case (not of the tier), so that a case
    // file decodes the same way in every tier and under --replay.
    let thorough = crate::gen::byte(u) >= 200;
    let cfg = gen::Cfg::new(thorough);
    let mut qmix = Mix(u64_(u) | 1);
    let seed0 = if maybe(u, 128) { u64_(u) | 1 } else { 0 };
    let apex = gen::apex(u);
    let mut init = if with_history { [Init::Builder, Init::Zonefile, Init::EmptyUpdater, Init::EmptyWrite, Init::Builder][pick(u, 5)] } else { Init::Builder };
    let init_via = match init {
        Init::EmptyUpdater => ViaPlan::Updater { style: if maybe(u, 128) { UStyle::Replace } else { UStyle::Plain } },
        _ => ViaPlan::Write { diff: maybe(u, 128), bump: false, style: WStyle { replace_all: maybe(u, 40), subtree_remove_all: false } },
    };
    let with_zonefile = !with_history || maybe(u, 100);
    let max_steps = if thorough { 12 } else { 4 };
    let n_steps = if with_history { 1 + pick(u, max_steps) } else { 0 };
    let mut plans = vec![];
    for _ in 0..n_steps {
        let seed = if seed0 == 0 { 0 } else { (u64_(u) | 1).wrapping_add(seed0) };
        let abort = if maybe(u, 70) { Some((via_plan(u), 1 + pick(u, 3))) } else { None };
        plans.push(StepPlan { abort, via: via_plan(u), full_replace: maybe(u, 12), n_mut: 1 + pick(u, 5), chain: maybe(u, 220), seed });
    }

    let c0 = gen::content(u, &apex, &cfg);
    let empty = Content::empty(apex.clone());
    let mut labels: Vec<String> = vec![];
    let mut sim = Sim::new(&apex);
    let mut history: Vec<Batch> = vec![];
    match init {
        Init::Builder | Init::Zonefile => sim.load_builder(&c0),
        Init::EmptyUpdater | Init::EmptyWrite => {
            let (b, _) = plan_batch(&empty, &c0, init_via, true, seed0);
            let mut s2 = sim.clone();
            s2.apply_batch(&b);
            if restricted && !s2.defects(&c0).is_empty() {
                init = Init::Builder;
                sim.load_builder(&c0);
            } else {
                sim = s2;
                history.push(b);
            }
        }
    }
    let mut contents = vec![c0.clone()];
    let mut decoys = vec![];
    let mut cur = c0;
    let mut last_chainable = false;
    for sp in &plans {
        let seed = sp.seed;
        // an aborted batch first?
        let mut aborted_here = false;
        if let Some((via, n)) = sp.abort {
            let mut decoy = cur.clone();
            for _ in 0..n {
                gen::mutate(u, &mut decoy, &cfg);
            }
            let (mut b, _) = plan_batch(&cur, &decoy, via, false, seed);
            if let Batch::Updater { ops } = &mut b {
                // BeginBatchDelete commits what precedes it: keep it only as
                // the first operation of a batch that is going to be dropped
                let mut first = true;
                ops.retain(|o| {
                    let keep = !matches!(o, UOp::BeginBatchDelete(_)) || first;
                    first = false;
                    keep
                });
            }
            let mut s2 = sim.clone();
            s2.apply_batch(&b);
            if b.len() > 0 && !(restricted && !s2.defects(&cur).is_empty()) {
                sim = s2;
                labels.push(format!("abort:{}", if b.is_updater() { "updater" } else { "write" }));
                history.push(b);
                decoys.push(decoy);
                aborted_here = true;
            }
        }
        let via = sp.via;
        let mut next = cur.clone();
        let mut planned: Option<(Batch, Content)> = None;
        if sp.full_replace {
            let cand = gen::content(u, &apex, &cfg);
            let p = plan_batch(&cur, &cand, via, true, seed);
            let mut s2 = sim.clone();
            s2.apply_batch(&p.0);
            if cand != cur && !(restricted && !s2.defects(&p.1).is_empty()) {
                labels.push("mut:full-replace".into());
                next = cand;
                planned = Some(p);
            }
        } else {
            for _ in 0..sp.n_mut {
                let mut cand = next.clone();
                let l = gen::mutate(u, &mut cand, &cfg);
                if cand == next {
                    continue;
                }
                let p = plan_batch(&cur, &cand, via, true, seed);
                if restricted {
                    let mut s2 = sim.clone();
                    s2.apply_batch(&p.0);
                    if !s2.defects(&p.1).is_empty() {
                        labels.push("restricted:mutation-skipped".into());
                        continue;
                    }
                }
                labels.push(format!("mut:{l}"));
                next = cand;
                planned = Some(p);
            }
        }
        let Some((mut batch, result)) = planned else { continue };
        // IXFR with several batches: continue the previous updater
        let chainable = matches!(via, ViaPlan::Updater { style: UStyle::Batch });
        if chainable && last_chainable && !aborted_here && sp.chain && matches!(history.last(), Some(Batch::Updater { ops }) if matches!(ops.last(), Some(UOp::Finished(_)))) {
            // the bookkeeping model has seen the previous batch with its
            // Finished; applying this batch on top has the same effect as
            // the merged one
            sim.apply_batch(&batch);
            if let (Some(Batch::Updater { ops: prev }), Batch::Updater { ops }) = (history.last_mut(), &mut batch) {
                prev.pop();
                prev.append(ops);
            }
            labels.push("updater:multi-batch".into());
            labels.push("via:updater".into());
            contents.push(result.clone());
            cur = result;
            continue;
        }
        match &batch {
            Batch::Write { diff, bump, ops, .. } => {
                labels.push("via:write".into());
                if *diff {
                    labels.push("write:diff".into());
                }
                if *bump && result != next {
                    labels.push("write:bump-applied".into());
                }
                if ops.iter().any(|o| matches!(o, WOp::RemoveAll(_))) {
                    labels.push("write:remove_all".into());
                }
                if ops.iter().any(|o| matches!(o, WOp::MakeCut(..))) {
                    labels.push("write:make_zone_cut".into());
                }
                if ops.iter().any(|o| matches!(o, WOp::MakeCname(..))) {
                    labels.push("write:make_cname".into());
                }
                if ops.iter().any(|o| matches!(o, WOp::MakeRegular(..))) {
                    labels.push("write:make_regular".into());
                }
            }
            Batch::Updater { ops } => {
                labels.push("via:updater".into());
                if ops.iter().any(|o| matches!(o, UOp::DeleteAll)) {
                    labels.push("updater:delete-all".into());
                }
                if ops.iter().any(|o| matches!(o, UOp::BeginBatchDelete(_))) {
                    labels.push("updater:batch".into());
                }
                if ops.iter().any(|o| matches!(o, UOp::Delete(_))) {
                    labels.push("updater:delete".into());
                }
            }
        }
        sim.apply_batch(&batch);
        last_chainable = chainable;
        history.push(batch);
        contents.push(result.clone());
        cur = result;
    }
    let limit = if thorough { 300 } else { 100 };
    let seen: Vec<&Content> = contents.iter().chain(decoys.iter()).collect();
    let queries = gen::queries(&mut qmix, &cur, &seen, limit);
    if thorough {
        labels.push("size:large".into());
    }
    Case { init, contents, decoys, history, sim, queries, with_zonefile, labels }
}

//------------ running ------------------------------------------------------------

fn kind_of(e: &Outcome) -> &'static str {
    match e {
        Outcome::OutOfZone => "outofzone",
        Outcome::Undefined => "undefined",
        Outcome::Answer(x) => x.kind.label(),
    }
}

fn features(c: &Content) -> Vec<&'static str> {
    let mut f = vec![];
    let ak = c.apex_key();
    if c.tree_names().iter().any(|k| !c.has_data(k)) {
        f.push("zone:ent");
    }
    if c.nodes.values().any(|n| n.name.first().map(|l| l.as_slice() == b"*").unwrap_or(false)) {
        f.push("zone:wildcard");
    }
    if c.nodes.values().any(|n| n.name.len() > 1 && n.name[1..].iter().any(|l| l.as_slice() == b"*")) {
        f.push("zone:below-wildcard");
    }
    if c.nodes.iter().any(|(k, n)| *k != ak && n.rrsets.contains_key(&NS)) {
        f.push("zone:cut");
    }
    if c.nodes.values().any(|n| n.rrsets.contains_key(&DS)) {
        f.push("zone:ds");
    }
    if c.nodes.values().any(|n| n.rrsets.contains_key(&CNAME)) {
        f.push("zone:cname");
    }
    if c.specials().values().any(|s| matches!(s, Spec::Cut { glue, .. } if !glue.is_empty())) {
        f.push("zone:glue");
    }
    // occluded: data strictly below a cut
    let cuts: Vec<&Key> = c.nodes.iter().filter(|(k, n)| **k != ak && n.rrsets.contains_key(&NS)).map(|(k, _)| k).collect();
    if c.nodes.keys().any(|k| cuts.iter().any(|ck| k != *ck && key_is_at_or_below(k, ck))) {
        f.push("zone:occluded");
    }
    f
}

pub fn run_case(case: &Case, ctx: &mut Ctx, mode: &'static str) -> CaseResult {
    let fin = case.fin();
    let apex_len = fin.apex.len();
    let restricted = mode == "restricted";
    ctx.class(format!("mode:{mode}"));
    for f in features(fin) {
        ctx.class(f);
    }
    for l in &case.labels {
        ctx.class(l.clone());
    }
    ctx.sample(|| case.render());

    // reference zone: built directly from the final content
    let direct = match drivers::build_direct(fin) {
        Ok(z) => z,
        Err(e) => vfail!("build:zonebuilder-rejects-valid-content", "{e}\ncontent: {}", fin.render()),
    };
    let zonefile = if case.with_zonefile {
        match drivers::build_zonefile(fin) {
            Ok(z) => Some(z),
            Err(e) => vfail!("build:zonefile-path-rejects-valid-content", "{e}"),
        }
    } else {
        None
    };
    // the history
    let hist = if case.history.is_empty() && case.contents.len() == 1 && mode == "direct" {
        None
    } else {
        ctx.class(format!("init:{:?}", case.init));
        let zone = match case.init {
            Init::Builder => drivers::build_direct(&case.contents[0]).map_err(|e| Violation::new("build:zonebuilder-rejects-valid-content", e))?,
            Init::Zonefile => drivers::build_zonefile(&case.contents[0]).map_err(|e| Violation::new("build:zonefile-path-rejects-valid-content", e))?,
            Init::EmptyUpdater | Init::EmptyWrite => drivers::empty_zone(&fin.apex),
        };
        for (i, b) in case.history.iter().enumerate() {
            if let Err(e) = drivers::exec_batch(&zone, apex_len, b) {
                let what = if e.contains("pending") { "write-lock-not-released" } else { "operation-fails" };
                vfail!(format!("hist:{}:{what}", if b.is_updater() { "updater" } else { "write" }), "batch {i}: {e}\n{}", case.render());
            }
        }
        Some(zone)
    };
    let defects = case.sim.defects(fin);
    if !defects.is_empty() {
        ctx.class("history:leaves-defective-node");
        for d in defects.values() {
            ctx.class(format!("defect:{}", d.label()));
        }
    }
    let rd = direct.read();
    let rz = zonefile.as_ref().map(|z| z.read());
    let rh = hist.as_ref().map(|z| z.read());
    let mut non_exact = false;
    let mut reported: std::collections::BTreeSet<String> = Default::default();
    for q in &case.queries {
        let e = resolver::resolve(fin, &q.name, q.qtype);
        ctx.class(format!("kind:{}", kind_of(&e)));
        if q.qtype == ANY {
            ctx.class("qtype:any");
        }
        if let Outcome::Answer(x) = &e {
            if !x.kind.exact_match() {
                non_exact = true;
            }
            if x.kind == Kind::Referral && !x.additional_required.is_empty() {
                ctx.class("referral:needs-glue");
            }
        }
        let od = drivers::observe(rd.as_ref(), &q.name, q.qtype).map_err(|e| Violation::new("observe:to_message-output-invalid", format!("{e} for {} {}", show(&q.name), tname(q.qtype))))?;
        if let Err(part) = resolver::check(&e, &od, &q.name) {
            let v = Violation::new(
                format!("ref:builder:want-{}:got-{}:{part}", kind_of(&e), od.shape(q.qtype)),
                format!("query {} {}: reference says {:?}\nZoneBuilder zone answers {}\ncontent: {}", show(&q.name), tname(q.qtype), e, od.render(), fin.render()),
            );
            ctx.report(v)?;
        }
        let is_any_data = q.qtype == ANY && matches!(&e, Outcome::Answer(x) if matches!(x.answer, resolver::AnswerSpec::SomeOf(_)));
        let differs = |o: &Observed| -> bool {
            if is_any_data {
                resolver::check(&e, o, &q.name).is_err()
            } else {
                *o != od
            }
        };
        if let Some(rz) = &rz {
            let oz = drivers::observe(rz.as_ref(), &q.name, q.qtype).map_err(|e| Violation::new("observe:to_message-output-invalid", e))?;
            if differs(&oz) {
                let v = Violation::new(
                    format!("hist:zonefile-vs-builder:want-{}:got-{}", kind_of(&e), oz.shape(q.qtype)),
                    format!("query {} {}: zone loaded from zone file answers {}\nZoneBuilder zone answers {}\nzone file:\n{}", show(&q.name), tname(q.qtype), oz.render(), od.render(), fin.zonefile_text()),
                );
                ctx.report(v)?;
            }
        }
        if let Some(rh) = &rh {
            let oh = drivers::observe(rh.as_ref(), &q.name, q.qtype).map_err(|e| Violation::new("observe:to_message-output-invalid", e))?;
            if q.qtype == ANY && !defects.is_empty() && defect_on_path(&defects, fin, &q.name).is_some() {
                // which RRset an ANY query gets depends on the hash-map
                // order inside the node; at a node with a known defect the
                // outcome (and so the signature) would vary from run to run
                ctx.class("any-at-defective-node-skipped");
            } else if differs(&oh) {
                let cause = defect_on_path(&defects, fin, &q.name);
                let detail = format!(
                    "query {} {}: zone reached through the history answers {}\nzone built directly from the same records answers {}\nreference: {}\ndefective node on the lookup path: {}\n{}",
                    show(&q.name),
                    tname(q.qtype),
                    oh.render(),
                    od.render(),
                    kind_of(&e),
                    cause.as_ref().map(|(k, d)| format!("{} ({})", show_key(k), d.label())).unwrap_or_else(|| "none".into()),
                    case.render()
                );
                let sig = if restricted {
                    format!("hist-restricted:{}:want-{}:got-{}", case.path_class(), kind_of(&e), oh.shape(q.qtype))
                } else {
                    match &cause {
                        Some((_, d)) => format!("hist:{}:got-{}:want-{}:{}", d.label(), oh.shape(q.qtype), resolver::expected_shape(&e), case.path_class()),
                        None => format!("hist:unexplained:{}:want-{}:got-{}", case.path_class(), kind_of(&e), oh.shape(q.qtype)),
                    }
                };
                // one report per signature and case (excluded_known then
                // counts cases, not queries)
                if reported.insert(sig.clone()) {
                    ctx.report(Violation::new(sig, detail))?;
                }
            } else if !defects.is_empty() && defect_on_path(&defects, fin, &q.name).is_some() {
                ctx.class("defect-on-path-but-answer-right");
            }
        }
    }
    let committed = case.history.iter().filter(|b| b.commits()).count();
    if committed > 0 {
        ctx.class(format!("batches:{}", committed.min(5)));
    }
    let fs = features(fin);
    let structured = fs.iter().any(|f| matches!(*f, "zone:ent" | "zone:wildcard" | "zone:cut" | "zone:cname"));
    let nontrivial = match mode {
        "direct" => structured && non_exact,
        _ => structured && non_exact && committed >= 1 && case.contents.len() > 1,
    };
    if nontrivial {
        ctx.nontrivial(&(mode, &case.contents, case.history.len(), &case.queries));
    }
    Ok(())
}

fn run_direct(data: &[u8], ctx: &mut Ctx) -> CaseResult {
    let mut u = Unstructured::new(data);
    let case = decode(&mut u, false, false);
    run_case(&case, ctx, "direct")
}

fn run_restricted(data: &[u8], ctx: &mut Ctx) -> CaseResult {
    let mut u = Unstructured::new(data);
    let case = decode(&mut u, true, true);
    vensure!(case.sim.defects(case.fin()).is_empty(), "harness:restricted-generator-left-defect", "restricted mode produced a history with a defective node (generator bug)");
    run_case(&case, ctx, "restricted")
}

fn run_unrestricted(data: &[u8], ctx: &mut Ctx) -> CaseResult {
    let mut u = Unstructured::new(data);
    let case = decode(&mut u, false, true);
    run_case(&case, ctx, "unrestricted")
}

//------------ fixed RFC 4592 example ------------------------------------------------

fn rfc4592_zone() -> Content {
    let nm = gen::nm;
    let txt = |s: &str| RData::Txt(vec![s.as_bytes().to_vec()]);
    let mut c = Content::empty(nm("example."));
    let soa = RData::Soa { mname: nm("ns.example.com."), rname: nm("hostmaster.example."), serial: 1, refresh: 2, retry: 3, expire: 4, minimum: 300 };
    c.set(&nm("example."), SOA, Some(RRset::new(3600, vec![soa])));
    let ns = RRset::new(3600, vec![RData::Ns(nm("ns.example.com.")), RData::Ns(nm("ns.example.net."))]);
    c.set(&nm("example."), NS, Some(ns.clone()));
    c.set(&nm("*.example."), TXT, Some(RRset::new(3600, vec![txt("this is a wildcard")])));
    c.set(&nm("*.example."), MX, Some(RRset::new(3600, vec![RData::Mx(10, nm("host1.example."))])));
    c.set(&nm("sub.*.example."), TXT, Some(RRset::new(3600, vec![txt("this is not a wildcard")])));
    c.set(&nm("host1.example."), A, Some(RRset::new(3600, vec![RData::A([192, 0, 2, 1])])));
    c.set(&nm("_ssh._tcp.host1.example."), TXT, Some(RRset::new(3600, vec![txt("srv")])));
    c.set(&nm("_ssh._tcp.host2.example."), TXT, Some(RRset::new(3600, vec![txt("srv")])));
    c.set(&nm("subdel.example."), NS, Some(ns));
    c
}

/// (qname, qtype, expected shape, expected number of answer records) taken
/// from the text of RFC 4592 section 2.2.1 and 2.2.2.
const RFC4592: &[(&str, u16, &str, usize)] = &[
    ("host3.example.", MX, "data", 1),
    ("host3.example.", A, "nodata", 0),
    ("foo.bar.example.", TXT, "data", 1),
    ("host1.example.", MX, "nodata", 0),
    ("sub.*.example.", MX, "nodata", 0),
    ("_telnet._tcp.host1.example.", TXT, "nxdomain", 0),
    ("host.subdel.example.", A, "referral", 0),
    ("ghost.*.example.", MX, "nxdomain", 0),
    ("_tcp.host1.example.", A, "nodata", 0),
    ("host2.example.", A, "nodata", 0),
    ("*.example.", TXT, "data", 1),
    ("example.", NS, "data", 2),
];

fn rfc4592_count(_t: bool) -> u64 {
    (RFC4592.len() * 4) as u64
}

fn run_rfc4592(data: &[u8], ctx: &mut Ctx) -> CaseResult {
    let i = u64::from_le_bytes(data[..8].try_into().unwrap_or([0; 8])) as usize;
    let (q, t, shape, n) = RFC4592[i % RFC4592.len()];
    let path = i / RFC4592.len();
    let c = rfc4592_zone();
    let zone = match path % 4 {
        0 => drivers::build_direct(&c),
        1 => drivers::build_zonefile(&c),
        2 => {
            let z = drivers::empty_zone(&c.apex);
            let (b, _) = plan_batch(&Content::empty(c.apex.clone()), &c, ViaPlan::Write { diff: false, bump: false, style: WStyle { replace_all: false, subtree_remove_all: false } }, true, 0);
            drivers::exec_batch(&z, 1, &b).map(|_| z)
        }
        _ => {
            let z = drivers::empty_zone(&c.apex);
            let (b, _) = plan_batch(&Content::empty(c.apex.clone()), &c, ViaPlan::Updater { style: UStyle::Replace }, true, 0);
            drivers::exec_batch(&z, 1, &b).map(|_| z)
        }
    }
    .map_err(|e| Violation::new("rfc4592:build", e))?;
    let pname = ["builder", "zonefile", "write", "updater"][path % 4];
    ctx.class(format!("rfc4592:{pname}"));
    let qn = gen::nm(q);
    // the reference resolver must agree with the RFC text
    let e = resolver::resolve(&c, &qn, t);
    vensure!(resolver::expected_shape(&e) == shape, "harness:reference-resolver-disagrees-with-rfc4592", "{q} {}: resolver {:?}, RFC says {shape}", tname(t), e);
    let r = zone.read();
    let o = drivers::observe(r.as_ref(), &qn, t).map_err(|e| Violation::new("observe:to_message-output-invalid", e))?;
    let got_n = match &o {
        Observed::Answer { answer, .. } => answer.len(),
        _ => 0,
    };
    if o.shape(t) != shape || got_n != n {
        // histories through the write paths hit the known defects; name them
        let sig = if path % 4 >= 2 {
            let mut sim = Sim::new(&c.apex);
            let via = if path % 4 == 2 { ViaPlan::Write { diff: false, bump: false, style: WStyle { replace_all: false, subtree_remove_all: false } } } else { ViaPlan::Updater { style: UStyle::Replace } };
            let (b, _) = plan_batch(&Content::empty(c.apex.clone()), &c, via, true, 0);
            sim.apply_batch(&b);
            match defect_on_path(&sim.defects(&c), &c, &qn) {
                Some((_, d)) => format!("hist:{}:got-{}:want-{shape}:{}", d.label(), o.shape(t), pname),
                None => format!("rfc4592:{pname}:want-{shape}:got-{}", o.shape(t)),
            }
        } else {
            format!("rfc4592:{pname}:want-{shape}:got-{}", o.shape(t))
        };
        ctx.report(Violation::new(sig, format!("RFC 4592 2.2.1 example zone via {pname}: {q} {} must be {shape} with {n} answer records, got {}", tname(t), o.render())))?;
    }
    ctx.nontrivial(&i);
    Ok(())
}

//------------ registration ------------------------------------------------------------

fn health(c: &BTreeMap<String, u64>, _thorough: bool) -> Result<(), String> {
    let need = [
        "kind:data",
        "kind:cname",
        "kind:nodata",
        "kind:ent-nodata",
        "kind:nxdomain",
        "kind:referral",
        "kind:ds-at-cut",
        "kind:ds-at-cut-nodata",
        "kind:wild-data",
        "kind:wild-cname",
        "kind:wild-nodata",
        "kind:outofzone",
        "qtype:any",
        "referral:needs-glue",
        "zone:ent",
        "zone:wildcard",
        "zone:below-wildcard",
        "zone:cut",
        "zone:ds",
        "zone:glue",
        "zone:occluded",
        "zone:cname",
        "mode:direct",
        "mode:restricted",
        "mode:unrestricted",
        "init:Builder",
        "init:Zonefile",
        "init:EmptyUpdater",
        "init:EmptyWrite",
        "via:write",
        "via:updater",
        "abort:write",
        "abort:updater",
        "updater:delete-all",
        "updater:batch",
        "updater:delete",
        "write:remove_all",
        "write:make_zone_cut",
        "write:make_cname",
        "write:make_regular",
        "mut:delete-name",
        "mut:delete-beside-wildcard-or-below-ent",
        "mut:make-ent",
        "mut:full-replace",
        "updater:multi-batch",
        "write:bump-applied",
        "size:large",
    ];
    for k in need {
        if c.get(k).copied().unwrap_or(0) < 200 {
            return Err(format!("class {k} starved ({})", c.get(k).copied().unwrap_or(0)));
        }
    }
    Ok(())
}

pub fn prop() -> Option<Prop> {
    Some(Prop {
        id: "C08",
        rule: "a case is a generated zone content (name tree with ENTs, wildcards, CNAMEs, delegations) plus, in the history sub-checks, a generated update history ending in that content, plus a query set; non-trivial = the final content has at least one of {empty non-terminal, wildcard, delegation, CNAME} and at least one query lands on a non-exact-match branch (ENT, wildcard, referral, DS at cut, NXDOMAIN, out of zone) and, for history sub-checks, at least one committed incremental batch changed the content; distinct by (contents, history length, queries)",
        assumptions: &[
            "zone contents are what every loader accepts: CNAME alone at its name, only NS/DS/A/AAAA at a delegation, DS only with NS, no NS/DS at a wildcard owner, class IN, no DNAME",
            "callers of the write interface classify records like the zone-file loader (make_zone_cut with NS+DS+glue, make_cname, plain RRsets otherwise); ZoneUpdater is fed record-level adds/deletes that are valid for the current content (delete only what is there, add only what is not)",
            "QTYPE=ANY: any non-empty union of complete RRsets at the name is accepted (RFC 8482); additional section: required glue must be present, only address records of the cut's NS targets may appear; SOA TTL of negative answers may be the SOA's own TTL or the RFC 2308 minimum",
            "reference: props/c08/resolver.rs (RFC 1034 4.3.2 + RFC 4592), cross-checked against the RFC 4592 2.2.1 example by unit test and by the rfc4592 sub-check",
        ],
        subchecks: vec![
            SubCheck::sweep("rfc4592", run_rfc4592, rfc4592_count),
            SubCheck::new("direct", run_direct, 30_000, 300_000, 1200),
            SubCheck::new("restricted", run_restricted, 50_000, 600_000, 2500),
            SubCheck::new("unrestricted", run_unrestricted, 50_000, 600_000, 2500),
        ],
        health: Some(health),
        extra: None,
    })
}
