//! Independent reference resolver for one authoritative zone: RFC 1034
//! section 4.3.2 (steps 2-4 for a single zone, no CNAME chasing, no
//! recursion) with the wildcard rules of RFC 4592 (closest encloser, source
//! of synthesis, empty non-terminals exist) and the parent-side DS rule of
//! RFC 4035 section 3.1.4.1. Nothing in this file calls into the library.
//! Reusable by C09/C10 (`resolve`, `Observed`, `check`).
use super::model::*;

#[derive(Clone, Copy, Debug, PartialEq, Eq, Hash, PartialOrd, Ord)]
pub enum Kind {
    Data,
    Cname,
    NoData,
    /// the name is an empty non-terminal
    EntNoData,
    NxDomain,
    Referral,
    /// DS query at the cut itself, answered from the parent side
    DsAtCut,
    DsAtCutNoData,
    WildData,
    WildCname,
    WildNoData,
}

impl Kind {
    pub fn label(self) -> &'static str {
        match self {
            Kind::Data => "data",
            Kind::Cname => "cname",
            Kind::NoData => "nodata",
            Kind::EntNoData => "ent-nodata",
            Kind::NxDomain => "nxdomain",
            Kind::Referral => "referral",
            Kind::DsAtCut => "ds-at-cut",
            Kind::DsAtCutNoData => "ds-at-cut-nodata",
            Kind::WildData => "wild-data",
            Kind::WildCname => "wild-cname",
            Kind::WildNoData => "wild-nodata",
        }
    }
    pub fn exact_match(self) -> bool {
        matches!(self, Kind::Data | Kind::Cname | Kind::NoData)
    }
}

/// A record as seen in a response: owner lower-cased.
#[derive(Clone, Debug, PartialEq, Eq, PartialOrd, Ord, Hash)]
pub struct WRec {
    pub owner: Nm,
    pub rtype: u16,
    pub ttl: u32,
    pub rdata: Vec<u8>,
}

fn wrecs(owner: &Nm, t: u16, r: &RRset) -> Vec<WRec> {
    let o = lower(owner);
    let mut v: Vec<WRec> = r.data.iter().map(|d| WRec { owner: o.clone(), rtype: t, ttl: r.ttl, rdata: d.wire() }).collect();
    v.sort();
    v
}

#[derive(Clone, Debug, PartialEq, Eq)]
pub enum AnswerSpec {
    Exactly(Vec<WRec>),
    /// QTYPE=ANY (RFC 8482 section 4.1: any non-empty subset of the RRsets
    /// at the name): the answer section must be a non-empty union of some of
    /// these RRsets, each complete.
    SomeOf(Vec<Vec<WRec>>),
}

#[derive(Clone, Debug, PartialEq, Eq)]
pub struct Expected {
    pub kind: Kind,
    pub rcode: u8,
    pub aa: bool,
    pub answer: AnswerSpec,
    /// authority section (SOA of negative answers carries `ttl` = the SOA's
    /// own TTL; `soa_ttl_alt` is the RFC 2308 section 3 alternative)
    pub authority: Vec<WRec>,
    pub soa_ttl_alt: Option<u32>,
    /// authority records a positive answer may additionally carry (apex NS)
    pub authority_optional: Vec<WRec>,
    pub additional_required: Vec<WRec>,
    pub additional_allowed: Vec<WRec>,
    /// the name the answer was taken from (cut, source of synthesis, qname)
    pub via: Key,
}

#[derive(Clone, Debug, PartialEq, Eq)]
pub enum Outcome {
    OutOfZone,
    /// the RFCs do not define the behaviour (NS at a wildcard owner,
    /// RFC 4592 section 4.2)
    Undefined,
    Answer(Expected),
}

fn soa_auth(c: &Content) -> (Vec<WRec>, Option<u32>) {
    let ak = c.apex_key();
    match c.get(&ak, SOA) {
        Some(r) => {
            let min = match r.data.first() {
                Some(RData::Soa { minimum, .. }) => *minimum,
                _ => r.ttl,
            };
            (wrecs(&c.apex, SOA, r), Some(r.ttl.min(min)))
        }
        None => (vec![], None),
    }
}

fn negative(c: &Content, kind: Kind, rcode: u8, via: Key) -> Expected {
    let (authority, alt) = soa_auth(c);
    Expected { kind, rcode, aa: true, answer: AnswerSpec::Exactly(vec![]), authority, soa_ttl_alt: alt, authority_optional: vec![], additional_required: vec![], additional_allowed: vec![], via }
}

fn positive(c: &Content, kind: Kind, answer: AnswerSpec, via: Key) -> Expected {
    let ak = c.apex_key();
    let authority_optional = c.get(&ak, NS).map(|r| wrecs(&c.apex, NS, r)).unwrap_or_default();
    // additional section processing is optional (RFC 1034 4.3.2 step 6):
    // any address record the zone holds may be added
    let mut allowed = vec![];
    for n in c.nodes.values() {
        for t in [A, AAAA] {
            if let Some(r) = n.rrsets.get(&t) {
                allowed.extend(wrecs(&n.name, t, r));
            }
        }
    }
    Expected { kind, rcode: 0, aa: true, answer, authority: vec![], soa_ttl_alt: None, authority_optional, additional_required: vec![], additional_allowed: allowed, via }
}

/// Answer from the RRsets at node `k` for owner `qname` (step 3a / 3c).
fn answer_at(c: &Content, k: &Key, qname: &Nm, qtype: u16, wild: bool) -> Expected {
    let node = c.node(k);
    let (kd, kc, kn) = if wild { (Kind::WildData, Kind::WildCname, Kind::WildNoData) } else { (Kind::Data, Kind::Cname, if node.is_none() { Kind::EntNoData } else { Kind::NoData }) };
    let Some(node) = node else {
        return negative(c, kn, 0, k.clone());
    };
    if let Some(r) = node.rrsets.get(&CNAME) {
        // a CNAME matches QTYPE CNAME and * as data; otherwise it is the
        // alias answer. The answer section is the same record either way.
        let kind = if qtype == CNAME || qtype == ANY { kd } else { kc };
        return positive(c, kind, AnswerSpec::Exactly(wrecs(qname, CNAME, r)), k.clone());
    }
    if qtype == ANY {
        let sets: Vec<Vec<WRec>> = node.rrsets.iter().map(|(t, r)| wrecs(qname, *t, r)).collect();
        return positive(c, kd, AnswerSpec::SomeOf(sets), k.clone());
    }
    match node.rrsets.get(&qtype) {
        Some(r) => positive(c, kd, AnswerSpec::Exactly(wrecs(qname, qtype, r)), k.clone()),
        None => negative(c, kn, 0, k.clone()),
    }
}

pub fn resolve(c: &Content, qname: &Nm, qtype: u16) -> Outcome {
    let ak = c.apex_key();
    let qk = key(qname);
    if !key_is_at_or_below(&qk, &ak) {
        return Outcome::OutOfZone;
    }
    // Step 3b: walking down from the apex, the first name that owns NS is a
    // zone cut; everything at and below it is not authoritative data.
    for i in ak.len() + 1..=qk.len() {
        let p: Key = qk[..i].to_vec();
        let Some(ns) = c.get(&p, NS) else { continue };
        let node = &c.nodes[&p];
        if node.name.first().map(|l| l.as_slice() == b"*").unwrap_or(false) {
            return Outcome::Undefined;
        }
        let ds = node.rrsets.get(&DS);
        if i == qk.len() && qtype == DS {
            // the parent is authoritative for DS at the cut
            return Outcome::Answer(match ds {
                Some(r) => positive(c, Kind::DsAtCut, AnswerSpec::Exactly(wrecs(qname, DS, r)), p.clone()),
                None => negative(c, Kind::DsAtCutNoData, 0, p.clone()),
            });
        }
        let mut authority = wrecs(&node.name, NS, ns);
        if let Some(r) = ds {
            authority.extend(wrecs(&node.name, DS, r));
        }
        let mut required = vec![];
        let mut allowed = vec![];
        let mut seen = std::collections::BTreeSet::new();
        for d in &ns.data {
            let Some(t) = d.ns_target() else { continue };
            let tk = key(t);
            if !seen.insert(tk.clone()) || !key_is_at_or_below(&tk, &ak) {
                continue;
            }
            let addrs: Vec<WRec> = c.addresses(t).into_iter().map(|r| WRec { owner: lower(&r.owner), rtype: r.data.rtype(), ttl: r.ttl, rdata: r.data.wire() }).collect();
            if key_is_at_or_below(&tk, &p) {
                required.extend(addrs.iter().cloned());
            }
            allowed.extend(addrs);
        }
        return Outcome::Answer(Expected {
            kind: Kind::Referral,
            rcode: 0,
            aa: false,
            answer: AnswerSpec::Exactly(vec![]),
            authority,
            soa_ttl_alt: None,
            authority_optional: vec![],
            additional_required: required,
            additional_allowed: allowed,
            via: p,
        });
    }
    // Step 3a: the whole of QNAME is matched (a name exists if it owns data
    // or has a descendant that does, RFC 4592 section 2.2.2).
    if c.exists(&qk) {
        return Outcome::Answer(answer_at(c, &qk, qname, qtype, false));
    }
    // Step 3c: closest encloser and its wildcard child (RFC 4592 3.3.1).
    let mut i = qk.len() - 1;
    loop {
        if i == ak.len() || c.exists(&qk[..i].to_vec()) {
            break;
        }
        i -= 1;
    }
    let ce: Key = qk[..i].to_vec();
    let src = key_child(&ce, b"*");
    if c.exists(&src) {
        if c.get(&src, NS).is_some() {
            return Outcome::Undefined;
        }
        return Outcome::Answer(answer_at(c, &src, qname, qtype, true));
    }
    Outcome::Answer(negative(c, Kind::NxDomain, 3, ce))
}

//------------ observation and comparison -------------------------------------

/// What a zone implementation answered, in implementation-neutral form.
#[derive(Clone, Debug, PartialEq, Eq, Hash)]
pub enum Observed {
    OutOfZone,
    Answer { rcode: u8, aa: bool, answer: Vec<WRec>, authority: Vec<WRec>, additional: Vec<WRec> },
}

impl Observed {
    /// Coarse shape, for signatures and class labels.
    pub fn shape(&self, qtype: u16) -> &'static str {
        match self {
            Observed::OutOfZone => "outofzone",
            Observed::Answer { rcode, aa, answer, authority, .. } => {
                if *rcode == 3 {
                    "nxdomain"
                } else if *rcode != 0 {
                    "error-rcode"
                } else if !answer.is_empty() {
                    if answer.iter().all(|r| r.rtype == CNAME) && qtype != CNAME && qtype != ANY {
                        "cname"
                    } else {
                        "data"
                    }
                } else if authority.iter().any(|r| r.rtype == NS) && !*aa {
                    "referral"
                } else if authority.iter().any(|r| r.rtype == SOA) {
                    "nodata"
                } else {
                    "empty"
                }
            }
        }
    }
    pub fn render(&self) -> String {
        match self {
            Observed::OutOfZone => "OutOfZone".into(),
            Observed::Answer { rcode, aa, answer, authority, additional } => {
                let f = |v: &Vec<WRec>| v.iter().map(|r| format!("{} {} {} {:02x?}", show(&r.owner), r.ttl, tname(r.rtype), r.rdata)).collect::<Vec<_>>().join(" | ");
                format!("rcode={rcode} aa={aa} AN[{}] AU[{}] AD[{}]", f(answer), f(authority), f(additional))
            }
        }
    }
}

pub fn expected_shape(e: &Outcome) -> &'static str {
    match e {
        Outcome::OutOfZone => "outofzone",
        Outcome::Undefined => "undefined",
        Outcome::Answer(x) => match x.kind {
            Kind::Data | Kind::WildData | Kind::DsAtCut => "data",
            Kind::Cname | Kind::WildCname => "cname",
            Kind::NoData | Kind::EntNoData | Kind::WildNoData | Kind::DsAtCutNoData => "nodata",
            Kind::NxDomain => "nxdomain",
            Kind::Referral => "referral",
        },
    }
}

fn multiset_sub(a: &[WRec], b: &[WRec]) -> bool {
    // a ⊆ b as multisets
    let mut b: Vec<&WRec> = b.iter().collect();
    for x in a {
        match b.iter().position(|y| *y == x) {
            Some(i) => {
                b.swap_remove(i);
            }
            None => return false,
        }
    }
    true
}

fn same_multiset(a: &[WRec], b: &[WRec]) -> bool {
    a.len() == b.len() && multiset_sub(a, b)
}

/// Checks an observation against the reference outcome. `Err` gives the
/// part that differs.
pub fn check(e: &Outcome, o: &Observed, qname: &Nm) -> Result<(), &'static str> {
    let x = match (e, o) {
        (Outcome::Undefined, _) => return Ok(()),
        (Outcome::OutOfZone, Observed::OutOfZone) => return Ok(()),
        (Outcome::OutOfZone, _) => return Err("in-zone-answer-for-out-of-zone-name"),
        (Outcome::Answer(_), Observed::OutOfZone) => return Err("out-of-zone-for-in-zone-name"),
        (Outcome::Answer(x), _) => x,
    };
    let Observed::Answer { rcode, aa, answer, authority, additional } = o else { unreachable!() };
    if *rcode != x.rcode {
        return Err("rcode");
    }
    // answer section
    match &x.answer {
        AnswerSpec::Exactly(v) => {
            if !same_multiset(v, answer) {
                return Err("answer-section");
            }
        }
        AnswerSpec::SomeOf(sets) => {
            if sets.is_empty() {
                if !answer.is_empty() {
                    return Err("answer-section");
                }
            } else {
                if answer.is_empty() {
                    return Err("answer-section-empty-for-any");
                }
                // union of complete RRsets at the name
                let mut rest: Vec<WRec> = answer.clone();
                for s in sets {
                    if s.iter().any(|r| rest.contains(r)) {
                        if !multiset_sub(s, &rest) {
                            return Err("answer-section-partial-rrset");
                        }
                        for r in s {
                            let i = rest.iter().position(|y| y == r).unwrap();
                            rest.swap_remove(i);
                        }
                    }
                }
                if !rest.is_empty() {
                    return Err("answer-section-foreign-record");
                }
            }
        }
    }
    let lq = lower(qname);
    if answer.iter().any(|r| r.owner != lq) {
        return Err("answer-owner");
    }
    if *aa != x.aa {
        return Err("aa-flag");
    }
    // authority section
    if x.soa_ttl_alt.is_some() {
        // negative answer: exactly the SOA, TTL either the SOA's own or the
        // RFC 2308 minimum
        let ok = authority.len() == x.authority.len()
            && authority.iter().zip(x.authority.iter()).all(|(g, w)| g.owner == w.owner && g.rtype == w.rtype && g.rdata == w.rdata && (g.ttl == w.ttl || Some(g.ttl) == x.soa_ttl_alt));
        if !ok || authority.is_empty() {
            return Err("authority-section-soa");
        }
    } else if x.kind == Kind::Referral {
        if !same_multiset(&x.authority, authority) {
            return Err("authority-section-referral");
        }
    } else if !(authority.is_empty() || same_multiset(&x.authority_optional, authority)) {
        return Err("authority-section");
    }
    // additional section
    if !multiset_sub(&x.additional_required, additional) {
        return Err("additional-section-missing-glue");
    }
    if !multiset_sub(additional, &x.additional_allowed) {
        return Err("additional-section-foreign-record");
    }
    Ok(())
}

#[cfg(test)]
mod tests {
    use super::*;

    fn nm(s: &str) -> Nm {
        s.trim_end_matches('.').split('.').filter(|l| !l.is_empty()).map(|l| l.as_bytes().to_vec()).collect()
    }
    fn txt(s: &str) -> RData {
        RData::Txt(vec![s.as_bytes().to_vec()])
    }

    /// RFC 4592 section 2.2.1 example zone (SRV replaced by TXT: the type is
    /// irrelevant to the lookup).
    pub fn rfc4592_zone() -> Content {
        let mut c = Content::empty(nm("example."));
        let soa = RData::Soa { mname: nm("ns.example.com."), rname: nm("hostmaster.example."), serial: 1, refresh: 2, retry: 3, expire: 4, minimum: 300 };
        c.set(&nm("example."), SOA, Some(RRset::new(3600, vec![soa])));
        let ns = RRset::new(3600, vec![RData::Ns(nm("ns.example.com.")), RData::Ns(nm("ns.example.net."))]);
        c.set(&nm("example."), NS, Some(ns.clone()));
        c.set(&nm("*.example."), TXT, Some(RRset::new(3600, vec![txt("this is a wildcard")])));
        c.set(&nm("*.example."), MX, Some(RRset::new(3600, vec![RData::Mx(10, nm("host1.example."))])));
        c.set(&nm("sub.*.example."), TXT, Some(RRset::new(3600, vec![txt("this is not a wildcard")])));
        c.set(&nm("host1.example."), A, Some(RRset::new(3600, vec![RData::A([192, 0, 2, 1])])));
        c.set(&nm("_ssh._tcp.host1.example."), TXT, Some(RRset::new(3600, vec![txt("srv")])));
        c.set(&nm("_ssh._tcp.host2.example."), TXT, Some(RRset::new(3600, vec![txt("srv")])));
        c.set(&nm("subdel.example."), NS, Some(ns));
        c
    }

    fn kind(c: &Content, q: &str, t: u16) -> Kind {
        match resolve(c, &nm(q), t) {
            Outcome::Answer(x) => x.kind,
            o => panic!("{o:?}"),
        }
    }

    #[test]
    fn rfc4592_examples() {
        let c = rfc4592_zone();
        // "The following responses would be synthesized from one of the wildcards in the zone"
        assert_eq!(kind(&c, "host3.example.", MX), Kind::WildData);
        assert_eq!(kind(&c, "host3.example.", A), Kind::WildNoData);
        assert_eq!(kind(&c, "foo.bar.example.", TXT), Kind::WildData);
        // "The following responses would not be synthesized"
        assert_eq!(kind(&c, "host1.example.", MX), Kind::NoData);
        assert_eq!(kind(&c, "sub.*.example.", MX), Kind::NoData);
        assert_eq!(kind(&c, "_telnet._tcp.host1.example.", TXT), Kind::NxDomain);
        assert_eq!(kind(&c, "host.subdel.example.", A), Kind::Referral);
        assert_eq!(kind(&c, "ghost.*.example.", MX), Kind::NxDomain);
        // section 2.2.2: empty non-terminals exist
        assert_eq!(kind(&c, "_tcp.host1.example.", A), Kind::EntNoData);
        assert_eq!(kind(&c, "host2.example.", A), Kind::EntNoData);
        assert_eq!(kind(&c, "_tcp.host2.example.", ANY), Kind::EntNoData);
        // the asterisk name itself, queried literally
        assert_eq!(kind(&c, "*.example.", TXT), Kind::Data);
        assert_eq!(kind(&c, "*.example.", A), Kind::NoData);
        assert_eq!(kind(&c, "subdel.example.", A), Kind::Referral);
        assert_eq!(kind(&c, "subdel.example.", DS), Kind::DsAtCutNoData);
        assert_eq!(kind(&c, "x.subdel.example.", DS), Kind::Referral);
        assert_eq!(kind(&c, "example.", NS), Kind::Data);
        assert_eq!(kind(&c, "example.", DS), Kind::NoData);
        assert_eq!(kind(&c, "EXAMPLE.", SOA), Kind::Data);
        assert_eq!(resolve(&c, &nm("example.com."), A), Outcome::OutOfZone);
        assert_eq!(resolve(&c, &nm("."), A), Outcome::OutOfZone);
        // synthesized owner is the query name, content the wildcard's
        match resolve(&c, &nm("Foo.bar.example."), TXT) {
            Outcome::Answer(x) => {
                assert_eq!(x.via, key(&nm("*.example.")));
                match x.answer {
                    AnswerSpec::Exactly(v) => {
                        assert_eq!(v.len(), 1);
                        assert_eq!(v[0].owner, nm("foo.bar.example."));
                        assert_eq!(v[0].rdata[1..], b"this is a wildcard"[..]);
                    }
                    _ => panic!(),
                }
            }
            _ => panic!(),
        }
        // NXDOMAIN carries the SOA
        match resolve(&c, &nm("ghost.*.example."), MX) {
            Outcome::Answer(x) => {
                assert_eq!(x.rcode, 3);
                assert!(x.aa);
                assert_eq!(x.authority.len(), 1);
                assert_eq!(x.authority[0].rtype, SOA);
                assert_eq!(x.soa_ttl_alt, Some(300));
            }
            _ => panic!(),
        }
    }

    #[test]
    fn cname_ds_glue_and_occlusion() {
        let mut c = rfc4592_zone();
        c.set(&nm("alias.example."), CNAME, Some(RRset::new(60, vec![RData::Cname(nm("host1.example."))])));
        c.set(&nm("*.w.example."), CNAME, Some(RRset::new(60, vec![RData::Cname(nm("host1.example."))])));
        c.set(&nm("d.example."), NS, Some(RRset::new(60, vec![RData::Ns(nm("ns.d.example.")), RData::Ns(nm("host1.example.")), RData::Ns(nm("out.other."))])));
        c.set(&nm("d.example."), DS, Some(RRset::new(60, vec![RData::Ds { key_tag: 1, alg: 8, digest_type: 2, digest: vec![1, 2, 3] }])));
        c.set(&nm("ns.d.example."), A, Some(RRset::new(60, vec![RData::A([10, 0, 0, 1])])));
        c.set(&nm("occluded.d.example."), TXT, Some(RRset::new(60, vec![txt("x")])));
        c.set(&nm("deep.d.example."), NS, Some(RRset::new(60, vec![RData::Ns(nm("out.other."))])));
        assert_eq!(kind(&c, "alias.example.", A), Kind::Cname);
        assert_eq!(kind(&c, "alias.example.", CNAME), Kind::Data);
        assert_eq!(kind(&c, "x.alias.example.", A), Kind::NxDomain); // alias exists, has no wildcard child
        assert_eq!(kind(&c, "q.w.example.", A), Kind::WildCname);
        assert_eq!(kind(&c, "w.example.", A), Kind::EntNoData);
        assert_eq!(kind(&c, "d.example.", DS), Kind::DsAtCut);
        assert_eq!(kind(&c, "occluded.d.example.", TXT), Kind::Referral);
        match resolve(&c, &nm("x.deep.d.example."), A) {
            Outcome::Answer(x) => {
                // the upper cut wins; DS in authority; glue below the cut required, in-zone sibling allowed
                assert_eq!(x.via, key(&nm("d.example.")));
                assert!(!x.aa);
                assert_eq!(x.authority.iter().filter(|r| r.rtype == NS).count(), 3);
                assert_eq!(x.authority.iter().filter(|r| r.rtype == DS).count(), 1);
                assert_eq!(x.additional_required.len(), 1);
                assert_eq!(x.additional_allowed.len(), 2);
            }
            _ => panic!(),
        }
        // ANY: some of the RRsets at the name
        let e = resolve(&c, &nm("zz.example."), ANY);
        let both = Observed::Answer {
            rcode: 0,
            aa: true,
            answer: vec![
                WRec { owner: nm("zz.example."), rtype: MX, ttl: 3600, rdata: RData::Mx(10, nm("host1.example.")).wire() },
                WRec { owner: nm("zz.example."), rtype: TXT, ttl: 3600, rdata: txt("this is a wildcard").wire() },
            ],
            authority: vec![],
            additional: vec![],
        };
        assert_eq!(check(&e, &both, &nm("zz.example.")), Ok(()));
        let Observed::Answer { answer, .. } = &both else { panic!() };
        let one = Observed::Answer { rcode: 0, aa: true, answer: answer[..1].to_vec(), authority: vec![], additional: vec![] };
        assert_eq!(check(&e, &one, &nm("zz.example.")), Ok(()));
        let none = Observed::Answer { rcode: 0, aa: true, answer: vec![], authority: vec![], additional: vec![] };
        assert!(check(&e, &none, &nm("zz.example.")).is_err());
        let nx = Observed::Answer { rcode: 3, aa: true, answer: vec![], authority: vec![], additional: vec![] };
        assert_eq!(check(&e, &nx, &nm("zz.example.")), Err("rcode"));
    }
}
