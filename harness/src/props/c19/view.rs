//! Normalised views of what the two codecs read at a given offset of a
//! message, and the readers that produce them.
//!
//! Both readers take the *whole* message (header included) and an absolute
//! offset; the new codec works on `contents = msg[12..]` with offsets
//! relative to that, which is handled here.

use domain::base::name::{ParsedName, ToLabelIter};
use domain::base::rdata::{ComposeRecordData, UnknownRecordData};
use domain::base::record::ParsedRecord;
use domain::base::wire::ParseError as OldParseError;
use domain::new::base::name::{NameBuf, RevNameBuf};
use domain::new::base::parse::SplitMessageBytes;
use domain::new::base::wire::BuildBytes;
use domain::new::base::{Question as NQuestion, Record as NRecord, UnparsedRecordData};
use domain::new::rdata::RecordData as NRecordData;
use domain::rdata::AllRecordData;
use octseq::Parser;

pub type Labels = Vec<Vec<u8>>;

/// Record types BOTH APIs model with a typed representation.
pub const SHARED: &[u16] = &[1, 2, 5, 6, 12, 13, 15, 16, 17, 28, 33, 39, 41, 43, 46, 47, 48, 50, 51, 63];
/// Shared types whose RDATA names both codecs decompress.
pub const SHARED_COMPRESSIBLE: &[u16] = &[2, 5, 6, 12, 15, 17];
/// Shared types outside RFC 1035 whose embedded name the new API models as
/// uncompressed data (offset of the name inside RDATA).
pub const SHARED_UNCOMPRESSED_NAME: &[(u16, usize)] = &[(33, 6), (39, 0), (46, 18), (47, 0)];

pub fn is_shared(t: u16) -> bool {
    SHARED.contains(&t)
}

#[derive(Clone, Copy, Debug, PartialEq, Eq, PartialOrd, Ord)]
pub enum Layer {
    Name,
    Frame,
    Rdata,
}

impl Layer {
    pub fn tag(self) -> &'static str {
        match self {
            Layer::Name => "name",
            Layer::Frame => "frame",
            Layer::Rdata => "rdata",
        }
    }
}

#[derive(Clone, Debug, PartialEq, Eq)]
pub struct Reject {
    pub layer: Layer,
    pub why: String,
}

#[derive(Clone, Debug, PartialEq, Eq, Hash)]
pub struct QView {
    pub name: Labels,
    pub qtype: u16,
    pub qclass: u16,
}

#[derive(Clone, Debug, PartialEq, Eq, Hash)]
pub enum Rd {
    /// RDATA of a type the side models, re-serialised uncompressed by that
    /// side.
    Typed(Vec<u8>),
    /// Opaque octets as that side's "unknown" view carries them.
    Raw(Vec<u8>),
}

impl Rd {
    pub fn bytes(&self) -> &[u8] {
        match self {
            Rd::Typed(v) | Rd::Raw(v) => v,
        }
    }
}

#[derive(Clone, Debug, PartialEq, Eq, Hash)]
pub struct RView {
    pub owner: Labels,
    pub rtype: u16,
    pub class: u16,
    pub ttl: u32,
    pub rd: Rd,
    /// RDATA fields through the typed accessors (shared types only)
    pub fields: Option<super::fields::Fields>,
}

pub fn labels_of_wire(w: &[u8]) -> Option<Labels> {
    crate::gen::name::from_wire(w)
}

//------------ old codec ---------------------------------------------------------

fn old_labels(n: &ParsedName<&[u8]>) -> Labels {
    n.iter_labels().filter(|l| !l.is_root()).map(|l| l.as_slice().to_vec()).collect()
}

fn old_err(layer: Layer, e: OldParseError) -> Reject {
    Reject { layer, why: e.to_string() }
}

/// Old codec: a possibly compressed name at `off`, labels may be read up to
/// `limit` (exclusive).
pub fn old_name_at(msg: &[u8], off: usize, limit: usize) -> Result<(Labels, usize), Reject> {
    let mut p = Parser::from_ref(&msg[..limit]);
    p.advance(off).map_err(|e| Reject { layer: Layer::Name, why: e.to_string() })?;
    let n = ParsedName::parse(&mut p).map_err(|e| old_err(Layer::Name, e))?;
    Ok((old_labels(&n), p.pos()))
}

pub fn old_question_at(msg: &[u8], off: usize) -> Result<(QView, usize), Reject> {
    let mut p = Parser::from_ref(msg);
    p.advance(off).map_err(|e| Reject { layer: Layer::Name, why: e.to_string() })?;
    // classify the layer: name first
    let mut p2 = p;
    if let Err(e) = ParsedName::parse(&mut p2) {
        return Err(old_err(Layer::Name, e));
    }
    let q = domain::base::Question::<ParsedName<&[u8]>>::parse(&mut p).map_err(|e| old_err(Layer::Frame, e))?;
    Ok((QView { name: old_labels(q.qname()), qtype: q.qtype().to_int(), qclass: q.qclass().to_int() }, p.pos()))
}

/// Old codec: normalised view of a parsed record, with the lazy reader
/// forced: RDATA of a shared type goes through `AllRecordData`; for every
/// other type the old side's unknown view (raw octets) is taken.
pub fn old_view_of(pr: &ParsedRecord<'_, [u8]>) -> Result<RView, Reject> {
    let owner = old_labels(&pr.owner());
    let rtype = pr.rtype().to_int();
    // Always force the typed reader (panics and hangs are everybody's
    // business), but its verdict counts only for shared types.
    let any = pr.to_any_record::<AllRecordData<&[u8], ParsedName<&[u8]>>>();
    let mut fields = None;
    let rd = if is_shared(rtype) {
        match any {
            Ok(rec) => {
                let mut v = Vec::new();
                rec.data().compose_rdata(&mut v).map_err(|_| Reject { layer: Layer::Rdata, why: "old compose_rdata failed".into() })?;
                fields = super::fields::old_fields(rec.data());
                Rd::Typed(v)
            }
            Err(e) => return Err(old_err(Layer::Rdata, e)),
        }
    } else {
        match pr.to_record::<UnknownRecordData<&[u8]>>() {
            Ok(Some(r)) => Rd::Raw(r.data().data().to_vec()),
            Ok(None) => return Err(Reject { layer: Layer::Rdata, why: "UnknownRecordData declined".into() }),
            Err(e) => return Err(old_err(Layer::Rdata, e)),
        }
    };
    Ok(RView { owner, rtype, class: pr.class().to_int(), ttl: pr.ttl().as_secs(), rd, fields })
}

/// Old codec: the record at `off`.
pub fn old_record_at(msg: &[u8], off: usize) -> Result<(RView, usize), Reject> {
    let mut p = Parser::from_ref(msg);
    p.advance(off).map_err(|e| Reject { layer: Layer::Name, why: e.to_string() })?;
    let mut p2 = p;
    if let Err(e) = ParsedName::parse(&mut p2) {
        return Err(old_err(Layer::Name, e));
    }
    let pr = ParsedRecord::parse(&mut p).map_err(|e| old_err(Layer::Frame, e))?;
    let end = p.pos();
    Ok((old_view_of(&pr)?, end))
}

//------------ new codec ---------------------------------------------------------

fn nrej(layer: Layer) -> Reject {
    Reject { layer, why: "ParseError".into() }
}

pub fn labels_of_namebuf(n: &NameBuf) -> Labels {
    labels_of_wire(n.as_bytes()).expect("NameBuf holds a valid name")
}

pub fn labels_of_revnamebuf(n: &RevNameBuf) -> Labels {
    labels_of_namebuf(&n.to_name())
}

/// Result of reading a name with both name buffer types of the new API.
pub struct NewName {
    pub fwd: Result<(Labels, usize), Reject>,
    pub rev: Result<(Labels, usize), Reject>,
}

/// New codec: a name at absolute offset `off`; `limit` is the absolute end
/// of the octets a label may be read from.
pub fn new_name_at(msg: &[u8], off: usize, limit: usize) -> NewName {
    if off < 12 || limit < 12 {
        return NewName { fwd: Err(nrej(Layer::Name)), rev: Err(nrej(Layer::Name)) };
    }
    let contents = &msg[12..limit];
    let fwd = NameBuf::split_message_bytes(contents, off - 12).map(|(n, e)| (labels_of_namebuf(&n), e + 12)).map_err(|_| nrej(Layer::Name));
    let rev = RevNameBuf::split_message_bytes(contents, off - 12).map(|(n, e)| (labels_of_revnamebuf(&n), e + 12)).map_err(|_| nrej(Layer::Name));
    NewName { fwd, rev }
}

pub fn new_question_at(msg: &[u8], off: usize) -> Result<(QView, usize), Reject> {
    if off < 12 {
        return Err(nrej(Layer::Name));
    }
    let contents = &msg[12..];
    if RevNameBuf::split_message_bytes(contents, off - 12).is_err() {
        return Err(nrej(Layer::Name));
    }
    let (q, e) = NQuestion::<RevNameBuf>::split_message_bytes(contents, off - 12).map_err(|_| nrej(Layer::Frame))?;
    Ok((QView { name: labels_of_revnamebuf(&q.qname), qtype: q.qtype.code.get(), qclass: q.qclass.code.get() }, e + 12))
}

pub type NRec<'a> = NRecord<RevNameBuf, NRecordData<'a, NameBuf>>;

pub fn view_of_new_record(r: &NRec<'_>) -> RView {
    let rtype: u16 = r.rtype.into();
    let fields = super::fields::new_fields(&r.rdata);
    let rd = match &r.rdata {
        NRecordData::Unknown(_, d) => Rd::Raw(d.octets.to_vec()),
        other => {
            let mut buf = vec![0u8; other.built_bytes_size()];
            let rest = other.build_bytes(&mut buf).expect("built_bytes_size is exact").len();
            let n = buf.len() - rest;
            buf.truncate(n);
            Rd::Typed(buf)
        }
    };
    RView { owner: labels_of_revnamebuf(&r.rname), rtype, class: r.rclass.into(), ttl: r.ttl.into(), rd, fields }
}

/// New codec, low-level API: the record at `off`.
pub fn new_record_at(msg: &[u8], off: usize) -> Result<(RView, usize), Reject> {
    if off < 12 {
        return Err(nrej(Layer::Name));
    }
    let contents = &msg[12..];
    match NRec::split_message_bytes(contents, off - 12) {
        Ok((r, e)) => Ok((view_of_new_record(&r), e + 12)),
        Err(_) => Err(nrej(new_record_reject_layer(msg, off))),
    }
}

/// Which layer of the record at `off` the new codec rejects (probe with the
/// name type, then with unparsed record data).
pub fn new_record_reject_layer(msg: &[u8], off: usize) -> Layer {
    let contents = &msg[12..];
    if off < 12 || RevNameBuf::split_message_bytes(contents, off - 12).is_err() {
        return Layer::Name;
    }
    if NRecord::<RevNameBuf, &UnparsedRecordData>::split_message_bytes(contents, off - 12).is_err() {
        return Layer::Frame;
    }
    Layer::Rdata
}
