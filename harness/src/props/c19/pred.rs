//! Exclusion predicates. Each is a function of the INPUT OCTETS only (it
//! uses the independent walker `refimpl`, never the outcome of either codec
//! under test). An item for which a predicate fires is not compared and is
//! counted under the class `excluded:<reason>`; see the table in `mod.rs`.

use super::view::{SHARED_COMPRESSIBLE, SHARED_UNCOMPRESSED_NAME};
use crate::refimpl::rdata as rr;
use crate::refimpl::wire;

pub const X_HEADER: &str = "pointer-into-header";
pub const X_SELF: &str = "pointer-into-own-segment";
pub const X_RD_HEADER: &str = "rdata-pointer-into-header";
pub const X_RD_SELF: &str = "rdata-pointer-into-own-segment";
pub const X_NON1035: &str = "compressed-name-in-non-rfc1035-rdata";
pub const X_EDE_TEXT: &str = "extended-error-text-not-utf8";

/// E1/E2: the name at `off` is one the permissive reading of RFC 1035
/// accepts, but one of its pointers targets the 12-octet header (E1) or
/// the segment of the name it belongs to (E2) — neither is "a prior
/// occurrence of the same name" (RFC 1035 §4.1.4).
pub fn name_excl(msg: &[u8], off: usize, limit: usize) -> Option<&'static str> {
    match rr::read_name(msg, off, limit.min(msg.len())) {
        Ok((_, _, fl)) if fl.into_header => Some(X_HEADER),
        Ok((_, _, fl)) if fl.self_segment => Some(X_SELF),
        _ => None,
    }
}

/// True if the (supposedly uncompressed) name starting at `pos` reaches a
/// compression pointer before its root label, reading at most up to `end`.
pub fn plain_name_hits_pointer(msg: &[u8], mut pos: usize, end: usize) -> bool {
    let end = end.min(msg.len());
    let mut total = 0usize;
    while pos < end {
        let b = msg[pos];
        match b & 0xC0 {
            0x00 => {
                if b == 0 {
                    return false;
                }
                pos += 1 + b as usize;
                total += 1 + b as usize;
                if total > 255 {
                    return false;
                }
            }
            0xC0 => return true,
            _ => return false,
        }
    }
    false
}

/// Exclusions for the record starting at `off` (owner name, then RDATA).
pub fn record_excl(msg: &[u8], off: usize) -> Option<&'static str> {
    if let Some(x) = name_excl(msg, off, msg.len()) {
        return Some(x);
    }
    let Ok((rec, _)) = wire::record_at(msg, off, 0) else { return None };
    if SHARED_COMPRESSIBLE.contains(&rec.rtype) {
        if let Ok((_, fl)) = rr::normal_rdata(rec.rtype, msg, rec.rd_start, rec.rd_end, false) {
            if fl.into_header {
                return Some(X_RD_HEADER);
            }
            if fl.self_segment {
                return Some(X_RD_SELF);
            }
        }
    }
    // E3: RFC 3597 §4 — only the RFC 1035 types may carry compressed names;
    // decompressing others is a SHOULD for a fixed list and nothing for the
    // rest. The new API models these names as plain data.
    if let Some((_, noff)) = SHARED_UNCOMPRESSED_NAME.iter().find(|(t, _)| *t == rec.rtype) {
        if rec.rd_start + noff <= rec.rd_end && plain_name_hits_pointer(msg, rec.rd_start + noff, rec.rd_end) {
            return Some(X_NON1035);
        }
    }
    None
}
