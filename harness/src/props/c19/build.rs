//! Build scripts executed on both message builders; every output is read
//! by the OTHER codec and by the independent walker and compared with the
//! script.

use super::diff::{self, Item};
use super::view::*;
use crate::engine::*;
use crate::gen::name::{self as gn};
use crate::gen::rdata as grd;
use crate::gen::*;
use crate::refimpl::rdata as rr;
use crate::refimpl::wire;
use crate::{vensure, vfail};
use arbitrary::Unstructured;
use domain::base::iana::{Class, Opcode, Rcode, Rtype};
use domain::base::message_builder::{HashCompressor, StaticCompressor, TreeCompressor};
use domain::base::name::ParsedName;
use domain::base::rdata::{ParseAnyRecordData, UnknownRecordData};
use domain::base::wire::Composer;
use domain::base::{MessageBuilder as OBuilder, Ttl};
use domain::new::base::build::{MessageBuildError, MessageBuilder as NBuilder, NameCompressor};
use domain::new::base::name::{Name as NName, NameBuf, RevNameBuf};
use domain::new::base::wire::{ParseBytes, ParseBytesZC, SizePrefixed, U16};
use domain::new::base::{HeaderFlags, ParseRecordDataBytes, QClass, QType, Question as NQuestion, RClass, RType, Record as NRecord, TTL};
use domain::new::edns::{EdnsFlags, EdnsRecord};
use domain::new::rdata::{Opt as NOpt, RecordData as NRecordData};
use domain::rdata::AllRecordData;
use octseq::Parser;

/// Type used for the padding record (private-use range, unknown to both).
pub const PAD_TYPE: u16 = 65280;

#[derive(Clone, Debug, Hash)]
pub struct SItem {
    pub section: u8,
    pub owner: Labels,
    pub rtype: u16,
    pub class: u16,
    pub ttl: u32,
    /// valid, uncompressed RDATA
    pub rdata: Vec<u8>,
    /// new builder: push the owner as a `RevNameBuf` (true) or `NameBuf`
    pub rev_owner: bool,
    /// padding record: RDATA length is chosen at execution time so that the
    /// next item starts at offset 16384 - pad_delta
    pub pad_delta: Option<i32>,
}

#[derive(Clone, Debug, Hash)]
pub struct Script {
    pub id: u16,
    pub flags: u16,
    pub questions: Vec<(Labels, u16, u16, bool)>,
    pub items: Vec<SItem>,
    /// (udp size, ttl field, option octets)
    pub edns: Option<(u16, u32, Vec<u8>)>,
    /// 0 none, 1 static, 2 tree, 3 hash
    pub old_compressor: u8,
    pub limit: Option<usize>,
    /// new builder: the compressor was used for another message before
    pub reuse_compressor: bool,
    /// new builder: call truncate() before pushing item number n
    pub truncate_before: Option<usize>,
    pub crosses: bool,
    /// header operations executed through the builders' `header_mut()` in
    /// this order; `.0` = phase: 0 right after construction, 1 after the
    /// questions, 2 after the last push (non-decreasing)
    pub hdr_ops: Vec<(u8, HOp)>,
}

/// One header operation both builders offer (the new `HeaderFlags` has no
/// setter for the Z bit, so there is none here; the initial flag word may
/// carry it and every operation must preserve it).
#[derive(Clone, Copy, Debug, Hash, PartialEq, Eq)]
pub enum HOp {
    Id(u16),
    Qr(bool),
    Opcode(u8),
    Aa(bool),
    Tc(bool),
    Rd(bool),
    Ra(bool),
    Ad(bool),
    Cd(bool),
    Rcode(u8),
}

impl HOp {
    pub fn name(&self) -> &'static str {
        match self {
            HOp::Id(_) => "set_id",
            HOp::Qr(_) => "set_qr",
            HOp::Opcode(_) => "set_opcode",
            HOp::Aa(_) => "set_aa",
            HOp::Tc(_) => "set_tc",
            HOp::Rd(_) => "set_rd",
            HOp::Ra(_) => "set_ra",
            HOp::Ad(_) => "set_ad",
            HOp::Cd(_) => "set_cd",
            HOp::Rcode(_) => "set_rcode",
        }
    }
    /// The bits of the flag word the operation owns.
    pub fn mask(&self) -> u16 {
        match self {
            HOp::Id(_) => 0,
            HOp::Qr(_) => 0x8000,
            HOp::Opcode(_) => 0x7800,
            HOp::Aa(_) => 0x0400,
            HOp::Tc(_) => 0x0200,
            HOp::Rd(_) => 0x0100,
            HOp::Ra(_) => 0x0080,
            HOp::Ad(_) => 0x0020,
            HOp::Cd(_) => 0x0010,
            HOp::Rcode(_) => 0x000F,
        }
    }
    /// Reference model (RFC 1035 section 4.1.1 layout, AD/CD of RFC 2535):
    /// the operation replaces its own field and nothing else.
    pub fn model(&self, id: &mut u16, flags: &mut u16) {
        let bit = |f: &mut u16, pos: u32, v: bool| *f = (*f & !(1u16 << pos)) | ((v as u16) << pos);
        match *self {
            HOp::Id(v) => *id = v,
            HOp::Qr(v) => bit(flags, 15, v),
            HOp::Opcode(v) => *flags = (*flags & !0x7800) | (((v & 0xF) as u16) << 11),
            HOp::Aa(v) => bit(flags, 10, v),
            HOp::Tc(v) => bit(flags, 9, v),
            HOp::Rd(v) => bit(flags, 8, v),
            HOp::Ra(v) => bit(flags, 7, v),
            HOp::Ad(v) => bit(flags, 5, v),
            HOp::Cd(v) => bit(flags, 4, v),
            HOp::Rcode(v) => *flags = (*flags & !0x000F) | ((v & 0xF) as u16),
        }
    }
}

/// Names of the header fields in which two flag words differ.
pub fn flag_fields_differing(a: u16, b: u16) -> Vec<&'static str> {
    const F: &[(&str, u16)] = &[("QR", 0x8000), ("OPCODE", 0x7800), ("AA", 0x0400), ("TC", 0x0200), ("RD", 0x0100), ("RA", 0x0080), ("Z", 0x0040), ("AD", 0x0020), ("CD", 0x0010), ("RCODE", 0x000F)];
    F.iter().filter(|(_, m)| (a ^ b) & m != 0).map(|(n, _)| *n).collect()
}

/// 0-8 header operations in generated order, in non-decreasing phases.
fn header_ops(u: &mut Unstructured) -> Vec<(u8, HOp)> {
    let n = pick(u, 9);
    let mut ops = vec![];
    for _ in 0..n {
        let phase = pick(u, 3) as u8;
        let v = byte(u);
        let b = v & 1 == 1;
        let op = match pick(u, 12) {
            0 => HOp::Id(u16::from_be_bytes([v, v.wrapping_mul(31).wrapping_add(7)])),
            1 => HOp::Qr(b),
            // the opcode more often: it is the only multi-bit field that is
            // not at bit position 0
            2 | 10 | 11 => HOp::Opcode(v >> 4),
            3 => HOp::Aa(b),
            4 => HOp::Tc(b),
            5 => HOp::Rd(b),
            6 => HOp::Ra(b),
            7 => HOp::Ad(b),
            8 => HOp::Cd(b),
            _ => HOp::Rcode(v >> 4),
        };
        ops.push((phase, op));
    }
    ops.sort_by_key(|(p, _)| *p); // stable: the generated order survives inside a phase
    ops
}

const UNKNOWN_TYPES: &[u16] = &[99, 258, 1234, 65280, 65534, 32768, 11, 18, 40, 0];

/// A pool of names forming a tree (many shared suffixes), with case
/// variants, labels over a tiny alphabet, labels containing octets that
/// look like length octets, and names at the 255-octet limit.
pub fn name_tree(u: &mut Unstructured, n: usize) -> Vec<Labels> {
    let mut p: Vec<Labels> = vec![];
    let nroots = 1 + pick(u, 3);
    for _ in 0..nroots {
        p.push(match pick(u, 5) {
            0 => vec![],
            1 => vec![b"com".to_vec()],
            2 => vec![b"example".to_vec(), b"com".to_vec()],
            3 => vec![b"a".to_vec()],
            _ => {
                let l = 2 + pick(u, 30);
                gn::name_with_len(u, l, true)
            }
        });
    }
    let mut guard = 0;
    while p.len() < n && guard < 4 * n + 8 {
        guard += 1;
        // prefer recent names as parents (deep chains) half of the time
        let pi = if flag(u) { p.len() - 1 - pick(u, p.len().min(4)) } else { pick(u, p.len()) };
        let parent = p[pi].clone();
        let room = 255usize.saturating_sub(gn::wire_len(&parent) + 1).min(63);
        let cand: Labels = match pick(u, 13) {
            0 if room >= 3 => {
                // counter-derived child: keeps large pools diverse when the
                // input octets are used up (big structures come from
                // repetition, not from long inputs)
                let mut c = p[(guard * 7) % p.len()].clone();
                if gn::wire_len(&c) + 4 > 255 {
                    c = parent.clone();
                }
                let g = guard as u32;
                c.insert(0, vec![b'n', b'a' + (g % 26) as u8, b'a' + ((g / 26) % 26) as u8]);
                c
            }
            12 => {
                if !parent.is_empty() && chance(u, 110) {
                    // "bit-5 twin": one non-letter octet differs only in bit 5
                    // (`_`/DEL, `-`/CR, `1`/0x11 ...) — equal under a sloppy
                    // `| 0x20` case fold, different names for DNS
                    let mut c = parent.clone();
                    let li = pick(u, c.len());
                    let bi = pick(u, c[li].len());
                    if c[li][bi].is_ascii_alphabetic() {
                        c[li][bi] = pickb(u, b"_-0123456789@[");
                        if gn::wire_len(&c) <= 255 {
                            p.push(c.clone());
                        }
                    }
                    c[li][bi] ^= 0x20;
                    c
                } else {
                    gn::swap_case(&parent, u)
                }
            }
            10 | 11 if !parent.is_empty() => {
                // label-boundary variant: the first label swallows the wire
                // form of the following one or two labels (`a.b.c` ->
                // `x\001a\001b.c`), so the octets of the two names end alike
                // while their label structure differs
                let k = (1 + pick(u, 2)).min(parent.len());
                let mut first: Vec<u8> = (0..pick(u, 3)).map(|_| pickb(u, b"xab")).collect();
                // sometimes the swallowed length octet is replaced by the
                // printable octet that differs from it only in bit 5
                let or20 = chance(u, 70);
                for l in &parent[..k] {
                    first.push(if or20 && l.len() < 32 { l.len() as u8 | 0x20 } else { l.len() as u8 });
                    first.extend_from_slice(l);
                }
                if first.is_empty() || first.len() > 63 {
                    continue;
                }
                let mut c = vec![first];
                c.extend_from_slice(&parent[k..]);
                c
            }
            1 if room >= 1 => {
                // fill up to the 255-octet limit below this parent
                let mut c = parent.clone();
                let mut len = gn::wire_len(&c);
                while len + 2 <= 255 {
                    let l = (255 - len - 1).min(63);
                    let l = if l > 4 && chance(u, 60) { 1 + pick(u, l) } else { l };
                    c.insert(0, (0..l).map(|_| pickb(u, b"xyz")).collect());
                    len += l + 1;
                }
                c
            }
            _ if room >= 1 => {
                let label: Vec<u8> = match pick(u, 6) {
                    0 | 1 => (0..1 + pick(u, room.min(3))).map(|_| pickb(u, b"ab")).collect(),
                    2 => (0..1 + pick(u, room.min(5))).map(|_| pickb(u, b"ab\x01\x02\x03\x04\x00")).collect(),
                    3 => (0..room.min(40 + pick(u, 24))).map(|_| pickb(u, b"lmn")).collect(),
                    _ => gn::label(u, room.min(10), true),
                };
                let mut c = parent.clone();
                c.insert(0, label);
                c
            }
            _ => continue,
        };
        if gn::wire_len(&cand) <= 255 {
            p.push(cand);
        }
    }
    p
}

/// true with probability about num/256; false once the input is exhausted
/// (so that exhausted inputs decode to the plain variant of a script).
fn rare(u: &mut Unstructured, num: u8) -> bool {
    byte(u) > 255 - num
}

/// RDATA that is valid for its type also under the stricter rules both
/// codecs enforce after the C19 fixes: TXT has at least one string
/// (RFC 1035 §3.3.14), an NSEC bitmap has at least one window (RFC 4034
/// §4.1.2), a ZONEMD digest has at least 12 octets (RFC 8976 §2.2.4).
pub fn valid_rdata(u: &mut Unstructured, rtype: u16, pool: &[Labels]) -> Vec<u8> {
    let mut rd = grd::rdata(u, rtype, pool, grd::Opts { plain_names: true, max_blob: 40 });
    match rtype {
        rr::TXT if rd.is_empty() => rd.push(0),
        rr::NSEC => {
            if let Some((_, len, _, _)) = rr::name_spans(rr::NSEC, &rd).first().copied() {
                if rd.len() == len {
                    rd.extend_from_slice(&[0, 6, 0, 0, 0, 0, 0, 3]); // RRSIG NSEC
                }
            }
        }
        rr::ZONEMD => {
            while rd.len() < 6 + 12 {
                rd.push(byte(u));
            }
        }
        _ => {}
    }
    rd
}

/// RDATA of a type with compressible names whose names are taken from the
/// pool by counters.
fn wide_rdata(rtype: u16, i: usize, stride: usize, pool: &[Labels]) -> Vec<u8> {
    let a = gn::to_wire(&pool[(i * stride + 1 + i / 3) % pool.len()]);
    let b = gn::to_wire(&pool[(i * stride + 2 + i / 5) % pool.len()]);
    match rtype {
        rr::MX => [&[0u8, (i % 250) as u8][..], &a[..]].concat(),
        rr::SOA => [&a[..], &b[..], &[0u8; 20][..]].concat(),
        rr::RP => [&a[..], &b[..]].concat(),
        _ => a, // NS CNAME PTR
    }
}

fn shared_rtype(u: &mut Unstructured) -> u16 {
    if rare(u, 24) {
        return UNKNOWN_TYPES[pick(u, UNKNOWN_TYPES.len())];
    }
    // names-heavy types more often (they exercise the compressor)
    match pick(u, 3) {
        0 => SHARED_COMPRESSIBLE[pick(u, SHARED_COMPRESSIBLE.len())],
        _ => loop {
            let t = SHARED[pick(u, SHARED.len())];
            if t != rr::OPT {
                break t;
            }
        },
    }
}

pub fn script(u: &mut Unstructured, thorough: bool) -> Script {
    // mode choices first, so that they are made from real input octets
    let size_class = pick(u, 8);
    let crosses = rare(u, if thorough { 110 } else { 80 });
    let old_compressor_choice = pick(u, 4) as u8;
    let want_limit = rare(u, 40);
    let limit_frac = byte(u) as usize;
    let reuse_compressor = rare(u, 40);
    let want_truncate = rare(u, 10);
    let want_edns = rare(u, 100);
    let stride = pick(u, 4);
    let wide = size_class >= 3 && stride > 0;
    let npool = match size_class {
        0..=2 => 2 + pick(u, 6),
        3..=5 => 8 + pick(u, 30),
        _ => 30 + pick(u, 50),
    };
    let pool = name_tree(u, npool);
    let nitems = match size_class {
        0..=2 => pick(u, 8),
        3..=5 => 4 + pick(u, 40),
        _ => 30 + pick(u, if thorough { 200 } else { 90 }),
    };
    let nq = [1usize, 1, 1, 0, 2, 1, 1, 3][pick(u, 8)];
    let mut questions = vec![];
    for _ in 0..nq {
        questions.push((pool[pick(u, pool.len())].clone(), shared_rtype(u), crate::gen::message::class(u), flag(u)));
    }
    let pad_at = if crosses { Some(pick(u, nitems + 1)) } else { None };
    let mut items = vec![];
    let mut section = 1u8;
    for i in 0..nitems + 1 {
        if section < 3 && rare(u, 40) {
            section += 1;
        }
        if Some(i) == pad_at {
            let delta: i32 = match pick(u, if thorough { 7 } else { 6 }) {
                // thorough tier: pad up to the 65535-octet limit of a message
                6 => -(40000 + pick(u, 9200) as i32),
                0 => pick(u, 14) as i32,           // name starts in the last dozen addressable octets
                1 => 12 + pick(u, 16) as i32,     // around contents offset 16372 (message offset 16384)
                2 => -(pick(u, 30) as i32),       // just beyond
                3 => pick(u, 300) as i32,         // a long name straddles the limit
                _ => pick(u, 600) as i32 - 100,
            };
            items.push(SItem { section, owner: vec![], rtype: PAD_TYPE, class: 1, ttl: 0, rdata: vec![], rev_owner: flag(u), pad_delta: Some(delta) });
        }
        if i == nitems {
            break;
        }
        let rtype = shared_rtype(u);
        // `stride` walks the pool so that scripts with many items use many
        // distinct names even when the input octets are used up
        let owner = pool[(i * stride + pick(u, pool.len())) % pool.len()].clone();
        let rdata = if wide && SHARED_COMPRESSIBLE.contains(&rtype) && !rare(u, 64) {
            wide_rdata(rtype, i, stride, &pool)
        } else {
            valid_rdata(u, rtype, &pool)
        };
        items.push(SItem { section, owner, rtype, class: crate::gen::message::class(u), ttl: crate::gen::message::ttl(u), rdata, rev_owner: flag(u), pad_delta: None });
    }
    let edns = if want_edns {
        let rd = grd::rdata(u, rr::OPT, &[], grd::Opts::default());
        Some(([0u16, 512, 1232, 4096, 65535][pick(u, 5)], if flag(u) { 0x0000_8000 } else { u32_(u) }, rd))
    } else {
        None
    };
    let old_compressor = if crosses { 0 } else { old_compressor_choice };
    let limit = if want_limit {
        let est: usize = 12 + items.iter().map(|i| gn::wire_len(&i.owner) + 10 + i.rdata.len()).sum::<usize>();
        Some(12 + (est.min(65000) * limit_frac) / 255)
    } else {
        None
    };
    let truncate_before = if want_truncate && !items.is_empty() { Some(pick(u, items.len())) } else { None };
    let id = u16_(u);
    let flags = if flag(u) { 0x8400 } else { u16_(u) };
    // drawn last: the decoding of everything above (and so of the stored
    // replay files) is unchanged
    let hdr_ops = header_ops(u);
    Script { id, flags, questions, items, edns, old_compressor, limit, reuse_compressor, truncate_before, crosses, hdr_ops }
}

/// What a builder's output must contain.
#[derive(Clone, Debug)]
pub struct Expect {
    pub id: u16,
    /// header flag word, with TC set when the script called truncate()
    pub flags: u16,
    pub questions: Vec<(Labels, u16, u16)>,
    /// (section, owner, type, class, ttl, uncompressed rdata)
    pub records: Vec<(u8, Labels, u16, u16, u32, Vec<u8>)>,
    pub failed_pushes: usize,
    pub tc: bool,
}

pub struct Built {
    pub bytes: Vec<u8>,
    pub expect: Expect,
}

fn pad_len(cur_len: usize, owner_wire: usize, delta: i32) -> usize {
    // next item starts at cur_len + owner + 10 + S  ==  16384 - delta
    let target = 16384i64 - delta as i64;
    let s = target - cur_len as i64 - owner_wire as i64 - 10;
    s.clamp(0, 60000) as usize
}

//------------ new builder -------------------------------------------------------

fn nname(l: &Labels) -> NameBuf {
    NameBuf::parse_bytes(&gn::to_wire(l)).expect("generated name is valid for the new API")
}
fn nrevname(l: &Labels) -> RevNameBuf {
    RevNameBuf::parse_bytes(&gn::to_wire(l)).expect("generated name is valid for the new API")
}

pub fn build_new(s: &Script, ctx: &mut Ctx) -> Result<Built, Violation> {
    let cap = 65535usize;
    let mut buffer = vec![0u8; cap];
    let mut compressor = NameCompressor::default();
    if s.reuse_compressor {
        // A first message built with the same compressor: names of the pool
        // at other offsets. `MessageBuilder::new` documents that it resets
        // the compressor.
        let mut scratch = vec![0u8; 2048];
        let mut b = NBuilder::new(&mut scratch, &mut compressor, U16::new(1), HeaderFlags::default());
        for (i, it) in s.items.iter().take(12).enumerate() {
            let nb = nname(&it.owner);
            let q = NQuestion { qname: &*nb, qtype: QType { code: U16::new(1) }, qclass: QClass { code: U16::new(1) } };
            let _ = b.push_question(&q);
            let _ = i;
        }
        let _ = b.finish();
        ctx.class("new:compressor-reused");
    }
    let flags = HeaderFlags::parse_bytes(&s.flags.to_be_bytes()).expect("two octets");
    let mut b = NBuilder::new(&mut buffer, &mut compressor, U16::new(s.id), flags);
    if let Some(l) = s.limit {
        vensure!(b.limit_to(l).is_ok(), "build:new:limit_to-failed-on-empty-message", "limit_to({l}) failed on an empty message");
    }
    let mut ex = Expect { id: s.id, flags: s.flags, questions: vec![], records: vec![], failed_pushes: 0, tc: s.flags & 0x0200 != 0 };
    // header operations of one phase: through `header_mut()`, each checked
    // against the model right away (raw bits and every getter)
    macro_rules! new_hdr_phase {
        ($phase:expr) => {
            for (k, (_, op)) in s.hdr_ops.iter().enumerate().filter(|(_, (p, _))| *p == $phase) {
                let before = ex.flags;
                {
                    let h = b.header_mut();
                    match *op {
                        HOp::Id(v) => h.id = U16::new(v),
                        HOp::Qr(v) => drop(h.flags.set_qr(v)),
                        HOp::Opcode(v) => drop(h.flags.set_opcode(v)),
                        HOp::Aa(v) => drop(h.flags.set_aa(v)),
                        HOp::Tc(v) => drop(h.flags.set_tc(v)),
                        HOp::Rd(v) => drop(h.flags.set_rd(v)),
                        HOp::Ra(v) => drop(h.flags.set_ra(v)),
                        HOp::Ad(v) => drop(h.flags.set_ad(v)),
                        HOp::Cd(v) => drop(h.flags.set_cd(v)),
                        HOp::Rcode(v) => drop(h.flags.set_rcode(v)),
                    }
                }
                op.model(&mut ex.id, &mut ex.flags);
                ex.tc = ex.flags & 0x0200 != 0;
                let h = b.header();
                let (gid, got) = (h.id.get(), h.flags.bits());
                vensure!(gid == ex.id, format!("build:new:header-op:{}:id-differs", op.name()), "header operation {k} {op:?} (phase {}): id is {gid:04x}, model {:04x}; all operations: {:?}", $phase, ex.id, s.hdr_ops);
                vensure!(got == ex.flags, format!("build:new:header-op:{}:flag-fields-differ", op.name()), "header operation {k} {op:?} (phase {}) on flags {before:04x}: builder has {got:04x}, model {:04x}; fields that differ: {:?}; all operations: {:?}", $phase, ex.flags, flag_fields_differing(got, ex.flags), s.hdr_ops);
                let f = h.flags;
                let getters = ((f.qr() as u16) << 15) | ((f.opcode() as u16 & 0xF) << 11) | ((f.aa() as u16) << 10) | ((f.tc() as u16) << 9) | ((f.rd() as u16) << 8) | ((f.ra() as u16) << 7) | ((f.ad() as u16) << 5) | ((f.cd() as u16) << 4) | (f.rcode() as u16 & 0xF);
                vensure!(f.opcode() < 16 && f.rcode() < 16 && getters == ex.flags & !0x0040, format!("build:new:header-op:{}:getters-differ", op.name()), "after header operation {k} {op:?}: getters give {getters:04x} (opcode {}, rcode {}), model {:04x}; fields that differ: {:?}", f.opcode(), f.rcode(), ex.flags, flag_fields_differing(getters, ex.flags & !0x0040));
            }
        };
    }
    new_hdr_phase!(0);
    for (name, qt, qc, rev) in &s.questions {
        let r = if *rev {
            b.push_question(&NQuestion { qname: nrevname(name), qtype: QType { code: U16::new(*qt) }, qclass: QClass { code: U16::new(*qc) } })
        } else {
            let nb = nname(name);
            b.push_question(&NQuestion { qname: &*nb, qtype: QType { code: U16::new(*qt) }, qclass: QClass { code: U16::new(*qc) } })
        };
        match r {
            Ok(()) => ex.questions.push((name.clone(), *qt, *qc)),
            Err(MessageBuildError::Truncated(_)) => ex.failed_pushes += 1,
            Err(MessageBuildError::Misplaced) => vfail!("build:new:question-misplaced", "first pushes reported Misplaced"),
        }
    }
    new_hdr_phase!(1);
    for (i, it) in s.items.iter().enumerate() {
        if s.truncate_before == Some(i) {
            b.truncate();
            ex.questions.clear();
            ex.records.clear();
            ex.tc = true;
            ex.flags |= 0x0200;
            ctx.class("new:truncate-called");
        }
        let rdata_store;
        let rdata: &[u8] = if let Some(d) = it.pad_delta {
            let cur = 12 + b.message().contents.len();
            rdata_store = vec![0u8; pad_len(cur, gn::wire_len(&it.owner), d)];
            &rdata_store
        } else {
            &it.rdata
        };
        let data = match NRecordData::<&NName>::parse_record_data_bytes(rdata, RType::from(it.rtype)) {
            Ok(d) => d,
            Err(_) => vfail!(format!("build:new:valid-rdata-rejected:{}", rr::mnemonic(it.rtype)), "the new API rejects valid uncompressed RDATA of type {}: {}", it.rtype, diff::hex(rdata)),
        };
        let res = if it.rev_owner {
            let rec = NRecord { rname: nrevname(&it.owner), rtype: RType::from(it.rtype), rclass: RClass::from(it.class), ttl: TTL::from(it.ttl), rdata: data };
            match it.section {
                1 => b.push_answer(&rec),
                2 => b.push_authority(&rec),
                _ => b.push_additional(&rec).map_err(MessageBuildError::Truncated),
            }
        } else {
            let nb = nname(&it.owner);
            let rec = NRecord { rname: &*nb, rtype: RType::from(it.rtype), rclass: RClass::from(it.class), ttl: TTL::from(it.ttl), rdata: data };
            match it.section {
                1 => b.push_answer(&rec),
                2 => b.push_authority(&rec),
                _ => b.push_additional(&rec).map_err(MessageBuildError::Truncated),
            }
        };
        match res {
            Ok(()) => ex.records.push((it.section, it.owner.clone(), it.rtype, it.class, it.ttl, rdata.to_vec())),
            Err(MessageBuildError::Truncated(_)) => ex.failed_pushes += 1,
            Err(MessageBuildError::Misplaced) => vfail!("build:new:record-misplaced", "item {i} pushed in section order reported Misplaced"),
        }
    }
    if let Some((udp, ttl, rd)) = &s.edns {
        let opt = match NOpt::parse_bytes_by_ref(rd) {
            Ok(o) => o,
            Err(_) => vfail!("build:new:valid-rdata-rejected:OPT", "the new API rejects valid OPT RDATA {}", diff::hex(rd)),
        };
        let t = ttl.to_be_bytes();
        let e = EdnsRecord { max_udp_payload: U16::new(*udp), ext_rcode: t[0], version: t[1], flags: EdnsFlags::parse_bytes(&t[2..4]).expect("two octets"), data: SizePrefixed::<U16, &NOpt>::new(opt) };
        match b.push_edns(&e) {
            Ok(()) => ex.records.push((3, vec![], rr::OPT, *udp, *ttl, rd.clone())),
            Err(_) => ex.failed_pushes += 1,
        }
    }
    new_hdr_phase!(2);
    let msg = b.finish();
    let n = 12 + msg.contents.len();
    drop(msg);
    buffer.truncate(n);
    if let Some(l) = s.limit {
        vensure!(buffer.len() <= l.max(12), "build:new:limit-exceeded", "limit {l}, built {}", buffer.len());
    }
    Ok(Built { bytes: buffer, expect: ex })
}

//------------ old builder -------------------------------------------------------

fn old_build_on<T: Composer + AsRef<[u8]>>(target: T, s: &Script) -> Result<Built, Violation> {
    let mut mb = match OBuilder::from_target(target) {
        Ok(m) => m,
        Err(_) => vfail!("build:old:from_target-failed", "from_target failed"),
    };
    {
        let h = mb.header_mut();
        h.set_id(s.id);
        let f = s.flags;
        h.set_qr(f & 0x8000 != 0);
        h.set_opcode(Opcode::from_int(((f >> 11) & 0xF) as u8));
        h.set_aa(f & 0x0400 != 0);
        h.set_tc(f & 0x0200 != 0);
        h.set_rd(f & 0x0100 != 0);
        h.set_ra(f & 0x0080 != 0);
        h.set_z(f & 0x0040 != 0);
        h.set_ad(f & 0x0020 != 0);
        h.set_cd(f & 0x0010 != 0);
        h.set_rcode(Rcode::masked_from_int((f & 0xF) as u8));
    }
    if let Some(l) = s.limit {
        mb.set_push_limit(l.max(12));
    }
    let mut ex = Expect { id: s.id, flags: s.flags, questions: vec![], records: vec![], failed_pushes: 0, tc: s.flags & 0x0200 != 0 };
    macro_rules! old_hdr_phase {
        ($builder:expr, $phase:expr) => {
            for (k, (_, op)) in s.hdr_ops.iter().enumerate().filter(|(_, (p, _))| *p == $phase) {
                let before = ex.flags;
                {
                    let h = $builder.header_mut();
                    match *op {
                        HOp::Id(v) => h.set_id(v),
                        HOp::Qr(v) => h.set_qr(v),
                        HOp::Opcode(v) => h.set_opcode(Opcode::from_int(v)),
                        HOp::Aa(v) => h.set_aa(v),
                        HOp::Tc(v) => h.set_tc(v),
                        HOp::Rd(v) => h.set_rd(v),
                        HOp::Ra(v) => h.set_ra(v),
                        HOp::Ad(v) => h.set_ad(v),
                        HOp::Cd(v) => h.set_cd(v),
                        HOp::Rcode(v) => h.set_rcode(Rcode::masked_from_int(v)),
                    }
                }
                op.model(&mut ex.id, &mut ex.flags);
                ex.tc = ex.flags & 0x0200 != 0;
                let h = $builder.header();
                let raw = h.as_slice();
                let (gid, got) = (u16::from_be_bytes([raw[0], raw[1]]), u16::from_be_bytes([raw[2], raw[3]]));
                vensure!(gid == ex.id && h.id() == ex.id, format!("build:old:header-op:{}:id-differs", op.name()), "header operation {k} {op:?} (phase {}): id is {gid:04x}, model {:04x}; all operations: {:?}", $phase, ex.id, s.hdr_ops);
                vensure!(got == ex.flags, format!("build:old:header-op:{}:flag-fields-differ", op.name()), "header operation {k} {op:?} (phase {}) on flags {before:04x}: builder has {got:04x}, model {:04x}; fields that differ: {:?}; all operations: {:?}", $phase, ex.flags, flag_fields_differing(got, ex.flags), s.hdr_ops);
                let getters = ((h.qr() as u16) << 15) | ((h.opcode().to_int() as u16 & 0xF) << 11) | ((h.aa() as u16) << 10) | ((h.tc() as u16) << 9) | ((h.rd() as u16) << 8) | ((h.ra() as u16) << 7) | ((h.z() as u16) << 6) | ((h.ad() as u16) << 5) | ((h.cd() as u16) << 4) | (h.rcode().to_int() as u16 & 0xF);
                vensure!(h.opcode().to_int() < 16 && h.rcode().to_int() < 16 && getters == ex.flags, format!("build:old:header-op:{}:getters-differ", op.name()), "after header operation {k} {op:?}: getters give {getters:04x}, model {:04x}; fields that differ: {:?}", ex.flags, flag_fields_differing(getters, ex.flags));
            }
        };
    }
    old_hdr_phase!(mb, 0);
    let mut qb = mb.question();
    for (name, qt, qc, _) in &s.questions {
        match qb.push((gn::to_name(name), Rtype::from_int(*qt), Class::from_int(*qc))) {
            Ok(()) => ex.questions.push((name.clone(), *qt, *qc)),
            Err(_) => ex.failed_pushes += 1,
        }
    }
    // one closure per record, applied to whichever section builder is open
    macro_rules! push_items {
        ($builder:expr, $sec:expr) => {
            for it in s.items.iter().filter(|i| i.section == $sec) {
                let rdata_store;
                let rdata: &[u8] = if let Some(d) = it.pad_delta {
                    let cur = $builder.as_slice().len();
                    rdata_store = vec![0u8; pad_len(cur, gn::wire_len(&it.owner), d)];
                    &rdata_store
                } else {
                    &it.rdata
                };
                let owner = gn::to_name(&it.owner);
                let res = if is_shared(it.rtype) {
                    let mut p = Parser::from_ref(rdata);
                    let data = match AllRecordData::<&[u8], ParsedName<&[u8]>>::parse_any_rdata(Rtype::from_int(it.rtype), &mut p) {
                        Ok(d) if p.remaining() == 0 => d,
                        _ => vfail!(format!("build:old:valid-rdata-rejected:{}", rr::mnemonic(it.rtype)), "the established API rejects valid uncompressed RDATA of type {}: {}", it.rtype, diff::hex(rdata)),
                    };
                    $builder.push((owner, Class::from_int(it.class), Ttl::from_secs(it.ttl), data))
                } else {
                    let data = match UnknownRecordData::from_octets(Rtype::from_int(it.rtype), rdata) {
                        Ok(d) => d,
                        Err(_) => vfail!("build:old:unknown-rdata-rejected", "UnknownRecordData::from_octets failed for {} octets", rdata.len()),
                    };
                    $builder.push((owner, Class::from_int(it.class), Ttl::from_secs(it.ttl), data))
                };
                match res {
                    Ok(()) => ex.records.push((it.section, it.owner.clone(), it.rtype, it.class, it.ttl, rdata.to_vec())),
                    Err(_) => ex.failed_pushes += 1,
                }
            }
        };
    }
    old_hdr_phase!(qb, 1);
    let mut an = qb.answer();
    push_items!(an, 1);
    let mut au = an.authority();
    push_items!(au, 2);
    let mut ad = au.additional();
    push_items!(ad, 3);
    if let Some((udp, ttl, rd)) = &s.edns {
        let mut p = Parser::from_ref(&rd[..]);
        let data = match AllRecordData::<&[u8], ParsedName<&[u8]>>::parse_any_rdata(Rtype::OPT, &mut p) {
            Ok(d) if p.remaining() == 0 => d,
            _ => vfail!("build:old:valid-rdata-rejected:OPT", "the established API rejects valid OPT RDATA {}", diff::hex(rd)),
        };
        match ad.push((domain::base::Name::<Vec<u8>>::root_vec(), Class::from_int(*udp), Ttl::from_secs(*ttl), data)) {
            Ok(()) => ex.records.push((3, vec![], rr::OPT, *udp, *ttl, rd.clone())),
            Err(_) => ex.failed_pushes += 1,
        }
    }
    old_hdr_phase!(ad, 2);
    let bytes = ad.as_slice().to_vec();
    Ok(Built { bytes, expect: ex })
}

pub fn build_old(s: &Script, compressor: u8) -> Result<Built, Violation> {
    match compressor {
        1 => old_build_on(StaticCompressor::new(Vec::new()), s),
        2 => old_build_on(TreeCompressor::new(Vec::new()), s),
        3 => old_build_on(HashCompressor::new(Vec::new()), s),
        _ => old_build_on(Vec::new(), s),
    }
}

//------------ checking an output --------------------------------------------------

fn eq_names_ci(a: &Labels, b: &Labels) -> bool {
    a.len() == b.len() && a.iter().zip(b.iter()).all(|(x, y)| x.eq_ignore_ascii_case(y))
}

fn canon(rtype: u16, rd: &[u8]) -> Vec<u8> {
    rr::canonical_rdata(rtype, rd).unwrap_or_else(|_| rd.to_vec())
}

pub struct OutStats {
    pub pointers: usize,
    pub max_pointer_target: usize,
    pub names_after_limit: usize,
}

/// `who` = "new" | "old": which builder produced `out`.
pub fn check_output(who: &str, out: &Built, ctx: &mut Ctx) -> Result<OutStats, Violation> {
    let msg = &out.bytes;
    let ex = &out.expect;
    let mut st = OutStats { pointers: 0, max_pointer_target: 0, names_after_limit: 0 };
    vensure!(msg.len() >= 12, format!("build:{who}:short-output"), "{} octets", msg.len());
    // (1) independent walker
    let w = wire::walk(msg).unwrap();
    vensure!(w.error.is_none(), format!("build:{who}:walker-rejects-output"), "walker error {:?} after {} questions {} records; expected {} questions {} records; output {} octets", w.error, w.questions.len(), w.records.len(), ex.questions.len(), ex.records.len(), msg.len());
    vensure!(w.end == msg.len(), format!("build:{who}:trailing-octets"), "items end at {} but the output has {} octets", w.end, msg.len());
    vensure!(w.questions.len() == ex.questions.len() && w.records.len() == ex.records.len(), format!("build:{who}:item-count"), "output has {}+{} items, script pushed {}+{} successfully", w.questions.len(), w.records.len(), ex.questions.len(), ex.records.len());
    for (i, (wq, eq)) in w.questions.iter().zip(ex.questions.iter()).enumerate() {
        vensure!(eq_names_ci(&wq.name, &eq.0), format!("build:{who}:walker:question-name-differs"), "question {i}: pushed {} reads back {}", gn::show(&eq.0), gn::show(&wq.name));
        vensure!(wq.qtype == eq.1 && wq.qclass == eq.2, format!("build:{who}:walker:question-fields-differ"), "question {i}");
        audit_name(who, msg, wq.start, msg.len(), &mut st)?;
    }
    for (i, (wr, er)) in w.records.iter().zip(ex.records.iter()).enumerate() {
        let owner = match &wr.owner {
            Ok(o) => o,
            Err(e) => vfail!(format!("build:{who}:walker:owner-unreadable"), "record {i} at {}: {e:?}; pushed {}", wr.start, gn::show(&er.1)),
        };
        vensure!(eq_names_ci(owner, &er.1), format!("build:{who}:walker:owner-differs"), "record {i} at offset {}: pushed owner {} but the output decompresses to {}", wr.start, gn::show(&er.1), gn::show(owner));
        vensure!(wr.section == er.0 && wr.rtype == er.2 && wr.class == er.3 && wr.ttl == er.4, format!("build:{who}:walker:record-fields-differ"), "record {i}: pushed {:?} read {:?}", (er.0, er.2, er.3, er.4), (wr.section, wr.rtype, wr.class, wr.ttl));
        audit_name(who, msg, wr.start, msg.len(), &mut st)?;
        if wr.start >= 0x4000 {
            st.names_after_limit += 1;
        }
        match rr::normal_rdata(wr.rtype, msg, wr.rd_start, wr.rd_end, true) {
            Ok((nf, fl)) => {
                vensure!(nf == canon(er.2, &er.5), format!("build:{who}:walker:rdata-differs:{}", rr::mnemonic(er.2)), "record {i} at {}: pushed RDATA {} reads back (names decompressed, lower-cased) {}", wr.start, diff::hex(&canon(er.2, &er.5)), diff::hex(&nf));
                vensure!(!fl.into_header && !fl.self_segment, format!("build:{who}:rdata-pointer-not-to-prior-name"), "record {i} at {}: a pointer inside RDATA targets the header or its own segment", wr.start);
                st.pointers += fl.pointers as usize;
            }
            Err(e) => vfail!(format!("build:{who}:walker:rdata-unreadable:{}", rr::mnemonic(er.2)), "record {i} at {}: {e:?}; pushed {}", wr.start, diff::hex(&er.5)),
        }
    }
    // header
    vensure!(w.header.id == ex.id && w.header.flags == ex.flags, format!("build:{who}:header-differs"), "script id={:04x} flags={:04x}, output id={:04x} flags={:04x}; flag fields that differ: {:?}", ex.id, ex.flags, w.header.id, w.header.flags, flag_fields_differing(ex.flags, w.header.flags));
    // (2) the OTHER codec (and, for classification, the producing one)
    let other_is_new = who == "old";
    let om = domain::base::Message::from_slice(msg).map_err(|_| Violation::new(format!("build:{who}:old-reader-rejects-header"), "short"))?;
    let read = if other_is_new { diff::new_walk(msg)? } else { diff::old_walk(om)? };
    let reader = if other_is_new { "new" } else { "old" };
    let mut qi = 0usize;
    let mut ri = 0usize;
    for (k, it) in read.iter().enumerate() {
        match it {
            Err(rej) => vfail!(format!("build:{who}:{reader}-reader-rejects:{}", rej.layer.tag()), "item {k} of the message built by the {who} builder is rejected by the {reader} codec at layer {:?} ({}); walker accepted everything", rej.layer, rej.why),
            Ok((Item::Q(q), _)) => {
                let Some(eq) = ex.questions.get(qi) else { vfail!(format!("build:{who}:{reader}-reader-extra-question"), "item {k}") };
                vensure!(eq_names_ci(&q.name, &eq.0) && q.qtype == eq.1 && q.qclass == eq.2, format!("build:{who}:{reader}-reader:question-differs"), "question {qi}: pushed {:?} read {q:?}", eq);
                qi += 1;
            }
            Ok((Item::R(sec, r), _)) => {
                let Some(er) = ex.records.get(ri) else { vfail!(format!("build:{who}:{reader}-reader-extra-record"), "item {k}") };
                vensure!(eq_names_ci(&r.owner, &er.1), format!("build:{who}:{reader}-reader:owner-differs"), "record {ri}: pushed {} read {}", gn::show(&er.1), gn::show(&r.owner));
                vensure!(*sec == er.0 && r.rtype == er.2 && r.class == er.3 && r.ttl == er.4, format!("build:{who}:{reader}-reader:record-fields-differ"), "record {ri}: pushed {:?} read {:?}", (er.0, er.2, er.3, er.4), (sec, r.rtype, r.class, r.ttl));
                vensure!(canon(r.rtype, r.rd.bytes()) == canon(er.2, &er.5), format!("build:{who}:{reader}-reader:rdata-differs:{}", rr::mnemonic(er.2)), "record {ri}: pushed {} read {}", diff::hex(&er.5), diff::hex(r.rd.bytes()));
                ri += 1;
            }
        }
    }
    vensure!(qi == ex.questions.len() && ri == ex.records.len(), format!("build:{who}:{reader}-reader:item-count"), "{reader} codec read {qi}+{ri} items, script pushed {}+{}", ex.questions.len(), ex.records.len());
    // (3) both codecs against each other on this output
    let d = diff::diff_message(msg, ctx)?;
    vensure!(d.excluded.is_none(), format!("build:{who}:output-hits-exclusion"), "a built message contains a construct excluded from the differential: {:?}", d.excluded);
    vensure!(d.agree_reject.is_none(), format!("build:{who}:both-readers-reject"), "both codecs reject part of a built message");
    Ok(st)
}

/// Every pointer met while decompressing the name at `pos` must point
/// strictly backwards, not into the header, not into the segment it
/// belongs to.
fn audit_name(who: &str, msg: &[u8], pos: usize, limit: usize, st: &mut OutStats) -> CaseResult {
    // follow by hand to record the targets
    let mut cur = pos;
    let mut hops = 0;
    loop {
        let Some(&b) = msg.get(cur) else { break };
        match b & 0xC0 {
            0 => {
                if b == 0 {
                    break;
                }
                cur += 1 + b as usize;
            }
            0xC0 => {
                let Some(&lo) = msg.get(cur + 1) else { break };
                let t = (((b & 0x3F) as usize) << 8) | lo as usize;
                st.pointers += 1;
                st.max_pointer_target = st.max_pointer_target.max(t);
                vensure!(t < cur, format!("build:{who}:pointer-not-backwards"), "pointer at {cur} targets {t}");
                vensure!(t >= 12, format!("build:{who}:pointer-into-header"), "pointer at {cur} targets {t}");
                cur = t;
                hops += 1;
                if hops > 130 {
                    break;
                }
            }
            _ => break,
        }
    }
    match rr::read_name(msg, pos, limit) {
        Ok((_, _, fl)) => {
            vensure!(!fl.self_segment, format!("build:{who}:pointer-into-own-segment"), "name at {pos}");
        }
        Err(e) => vfail!(format!("build:{who}:name-unreadable"), "name at {pos}: {e:?}"),
    }
    Ok(())
}

pub fn show_script(s: &Script) -> String {
    let mut o = format!("id={} flags={:04x} old_compressor={} limit={:?} reuse_compressor={} truncate_before={:?}\n", s.id, s.flags, s.old_compressor, s.limit, s.reuse_compressor, s.truncate_before);
    if !s.hdr_ops.is_empty() {
        o.push_str(&format!("  header operations (phase, op): {:?}\n", s.hdr_ops));
    }
    for q in &s.questions {
        o.push_str(&format!("  Q {} type={} class={} rev={}\n", gn::show(&q.0), q.1, q.2, q.3));
    }
    for (i, it) in s.items.iter().enumerate() {
        o.push_str(&format!("  [{i}] sec={} {} {} class={} ttl={} rev_owner={} pad={:?} rdata={}\n", it.section, gn::show(&it.owner), rr::mnemonic(it.rtype), it.class, it.ttl, it.rev_owner, it.pad_delta, diff::hex(&it.rdata[..it.rdata.len().min(80)])));
    }
    if let Some(e) = &s.edns {
        o.push_str(&format!("  EDNS udp={} ttl={:08x} options={}\n", e.0, e.1, diff::hex(&e.2)));
    }
    o
}

//------------ hand-written regression scripts -------------------------------------

fn n(s: &str) -> Labels {
    if s == "." {
        return vec![];
    }
    s.trim_end_matches('.').split('.').map(|l| l.as_bytes().to_vec()).collect()
}

fn it(section: u8, owner: Labels, rtype: u16, rdata: Vec<u8>, rev_owner: bool) -> SItem {
    SItem { section, owner, rtype, class: 1, ttl: 3600, rdata, rev_owner, pad_delta: None }
}

fn base() -> Script {
    Script { id: 0x1234, flags: 0x8400, questions: vec![], items: vec![], edns: None, old_compressor: 0, limit: None, reuse_compressor: false, truncate_before: None, crosses: false, hdr_ops: vec![] }
}

pub const REGRESS_COUNT: u64 = 11;

/// Scripts that reproduce, each in its smallest form, the defects of the
/// new builder / name compressor found by the generated search (C19-X4…X9).
pub fn regress_script(i: u64) -> Option<(&'static str, Script)> {
    let a4 = vec![192, 0, 2, 1];
    let mut s = base();
    Some(match i {
        0 => {
            // two names continue at different positions of the same entry
            s.items = vec![it(1, n("b.c."), 1, a4.clone(), false), it(1, n("x.c."), 1, a4.clone(), false), it(1, n("x.b.c."), 1, a4.clone(), false)];
            ("compressor-parent-position", s)
        }
        1 => {
            // a label that contains the wire form of another name's labels
            let mut l = vec![b'x', 5];
            l.extend_from_slice(b"aaaaa");
            s.items = vec![it(1, n("aaaaa.aaa."), 1, a4.clone(), false), it(1, vec![l, b"aaa".to_vec()], 1, a4.clone(), false)];
            ("compressor-label-boundary", s)
        }
        2 => {
            // RevName compressed against a multi-label entry
            s.questions = vec![(n("example.com."), 2, 1, false)];
            s.items = vec![it(1, n("example.com."), 2, gn::to_wire(&n("ns.example.com.")), true), it(1, n("www.example.com."), 1, a4.clone(), true)];
            ("compressor-revname-multilabel", s)
        }
        3 => {
            // names registered between contents offset 16372 and 16384
            // (message offsets 16384..16396), then used again
            s.items = vec![
                it(1, n("example.com."), 1, a4.clone(), false),
                SItem { pad_delta: Some(-2), ..it(1, n("."), PAD_TYPE, vec![], false) },
                it(1, n("far.example.org."), 15, [&[0u8, 10][..], &gn::to_wire(&n("mail.far.example.org."))[..]].concat(), false),
                it(1, n("far.example.org."), 1, a4.clone(), false),
                it(2, n("mail.far.example.org."), 2, gn::to_wire(&n("ns.far.example.org.")), false),
                it(3, n("ns.far.example.org."), 1, a4.clone(), false),
            ];
            s.crosses = true;
            ("compressor-pointer-limit", s)
        }
        4 => {
            // a name that starts below the limit but whose suffixes lie
            // beyond it, then names sharing only those suffixes
            s.items = vec![
                it(1, n("example.com."), 1, a4.clone(), false),
                SItem { pad_delta: Some(4), ..it(1, n("."), PAD_TYPE, vec![], false) },
                it(1, n("far.example.org."), 1, a4.clone(), false),
                it(1, n("other.example.org."), 1, a4.clone(), false),
                it(2, n("org."), 2, gn::to_wire(&n("ns.example.org.")), false),
                it(3, n("far.example.org."), 1, a4.clone(), false),
            ];
            s.crosses = true;
            ("compressor-pointer-limit-suffix", s)
        }
        5 => {
            // the compressor was used for another message before
            s.reuse_compressor = true;
            s.limit = Some(12);
            s.items = vec![it(1, n("com."), 1, a4.clone(), false)];
            ("builder-new-resets-compressor", s)
        }
        6 => {
            // a push that does not fit, followed by pushes that do
            s.limit = Some(12 + 17 + 14 + 2 + 14);
            s.questions = vec![(n("example.com."), 1, 1, false)];
            s.items = vec![
                it(1, n("example.com."), 1, a4.clone(), false),
                it(1, n("does-not-fit.example.net."), 16, [&[40u8][..], &[b'x'; 40][..]].concat(), false),
                it(1, n("example.net."), 1, a4.clone(), false),
            ];
            ("builder-failed-push-restores-compressor", s)
        }
        7 => {
            // truncate() in the middle, then more records
            s.questions = vec![(n("example.com."), 1, 1, false)];
            s.items = vec![it(1, n("example.com."), 1, a4.clone(), false), it(1, n("www.example.com."), 1, a4.clone(), false), it(2, n("example.com."), 2, gn::to_wire(&n("ns.example.com.")), false)];
            s.truncate_before = Some(1);
            ("builder-truncate-resets-counts-and-compressor", s)
        }
        8 => {
            // DNAME target equal to an earlier name
            s.questions = vec![(n("example.com."), 39, 1, false)];
            s.items = vec![it(1, n("example.com."), 39, gn::to_wire(&n("example.com.")), false), it(1, n("x.example.com."), 39, gn::to_wire(&n("www.example.com.")), false)];
            ("dname-target-not-compressed", s)
        }
        9 => {
            // everything at once, with each old compressor in turn
            s.questions = vec![(n("example.com."), 255, 1, true)];
            s.items = vec![
                it(1, n("example.com."), 6, [&gn::to_wire(&n("ns.example.com."))[..], &gn::to_wire(&n("hostmaster.example.com."))[..], &[0u8; 20][..]].concat(), false),
                it(1, n("EXAMPLE.com."), 15, [&[0u8, 10][..], &gn::to_wire(&n("mail.Example.COM."))[..]].concat(), true),
                it(2, n("example.com."), 2, gn::to_wire(&n("ns.example.com.")), false),
                it(3, n("ns.example.com."), 28, vec![0x20; 16], true),
            ];
            s.edns = Some((1232, 0x8000, vec![0, 10, 0, 8, 1, 2, 3, 4, 5, 6, 7, 8]));
            s.old_compressor = 3;
            ("mixed", s)
        }
        10 => {
            // header operations in an order other than top-down: every
            // multi-bit field is replaced while all other fields are set,
            // before and after pushes (seeded change C19-r6-1)
            s.flags = 0x0000;
            s.questions = vec![(n("example.com."), 6, 1, false)];
            s.items = vec![it(2, n("example.com."), 2, gn::to_wire(&n("ns.example.com.")), false)];
            s.hdr_ops = vec![
                (0, HOp::Aa(true)),
                (0, HOp::Rd(true)),
                (0, HOp::Rcode(9)),
                (0, HOp::Opcode(5)),
                (1, HOp::Qr(true)),
                (1, HOp::Tc(true)),
                (1, HOp::Ra(true)),
                (1, HOp::Ad(true)),
                (1, HOp::Cd(true)),
                (1, HOp::Opcode(4)),
                (2, HOp::Rcode(0)),
                (2, HOp::Rcode(15)),
                (2, HOp::Opcode(15)),
                (2, HOp::Id(0xBEEF)),
                (2, HOp::Opcode(0)),
                (2, HOp::Aa(false)),
            ];
            ("header-ops-any-order", s)
        }
        _ => return None,
    })
}
