//! Typed accessors of both codecs mapped to one common tuple: the list of
//! RDATA fields in wire order, each as octets (integers big-endian, names
//! uncompressed, strings without their length octet). The expected tuple
//! is cut out of the walker's normal form with the independent field table,
//! so a codec whose parser and composer make the same mistake (two fields
//! swapped in both) is still caught.

use crate::refimpl::rdata::{self as rr, F};
use domain::base::name::{ParsedName, ToName};
use domain::new::base::name::NameBuf;
use domain::new::base::wire::AsBytes;
use domain::new::rdata::RecordData as NRecordData;
use domain::rdata::AllRecordData;

pub type Fields = Vec<Vec<u8>>;

/// Splits *uncompressed* RDATA into its fields by the independent table.
pub fn split(rtype: u16, rd: &[u8]) -> Option<Fields> {
    let schema = rr::schema(rtype)?;
    let mut out = vec![];
    let mut pos = 0usize;
    let take = |pos: &mut usize, n: usize| -> Option<Vec<u8>> {
        let s = rd.get(*pos..*pos + n)?.to_vec();
        *pos += n;
        Some(s)
    };
    for f in schema {
        match *f {
            F::U8 => out.push(take(&mut pos, 1)?),
            F::U16 => out.push(take(&mut pos, 2)?),
            F::U32 => out.push(take(&mut pos, 4)?),
            F::U48 => out.push(take(&mut pos, 6)?),
            F::Fixed(n) => out.push(take(&mut pos, n)?),
            F::Name { .. } => {
                let (_, next, _) = rr::read_name(rd, pos, rd.len()).ok()?;
                out.push(rd[pos..next].to_vec());
                pos = next;
            }
            F::CharStr | F::Len8 | F::CaaTag => {
                let n = *rd.get(pos)? as usize;
                pos += 1;
                out.push(take(&mut pos, n)?);
            }
            F::CharStrs => {
                while pos < rd.len() {
                    let n = rd[pos] as usize;
                    pos += 1;
                    out.push(take(&mut pos, n)?);
                }
            }
            F::Len16 => {
                let n = u16::from_be_bytes([*rd.get(pos)?, *rd.get(pos + 1)?]) as usize;
                pos += 2;
                out.push(take(&mut pos, n)?);
            }
            F::Rest | F::Bitmap | F::SvcParams | F::OptOptions => {
                let n = rd.len() - pos;
                out.push(take(&mut pos, n)?);
            }
            F::IpsecGateway => return None,
        }
    }
    if pos != rd.len() {
        return None;
    }
    Some(out)
}

fn onm<N: ToName>(n: &N) -> Vec<u8> {
    let v: domain::base::Name<Vec<u8>> = n.to_name();
    v.as_slice().to_vec()
}

/// Established codec: fields through the typed accessors.
pub fn old_fields(d: &AllRecordData<&[u8], ParsedName<&[u8]>>) -> Option<Fields> {
    use AllRecordData as D;
    Some(match d {
        D::A(a) => vec![a.addr().octets().to_vec()],
        D::Aaaa(a) => vec![a.addr().octets().to_vec()],
        D::Ns(x) => vec![onm(x.nsdname())],
        D::Cname(x) => vec![onm(x.cname())],
        D::Ptr(x) => vec![onm(x.ptrdname())],
        D::Dname(x) => vec![onm(x.dname())],
        D::Soa(s) => vec![
            onm(s.mname()),
            onm(s.rname()),
            s.serial().into_int().to_be_bytes().to_vec(),
            s.refresh().as_secs().to_be_bytes().to_vec(),
            s.retry().as_secs().to_be_bytes().to_vec(),
            s.expire().as_secs().to_be_bytes().to_vec(),
            s.minimum().as_secs().to_be_bytes().to_vec(),
        ],
        D::Mx(m) => vec![m.preference().to_be_bytes().to_vec(), onm(m.exchange())],
        D::Txt(t) => t.iter().map(|s| s.to_vec()).collect(),
        D::Hinfo(h) => vec![h.cpu().as_slice().to_vec(), h.os().as_slice().to_vec()],
        D::Rp(r) => vec![onm(r.mbox()), onm(r.txt())],
        D::Srv(s) => vec![s.priority().to_be_bytes().to_vec(), s.weight().to_be_bytes().to_vec(), s.port().to_be_bytes().to_vec(), onm(s.target())],
        D::Ds(x) => vec![x.key_tag().to_be_bytes().to_vec(), vec![x.algorithm().to_int()], vec![x.digest_type().to_int()], x.digest().to_vec()],
        D::Dnskey(k) => vec![k.flags().to_be_bytes().to_vec(), vec![k.protocol()], vec![k.algorithm().to_int()], k.public_key().to_vec()],
        D::Rrsig(r) => vec![
            r.type_covered().to_int().to_be_bytes().to_vec(),
            vec![r.algorithm().to_int()],
            vec![r.labels()],
            r.original_ttl().as_secs().to_be_bytes().to_vec(),
            r.expiration().into_int().to_be_bytes().to_vec(),
            r.inception().into_int().to_be_bytes().to_vec(),
            r.key_tag().to_be_bytes().to_vec(),
            onm(r.signer_name()),
            r.signature().to_vec(),
        ],
        D::Nsec(n) => vec![onm(n.next_name()), n.types().as_slice().to_vec()],
        D::Nsec3(n) => vec![vec![n.hash_algorithm().to_int()], vec![n.flags()], n.iterations().to_be_bytes().to_vec(), n.salt().as_slice().to_vec(), n.next_owner().as_slice().to_vec(), n.types().as_slice().to_vec()],
        D::Nsec3param(p) => vec![vec![p.hash_algorithm().to_int()], vec![p.flags()], p.iterations().to_be_bytes().to_vec(), p.salt().as_slice().to_vec()],
        D::Zonemd(z) => vec![z.serial().into_int().to_be_bytes().to_vec(), vec![u8::from(z.scheme())], vec![u8::from(z.algorithm())], z.digest().to_vec()],
        D::Opt(o) => {
            // no raw accessor: re-assemble from the option iterator
            let mut v = vec![];
            for opt in o.iter::<domain::base::opt::UnknownOptData<&[u8]>>() {
                let opt = opt.ok()?;
                v.extend_from_slice(&opt.code().to_int().to_be_bytes());
                v.extend_from_slice(&(opt.data().len() as u16).to_be_bytes());
                v.extend_from_slice(opt.data());
            }
            vec![v]
        }
        _ => return None,
    })
}

fn nnm(n: &NameBuf) -> Vec<u8> {
    n.as_bytes().to_vec()
}

/// New codec: fields through the public struct fields.
pub fn new_fields(d: &NRecordData<'_, NameBuf>) -> Option<Fields> {
    use NRecordData as D;
    Some(match d {
        D::A(a) => vec![a.octets.to_vec()],
        D::Aaaa(a) => vec![a.octets.to_vec()],
        D::Ns(x) => vec![nnm(&x.server)],
        D::CName(x) => vec![nnm(&x.name)],
        D::Ptr(x) => vec![nnm(&x.name)],
        D::DName(x) => vec![x.name.as_bytes().to_vec()],
        D::Soa(s) => vec![
            nnm(&s.mname),
            nnm(&s.rname),
            u32::from(s.serial).to_be_bytes().to_vec(),
            s.refresh.get().to_be_bytes().to_vec(),
            s.retry.get().to_be_bytes().to_vec(),
            s.expire.get().to_be_bytes().to_vec(),
            s.minimum.get().to_be_bytes().to_vec(),
        ],
        D::Mx(m) => vec![m.preference.get().to_be_bytes().to_vec(), nnm(&m.exchange)],
        D::Txt(t) => t.iter().map(|s| s.octets.to_vec()).collect(),
        D::HInfo(h) => vec![h.cpu.octets.to_vec(), h.os.octets.to_vec()],
        D::Rp(r) => vec![nnm(&r.mailbox), nnm(&r.texts)],
        D::Srv(s) => vec![s.priority.get().to_be_bytes().to_vec(), s.weight.get().to_be_bytes().to_vec(), s.port.get().to_be_bytes().to_vec(), s.name.as_bytes().to_vec()],
        D::Ds(x) => vec![x.keytag.get().to_be_bytes().to_vec(), vec![x.algorithm.code], vec![x.digest_type.code], x.digest.to_vec()],
        D::DNSKey(k) => vec![k.flags.bits().to_be_bytes().to_vec(), vec![k.protocol], vec![k.algorithm.code], k.key.to_vec()],
        D::Rrsig(r) => vec![
            u16::from(r.rtype).to_be_bytes().to_vec(),
            vec![r.algorithm.code],
            vec![r.labels],
            u32::from(r.ttl).to_be_bytes().to_vec(),
            u32::from(r.expiration).to_be_bytes().to_vec(),
            u32::from(r.inception).to_be_bytes().to_vec(),
            r.keytag.get().to_be_bytes().to_vec(),
            r.signer.as_bytes().to_vec(),
            r.signature.to_vec(),
        ],
        D::Nsec(n) => vec![n.next.as_bytes().to_vec(), n.types.as_bytes().to_vec()],
        D::Nsec3(n) => vec![vec![n.algorithm.code], vec![n.flags.bits()], n.iterations.get().to_be_bytes().to_vec(), n.salt.to_vec(), n.next.to_vec(), n.types.as_bytes().to_vec()],
        D::Nsec3Param(p) => vec![vec![p.algorithm.code], vec![p.flags.bits()], p.iterations.get().to_be_bytes().to_vec(), p.salt.to_vec()],
        D::ZoneMD(z) => vec![u32::from(z.serial).to_be_bytes().to_vec(), vec![z.scheme.code], vec![z.hash_alg.code], z.digest.to_vec()],
        D::Opt(o) => vec![o.as_bytes().to_vec()],
        _ => return None,
    })
}
