//! Generators specific to C19.
use super::view::SHARED;
use crate::gen::name::{self as gn, Labels};
use crate::gen::rdata as grd;
use crate::gen::*;
use crate::refimpl::rdata as rr;
use arbitrary::Unstructured;

/// A message that is well-formed in every respect except possibly the
/// RDATA content of its records: one question, then 1..=3 records of types
/// BOTH codecs model, whose RDATA is valid-for-the-type RDATA after 0..=2
/// small mutations (or a random blob). RDLENGTH always matches, so the two
/// codecs are compared on what they think of the RDATA content itself.
pub fn rdata_message(u: &mut Unstructured) -> (Vec<u8>, Vec<&'static str>) {
    let mut tags = vec!["rdata-focused"];
    let pool = gn::pool(u, 3, true);
    let qname = pool[0].clone();
    let mut m = vec![0u8; 12];
    m[2] = 0x84;
    let qoff = m.len();
    m.extend(gn::to_wire(&qname));
    m.extend_from_slice(&[0, 1, 0, 1]);
    m[5] = 1;
    let nrec = 1 + pick(u, 3);
    for _ in 0..nrec {
        let rtype = SHARED[pick(u, SHARED.len())];
        let section = 1 + pick(u, 3);
        let mut rd: Vec<u8> = grd::rdata(u, rtype, &pool, grd::Opts { plain_names: true, max_blob: 60 });
        if rtype == rr::OPT && flag(u) {
            // well-framed options with hostile content for the two option
            // codes both APIs model (COOKIE, extended error)
            rd.clear();
            for _ in 0..1 + pick(u, 3) {
                let code: u16 = [10u16, 15, 10, 15, 3, 12][pick(u, 6)];
                let len = match code {
                    10 => [0usize, 7, 8, 9, 15, 16, 24, 40, 41, 50][pick(u, 10)],
                    15 => [0usize, 1, 2, 3, 10, 40][pick(u, 6)],
                    _ => pick(u, 12),
                };
                rd.extend_from_slice(&code.to_be_bytes());
                rd.extend_from_slice(&(len as u16).to_be_bytes());
                let ascii = flag(u);
                for _ in 0..len {
                    rd.push(if ascii { pickb(u, b"abc xyz.\x00") } else { byte(u) });
                }
            }
            tags.push("opt-hostile-options");
        }
        let nmut = match pick(u, 8) {
            0 | 1 => 0,
            2..=5 => 1,
            _ => 2,
        };
        for _ in 0..nmut {
            mutate_rdata(u, rtype, &mut rd, &mut tags);
        }
        if nmut == 0 {
            tags.push("rdata-valid");
        }
        // owner: pointer to the question name or spelled out
        if flag(u) {
            m.extend_from_slice(&(0xC000u16 | qoff as u16).to_be_bytes());
        } else {
            m.extend(gn::to_wire(&pool[pick(u, pool.len())]));
        }
        m.extend_from_slice(&rtype.to_be_bytes());
        let class = if chance(u, 32) { [255u16, 254, 3, 0][pick(u, 4)] } else { 1 };
        m.extend_from_slice(&class.to_be_bytes());
        m.extend_from_slice(&crate::gen::message::ttl(u).to_be_bytes());
        // optional compression of a trailing name equal to the question name
        let tail = gn::to_wire(&qname);
        if chance(u, 64) && rd.len() >= tail.len() && rd.ends_with(&tail) && tail.len() > 2 {
            rd.truncate(rd.len() - tail.len());
            rd.extend_from_slice(&(0xC000u16 | qoff as u16).to_be_bytes());
            tags.push("rdata-tail-compressed");
        }
        if rd.len() > 0xFFFF {
            rd.truncate(0xFFFF);
        }
        m.extend_from_slice(&(rd.len() as u16).to_be_bytes());
        m.extend(rd);
        let ci = 4 + 2 * section;
        m[ci + 1] += 1;
        // counts of earlier sections must not be followed by records of
        // earlier sections: keep order by writing sections monotonically
    }
    // Records were appended in generation order; make the header counts
    // describe that order (all records counted in one section chosen by the
    // last record) so that the message stays well-formed.
    let total = m[7] + m[9] + m[11];
    let sec = 1 + pick(u, 3);
    m[7] = 0;
    m[9] = 0;
    m[11] = 0;
    m[5 + 2 * sec] = total;
    (m, tags)
}

fn mutate_rdata(u: &mut Unstructured, rtype: u16, rd: &mut Vec<u8>, tags: &mut Vec<&'static str>) {
    match pick(u, 10) {
        0 => {
            rd.clear();
            tags.push("rdata-empty");
        }
        1 => {
            let k = pick(u, rd.len() + 1);
            rd.truncate(k);
            tags.push("rdata-truncated");
        }
        2 => {
            let k = 1 + pick(u, 4);
            for _ in 0..k {
                let b = [0u8, 0, 1, 0xC0, 0xFF, 12][pick(u, 6)];
                rd.push(if flag(u) { b } else { byte(u) });
            }
            tags.push("rdata-extended");
        }
        3 if !rd.is_empty() => {
            let i = pick(u, rd.len());
            rd[i] = [0u8, 1, 63, 64, 0xC0, 0xFF, 32, 33][pick(u, 8)];
            tags.push("rdata-octet-set");
        }
        4 if !rd.is_empty() => {
            let i = pick(u, rd.len());
            rd[i] ^= 1 << pick(u, 8);
            tags.push("rdata-bitflip");
        }
        5 if !rd.is_empty() => {
            // zero a tail octet (trailing zero in bitmaps, empty strings)
            let i = rd.len() - 1 - pick(u, rd.len().min(3));
            rd[i] = 0;
            tags.push("rdata-tail-zeroed");
        }
        6 => {
            *rd = grd::blob(u, 0, 40);
            tags.push("rdata-random");
        }
        7 if !rd.is_empty() => {
            let i = pick(u, rd.len());
            rd.remove(i);
            tags.push("rdata-octet-removed");
        }
        8 => {
            // RDATA valid for a different type
            let other = SHARED[pick(u, SHARED.len())];
            *rd = grd::rdata(u, other, &[], grd::Opts { plain_names: true, max_blob: 40 });
            tags.push("rdata-of-other-type");
        }
        _ => {
            // duplicate a slice (repeated windows, repeated strings)
            if rd.len() >= 2 {
                let a = pick(u, rd.len());
                let b = a + 1 + pick(u, (rd.len() - a).min(8));
                let s = rd[a..b.min(rd.len())].to_vec();
                let at = pick(u, rd.len() + 1);
                for (k, x) in s.into_iter().enumerate() {
                    rd.insert(at + k, x);
                }
                tags.push("rdata-slice-duplicated");
            }
        }
    }
    let _ = rtype;
    let _ = rr::A;
}

#[allow(unused)]
fn _l(_: Labels) {}
