//! C19 — the new-API codec (`domain::new::{base,rdata,edns}`, feature
//! `unstable-new`) and the established codec (`domain::base`, `domain::rdata`)
//! agree on the wire format.
//!
//! Sub-checks
//! * `diff_msg`   — hostile messages (valid structured messages, 1-3
//!   adversarial wire mutations, raw octets) read by both codecs item by item
//!   in wire order (`diff::diff_message`).
//! * `diff_rdata` — messages that are well-formed except for the RDATA
//!   *content* of records of types both APIs model (`cgen::rdata_message`).
//! * `diff_item`  — standalone name / question / record at an arbitrary
//!   offset of a hostile message (low-level `split_message_bytes` /
//!   `parse_message_bytes` against `ParsedName::parse`, `Question::parse`,
//!   `ParsedRecord::parse` + `AllRecordData`).
//! * `diff_raw`   — data = message octets; entry for the libFuzzer target.
//! * `build`      — build scripts executed on both builders; every output
//!   is read by the OTHER codec and by `refimpl::wire`, compared with the
//!   script, pointer-audited, and fed to `diff_message` again.
//!   Scripts also carry 0-8 header operations (`set_id`, `set_qr`,
//!   `set_opcode`, the flag setters, `set_rcode`) in generated ORDER,
//!   executed through `header_mut()` of both builders right after
//!   construction, after the questions and after the last push; after every
//!   operation raw bits and getters of the builder's header are compared with
//!   a bit-level model (an operation replaces its own field only), and the
//!   header octets of both outputs field by field with each other.
//! * `build_regress` — eleven hand-written scripts (sweep), the minimal forms of
//!   the builder/compressor defects found (C19-X4 … X9) and one header
//!   operation order that replaces every multi-bit field over set neighbours.
//!
//! Normalised view compared: (section, owner labels, type, class, ttl,
//! RDATA). RDATA of a type BOTH APIs model (`view::SHARED`) is compared
//! three ways: each side's uncompressed re-serialisation against the other
//! and against the walker's normal form, and each side's typed accessors
//! against the fields the independent table cuts out of that normal form.
//! For every other type the two "unknown" views must carry the octets of
//! the message. The first rejection ends the comparison (the new
//! `MessageParser` is fused, the old reader is forced to be eager).
//!
//! # Points on which the codecs may differ without violating C19
//!
//! Every exclusion is a predicate on the INPUT (module `pred`), evaluated
//! before either outcome is looked at, and counted as `excluded:<reason>`.
//!
//! | id | input predicate | old | new | why not normative |
//! |----|-----------------|-----|-----|-------------------|
//! | E1 | a name the permissive walker accepts has a pointer whose target is < 12 (inside the header) | follows it if the header octets happen to parse as labels | rejects (`checked_sub(12)`) | RFC 1035 §4.1.4: a pointer replaces "an entire domain name or a list of labels at the end of a domain name" by a reference "to a prior occurance of the same name"; the header holds no name. No sender produces it; either reaction is defensible. |
//! | E2 | … has a pointer whose target lies inside the segment it belongs to (at or after the segment's first octet, before the pointer) and does not loop | accepts (`ptr < position of the pointer`) | rejects (`target >= start of current segment`) | same sentence: the target is part of the name being written, not a prior occurrence. |
//! | E3 | RDATA of SRV, DNAME, RRSIG or NSEC whose embedded name reaches a compression pointer | decompresses | models the name as plain data, rejects | RFC 3597 §4: only the RFC 1035 types are "well-known"; receivers "SHOULD also decompress" a fixed list (RP, SRV, …), nothing is said for the rest; RFC 2782, RFC 6672 §2.5, RFC 4034 §3.1.7/§4.1.1 forbid senders to compress these names. (That the new *builder* compressed DNAME targets is NOT excluded: finding C19-X9.) |
//! | E4 | extended-error option (code 15) whose EXTRA-TEXT is not UTF-8 | keeps it (`text()` = `Some(Err(octets))`) | typed option parser rejects | the statement quantifies over names, questions, records and messages; both codecs accept the OPT *record*. RFC 8914 §2: the text is "intended for human consumption (not automated parsing)". |
//!
//! Not excluded (compared, a disagreement is a violation): unknown label
//! types 01/10, the 255-octet cap, truncated labels, forward pointers,
//! pointer chains, TTLs with the top bit set, class != IN, OPT outside the
//! additional section, trailing octets after the last counted record
//! (neither codec looks at them), counts larger than the content.
//!
//! Types only ONE API models (MD MF MB MG MR NULL MINFO NAPTR SSHFP IPSECKEY
//! TLSA CDS CDNSKEY OPENPGPKEY SVCB HTTPS TSIG CAA on the old side): the old
//! typed parser is still run (panics count) but its verdict does not; the
//! unknown views must agree.
//!
//! The established compressors emit pointers to offsets >= 0x4000 (C02); scripts
//! that pad across 16384 therefore run the established builder without a
//! compressor.

use crate::engine::*;
use crate::vensure;
use crate::gen::message as gm;
use crate::gen::*;
use arbitrary::Unstructured;
use std::collections::BTreeMap;

pub mod build;
pub mod cgen;
pub mod diff;
pub mod fields;
pub mod pred;
pub mod view;

fn finish_diff(msg: &[u8], tags: &[&'static str], st: diff::DiffStats, ctx: &mut Ctx) {
    if st.pointers {
        ctx.class("has-pointer");
    }
    let nontrivial = (st.compared_ok >= 1 && (st.pointers || st.typed_shared)) || matches!(st.agree_reject, Some(l) if st.compared_ok >= 1 || l != view::Layer::Name);
    if nontrivial {
        ctx.nontrivial(&msg);
        ctx.sample(|| format!("{} octets tags={tags:?} compared_ok={} pointers={} typed_shared={} agree_reject={:?} excluded={:?}: {}", msg.len(), st.compared_ok, st.pointers, st.typed_shared, st.agree_reject, st.excluded, diff::hex(&msg[..msg.len().min(120)])));
    }
}

fn run_diff_msg(data: &[u8], ctx: &mut Ctx) -> CaseResult {
    let r = run_diff_msg_(data, ctx);
    explore(r, ctx)
}
fn run_diff_msg_(data: &[u8], ctx: &mut Ctx) -> CaseResult {
    let mut u = Unstructured::new(data);
    let (bytes, tags) = gm::hostile_message(&mut u);
    for t in &tags {
        ctx.class(*t);
    }
    if bytes.len() > 65535 {
        return Ok(());
    }
    let st = diff::diff_message(&bytes, ctx)?;
    finish_diff(&bytes, &tags, st, ctx);
    Ok(())
}

fn run_diff_rdata(data: &[u8], ctx: &mut Ctx) -> CaseResult {
    let r = run_diff_rdata_(data, ctx);
    explore(r, ctx)
}
fn run_diff_rdata_(data: &[u8], ctx: &mut Ctx) -> CaseResult {
    let mut u = Unstructured::new(data);
    let (bytes, tags) = cgen::rdata_message(&mut u);
    for t in &tags {
        ctx.class(*t);
    }
    let st = diff::diff_message(&bytes, ctx)?;
    finish_diff(&bytes, &tags, st, ctx);
    Ok(())
}

fn run_build(data: &[u8], ctx: &mut Ctx) -> CaseResult {
    let r = run_build_(data, ctx);
    explore(r, ctx)
}
/// Hand-written regression scripts (sweep): data = index, little endian.
fn run_build_regress(data: &[u8], ctx: &mut Ctx) -> CaseResult {
    let mut b = [0u8; 8];
    b[..data.len().min(8)].copy_from_slice(&data[..data.len().min(8)]);
    let Some((name, s)) = build::regress_script(u64::from_le_bytes(b)) else { return Ok(()) };
    ctx.class(format!("regress:{name}"));
    for c in 0..4u8 {
        if c > 0 && s.crosses {
            // the established compressors beyond offset 0x4000 are C02's business
            break;
        }
        let s = build::Script { old_compressor: c, ..s.clone() };
        run_script(&s, ctx)?;
    }
    Ok(())
}

fn run_build_(data: &[u8], ctx: &mut Ctx) -> CaseResult {
    let mut u = Unstructured::new(data);
    let s = build::script(&mut u, ctx.thorough);
    run_script(&s, ctx)
}

fn run_script(s: &build::Script, ctx: &mut Ctx) -> CaseResult {
    if std::env::var_os("VERIF_DEBUG").is_some() {
        eprintln!("{}", build::show_script(&s));
    }
    if s.crosses {
        ctx.class("script:pads-to-16384");
    }
    if s.limit.is_some() {
        ctx.class("script:size-limit");
    }
    ctx.class(format!("script:old-compressor-{}", s.old_compressor));
    {
        let mut names: Vec<&view::Labels> = s.items.iter().map(|i| &i.owner).collect();
        names.sort();
        names.dedup();
        if names.len() > 32 {
            ctx.class("script:more-than-32-distinct-owners");
        }
        if names.len() > 64 {
            ctx.class("script:more-than-64-distinct-owners");
        }
    }
    // header operations: which orders does this script exercise?
    if !s.hdr_ops.is_empty() {
        ctx.class("script:header-ops");
        let (mut id, mut fl) = (s.id, s.flags);
        let mut touched = 0u16;
        for (phase, op) in &s.hdr_ops {
            let own = op.mask();
            let multi = own.count_ones() > 1;
            if multi && fl & !own & !0x0040 != 0 {
                ctx.class(format!("script:header-ops:{}-over-nonzero-other-fields", op.name()));
                if own == 0x7800 && fl & 0x07BF != 0 {
                    ctx.class("script:header-ops:set_opcode-over-nonzero-lower-fields");
                }
            }
            if touched & own != 0 {
                ctx.class("script:header-ops:field-set-again");
            }
            touched |= own;
            if *phase >= 1 && !(s.questions.is_empty() && s.items.is_empty()) {
                ctx.class("script:header-ops:after-pushes");
            }
            op.model(&mut id, &mut fl);
        }
    }
    // new builder
    let nb = build::build_new(&s, ctx)?;
    if nb.expect.failed_pushes > 0 {
        ctx.class("new:push-failed-then-continued");
    }
    if nb.bytes.len() > 0x4000 {
        ctx.class("new:output-longer-than-16384");
    }
    if nb.bytes.len() > 56000 {
        ctx.class("new:output-longer-than-56000");
    }
    let st = build::check_output("new", &nb, ctx)?;
    if st.pointers > 0 {
        ctx.class("new:output-has-pointers");
    }
    if st.names_after_limit > 0 {
        ctx.class("new:records-after-16384");
        if st.pointers > 0 {
            ctx.class("new:pointers-and-records-after-16384");
        }
    }
    if st.max_pointer_target >= 0x3F00 {
        ctx.class("new:pointer-target-in-last-256-addressable");
    }
    let new_ptrs = st.pointers;
    // old builder: without compressor, and with the script's compressor
    let ob = build::build_old(&s, 0)?;
    if ob.bytes.len() > 0x4000 {
        ctx.class("old:output-longer-than-16384");
    }
    build::check_output("old", &ob, ctx)?;
    // the same header operations on both builders: same header octets, field
    // by field (the only difference the script itself makes is TC set by the
    // new builder's truncate(), which the established builder does not have)
    if nb.bytes.len() >= 4 && ob.bytes.len() >= 4 {
        let nf = u16::from_be_bytes([nb.bytes[2], nb.bytes[3]]);
        let of = u16::from_be_bytes([ob.bytes[2], ob.bytes[3]]);
        let allowed = nb.expect.flags ^ ob.expect.flags;
        vensure!(nb.bytes[..2] == ob.bytes[..2], "build:header:builders-disagree:id", "new builder id {:02x?}, established builder id {:02x?}; header operations {:?}", &nb.bytes[..2], &ob.bytes[..2], s.hdr_ops);
        vensure!((nf ^ of) == allowed, "build:header:builders-disagree:flags", "initial flags {:04x}, header operations {:?}: new builder {nf:04x}, established builder {of:04x}; fields that differ: {:?}", s.flags, s.hdr_ops, build::flag_fields_differing(nf ^ allowed, of));
    }
    let mut old_ptrs = 0;
    if s.old_compressor != 0 {
        let oc = build::build_old(&s, s.old_compressor)?;
        let st = build::check_output("old", &oc, ctx)?;
        old_ptrs = st.pointers;
        if st.pointers > 0 {
            ctx.class("old:output-has-pointers");
        }
    }
    let nitems = s.items.len() + s.questions.len();
    if nitems >= 1 && (new_ptrs > 0 || old_ptrs > 0 || s.items.iter().any(|i| view::is_shared(i.rtype))) {
        ctx.nontrivial(&s);
        ctx.sample(|| format!("script: {} questions, {} items, edns={}, pad={:?}, limit={:?}, old_compressor={}, reuse={}, truncate={:?}; new output {} octets ({} pointers), old output {} octets", s.questions.len(), s.items.len(), s.edns.is_some(), s.items.iter().find_map(|i| i.pad_delta), s.limit, s.old_compressor, s.reuse_compressor, s.truncate_before, nb.bytes.len(), new_ptrs, ob.bytes.len()));
    }
    Ok(())
}

/// Raw entry: data = message octets (libFuzzer target `c19_diff`).
pub fn run_diff_raw(data: &[u8], ctx: &mut Ctx) -> CaseResult {
    if data.len() > 65535 {
        return Ok(());
    }
    ctx.class("raw");
    let st = diff::diff_message(data, ctx)?;
    finish_diff(data, &["raw"], st, ctx);
    Ok(())
}

/// Hand-written standalone items (sweep): data = index, little endian.
const ITEM_REGRESS_COUNT: u64 = 3;
fn run_item_regress(data: &[u8], ctx: &mut Ctx) -> CaseResult {
    let i = data.first().copied().unwrap_or(0);
    // header, QDCOUNT=3; Q1 `a.a. A IN` at 12; Q2 `-> 12` at 21; Q3 `-> 21` at 27
    let mut m = vec![0u8, 1, 1, 0, 0, 3, 0, 0, 0, 0, 0, 0];
    m.extend_from_slice(&[1, b'a', 1, b'a', 0, 0, 1, 0, 1]);
    m.extend_from_slice(&[0xC0, 12, 0, 1, 0, 1]);
    m.extend_from_slice(&[0xC0, 21, 0, 1, 0, 1]);
    let (off, kind) = match i {
        0 => (27, 0u8), // a pointer to a name that starts 6 octets earlier (C19-X10)
        1 => (27, 1u8),
        _ => (21, 0u8),
    };
    ctx.class("regress:item");
    diff::diff_item_at(&m, off, m.len(), kind, ctx)?;
    diff::diff_message(&m, ctx)?;
    Ok(())
}

fn run_diff_item(data: &[u8], ctx: &mut Ctx) -> CaseResult {
    let r = run_diff_item_(data, ctx);
    explore(r, ctx)
}
fn run_diff_item_(data: &[u8], ctx: &mut Ctx) -> CaseResult {
    let mut u = Unstructured::new(data);
    let kind = pick(&mut u, 3) as u8;
    let sel = u16_(&mut u) as usize;
    let lim = u16_(&mut u) as usize;
    let how = pick(&mut u, 4);
    let (bytes, tags) = gm::hostile_message(&mut u);
    if bytes.len() <= 12 || bytes.len() > 65535 {
        return Ok(());
    }
    for t in &tags {
        ctx.class(*t);
    }
    // offset: biased towards item starts found by the walker
    let off = match how {
        0 | 1 => {
            let w = crate::refimpl::wire::walk(&bytes);
            let mut starts: Vec<usize> = vec![12];
            if let Some(w) = &w {
                starts.extend(w.questions.iter().map(|q| q.start));
                starts.extend(w.records.iter().map(|r| r.start));
                starts.extend(w.records.iter().map(|r| r.rd_start));
                starts.push(w.end);
            }
            starts[sel % starts.len()]
        }
        _ => 12 + sel % (bytes.len() - 12),
    };
    let off = off.clamp(12, bytes.len());
    let limit = if kind == 0 && lim % 3 == 0 { off + (lim / 3) % (bytes.len() - off + 1) } else { bytes.len() };
    let interesting = diff::diff_item_at(&bytes, off, limit, kind, ctx)?;
    if interesting {
        ctx.nontrivial(&(&bytes, off, limit, kind));
        ctx.sample(|| format!("kind={kind} off={off} limit={limit} tags={tags:?} {}", diff::hex(&bytes[..bytes.len().min(100)])));
    }
    Ok(())
}

/// Exploration aid (not used by any registered command): with
/// VERIF_C19_EXPLORE set, disagreements are tallied as classes instead of
/// being reported, so that one run shows every kind of disagreement.
fn explore(r: CaseResult, ctx: &mut Ctx) -> CaseResult {
    match r {
        Err(v) if std::env::var_os("VERIF_C19_EXPLORE").is_some() => {
            ctx.class(format!("DISAGREE:{}", v.sig));
            if ctx.sample.is_none() {
                let d = v.detail.clone();
                ctx.sample(move || d);
            }
            Ok(())
        }
        r => r,
    }
}

fn health(c: &BTreeMap<String, u64>, _t: bool) -> Result<(), String> {
    let mut need: Vec<String> = [
        "has-pointer", "mutated", "valid", "raw", "rdata-focused", "rdata-valid", "walked-to-end",
        "typed-accessors-compared", "rdata-equals-walker-normal-form", "raw-both:unknown-type",
        "agree-reject:question:name", "agree-reject:record:name", "agree-reject:record:frame", "agree-reject:record:rdata",
        "excluded:pointer-into-header", "excluded:pointer-into-own-segment", "excluded:compressed-name-in-non-rfc1035-rdata",
        "item:name:both-accept:compressed", "item:name:both-reject", "item:question:both-accept", "item:record:both-accept", "item:record:both-reject:rdata",
        "opt-option-10:both-accept", "opt-option-10:both-reject", "opt-option-15:both-accept", "opt-option-15:both-reject",
        "script:pads-to-16384", "script:size-limit", "script:more-than-32-distinct-owners", "script:more-than-64-distinct-owners",
        "script:header-ops", "script:header-ops:set_opcode-over-nonzero-other-fields", "script:header-ops:set_opcode-over-nonzero-lower-fields", "script:header-ops:set_rcode-over-nonzero-other-fields",
        "script:header-ops:field-set-again", "script:header-ops:after-pushes",
        "script:old-compressor-1", "script:old-compressor-2", "script:old-compressor-3",
        "new:output-has-pointers", "new:records-after-16384", "new:pointers-and-records-after-16384", "new:pointer-target-in-last-256-addressable",
        "new:push-failed-then-continued", "new:compressor-reused", "new:truncate-called", "old:output-has-pointers", "old:output-longer-than-16384",
    ]
    .iter()
    .map(|s| s.to_string())
    .collect();
    for t in view::SHARED {
        need.push(format!("typed-both:{}", crate::refimpl::rdata::mnemonic(*t)));
    }
    for k in need {
        if c.get(&k).copied().unwrap_or(0) < 5 {
            return Err(format!("class {k} starved ({:?})", c.get(&k)));
        }
    }
    Ok(())
}

pub fn prop() -> Option<Prop> {
    Some(Prop {
        id: "C19",
        rule: "differential case = message octets (or octets + offset + item kind); non-trivial = both codecs accepted >= 1 item and the message had >= 1 compression pointer or >= 1 RDATA of a type both APIs model, or both codecs rejected the same item after >= 1 accepted item or past its name; distinct by octets (+ offset/kind). build case = script (questions, records of shared/unknown types, EDNS, padding across 16384, size limit, failed pushes, truncate, compressor reuse, 0-8 header setter calls in generated order before/between/after the pushes) executed on the new builder and on the established builder without and with each compressor; non-trivial = >= 1 item and (a pointer was emitted or a record of a shared type was pushed); distinct by script",
        assumptions: &[
            "exclusions E1-E4 of the module table (pointer into the header / into the name's own segment, compressed names inside SRV/DNAME/RRSIG/NSEC RDATA, non-UTF-8 extended-error text) are predicates on the input evaluated with refimpl::wire; such items are counted, not compared",
            "RDATA acceptance is compared only for the 20 types both APIs model; for all others the two unknown views must carry the octets of the message",
            "names read back from a built message are compared case-insensitively (a compressor may reuse a suffix that differs in case)",
            "the established builder runs without a compressor in scripts that pad across offset 16384 (pointers >= 0x4000 of the established compressors are C02's finding)",
            "hash collisions of the new compressor's 16-bit label hash are reached only by chance",
        ],
        subchecks: vec![
            SubCheck::new("diff_msg", run_diff_msg, 600_000, 4_000_000, 1500),
            SubCheck::new("diff_rdata", run_diff_rdata, 500_000, 4_000_000, 600),
            SubCheck::sweep("build_regress", run_build_regress, |_| build::REGRESS_COUNT),
            SubCheck::new("build", run_build, 100_000, 1_000_000, 3000),
            SubCheck::sweep("item_regress", run_item_regress, |_| ITEM_REGRESS_COUNT),
            SubCheck::new("diff_raw", run_diff_raw, 100_000, 1_500_000, 700),
            SubCheck::new("diff_item", run_diff_item, 300_000, 2_000_000, 1500),
        ],
        health: Some(health),
        extra: None,
    })
}
