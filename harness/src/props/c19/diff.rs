//! Differential parsing: the same octets read by both codecs.

use super::pred;
use super::view::*;
use crate::engine::*;
use crate::gen::name as gn;
use crate::refimpl::rdata as rr;
use crate::refimpl::wire;
use crate::{vensure, vfail};
use domain::base::message::Message as OMessage;
use domain::new::base::parse::{MessageParser, ParseMessageBytes};
use domain::new::base::name::{NameBuf, RevNameBuf};
use domain::new::base::MessageItem;

#[derive(Clone, Debug, PartialEq, Eq)]
pub enum Item {
    Q(QView),
    /// section 1..=3
    R(u8, RView),
}

pub fn hex(b: &[u8]) -> String {
    let mut s = String::with_capacity(b.len() * 2);
    for x in b.iter().take(400) {
        s.push_str(&format!("{x:02x}"));
    }
    if b.len() > 400 {
        s.push('…');
    }
    s
}

pub fn show_rview(r: &RView) -> String {
    format!(
        "{} type={} class={} ttl={} {}={}",
        gn::show(&r.owner),
        rr::mnemonic(r.rtype),
        r.class,
        r.ttl,
        match r.rd {
            Rd::Typed(_) => "typed",
            Rd::Raw(_) => "raw",
        },
        hex(r.rd.bytes())
    )
}

//------------ walking a message with the old codec --------------------------------

/// Items as the established codec's `Message` yields them, in wire order,
/// up to and including the first rejection. Each Ok carries the offset
/// after the item.
pub fn old_walk(m: &OMessage<[u8]>) -> Result<Vec<Result<(Item, usize), Reject>>, Violation> {
    let mut out = vec![];
    let counts = m.header_counts();
    let mut qs = m.question();
    let mut n = 0usize;
    while let Some(q) = qs.next() {
        n += 1;
        vensure!(n <= counts.qdcount() as usize, "old:question-iter-exceeds-count", "QuestionSection yields more than QDCOUNT");
        match q {
            Ok(q) => {
                use domain::base::name::ToLabelIter;
                let name: Labels = q.qname().iter_labels().filter(|l| !l.is_root()).map(|l| l.as_slice().to_vec()).collect();
                out.push(Ok((Item::Q(QView { name, qtype: q.qtype().to_int(), qclass: q.qclass().to_int() }), qs.pos())));
            }
            Err(e) => {
                // classify: name or frame
                let off = out.last().map(|x: &Result<(Item, usize), Reject>| x.as_ref().unwrap().1).unwrap_or(12);
                let layer = match old_name_at(m.as_slice(), off, m.as_slice().len()) {
                    Err(_) => Layer::Name,
                    Ok(_) => Layer::Frame,
                };
                out.push(Err(Reject { layer, why: e.to_string() }));
                return Ok(out);
            }
        }
    }
    let mut sec = match qs.answer() {
        Ok(s) => s,
        Err(e) => vfail!("old:answer-after-full-iteration", "QuestionSection::answer failed after all questions were read: {e}"),
    };
    let mut secno = 1u8;
    loop {
        let cnt = match secno {
            1 => counts.ancount(),
            2 => counts.nscount(),
            _ => counts.arcount(),
        } as usize;
        let mut n = 0usize;
        while let Some(r) = sec.next() {
            n += 1;
            vensure!(n <= cnt, "old:record-iter-exceeds-count", "RecordSection yields more than the header count");
            match r {
                Ok(pr) => match old_view_of(&pr) {
                    Ok(v) => out.push(Ok((Item::R(secno, v), sec.pos()))),
                    Err(rej) => {
                        out.push(Err(rej));
                        return Ok(out);
                    }
                },
                Err(e) => {
                    let off = out.last().map(|x| x.as_ref().unwrap().1).unwrap_or(12);
                    let layer = match old_name_at(m.as_slice(), off, m.as_slice().len()) {
                        Err(_) => Layer::Name,
                        Ok(_) => Layer::Frame,
                    };
                    out.push(Err(Reject { layer, why: e.to_string() }));
                    return Ok(out);
                }
            }
        }
        match sec.next_section() {
            Ok(Some(s)) => {
                sec = s;
                secno += 1;
            }
            Ok(None) => break,
            Err(e) => vfail!("old:next-section-after-full-iteration", "next_section failed after the section was read completely: {e}"),
        }
    }
    Ok(out)
}

//------------ walking a message with the new codec --------------------------------

pub fn new_walk(msg: &[u8]) -> Result<Vec<Result<(Item, usize), Reject>>, Violation> {
    let mut out: Vec<Result<(Item, usize), Reject>> = vec![];
    let mut p = match MessageParser::new(msg) {
        Ok(p) => p,
        Err(_) => vfail!("new:header-rejected", "MessageParser::new rejected {} octets", msg.len()),
    };
    loop {
        let off = 12 + p.offset();
        let Some(it) = p.next() else { break };
        match it {
            Ok(item) => {
                let end = 12 + p.offset();
                let v = match item {
                    MessageItem::Question(q) => Item::Q(QView { name: labels_of_revnamebuf(&q.qname), qtype: q.qtype.code.get(), qclass: q.qclass.code.get() }),
                    MessageItem::Answer(r) => Item::R(1, view_of_new_record(&r)),
                    MessageItem::Authority(r) => Item::R(2, view_of_new_record(&r)),
                    MessageItem::Additional(r) => Item::R(3, view_of_new_record(&r)),
                    MessageItem::Edns(e) => {
                        let r: NRec<'_> = e.into();
                        Item::R(3, view_of_new_record(&r))
                    }
                };
                out.push(Ok((v, end)));
            }
            Err(_) => {
                let is_q = out.len() < u16::from_be_bytes([msg[4], msg[5]]) as usize;
                let layer = if is_q {
                    match new_question_at(msg, off) {
                        Err(r) => r.layer,
                        Ok(_) => Layer::Frame,
                    }
                } else {
                    new_record_reject_layer(msg, off)
                };
                out.push(Err(Reject { layer, why: "ParseError".into() }));
                vensure!(p.next().is_none(), "new:parser-not-fused", "MessageParser continues after an error");
                break;
            }
        }
    }
    Ok(out)
}

//------------ EDNS options ---------------------------------------------------------

/// Options of an OPT record both codecs accepted: for the option codes BOTH
/// APIs model with a type (COOKIE = 10, extended error = 15) the two typed
/// option parsers must agree on acceptance, option by option.
pub fn diff_options(who: &str, rd: &[u8], ctx: &mut Ctx) -> CaseResult {
    use domain::base::opt::{Cookie, ExtendedError, Opt as OOpt};
    use domain::new::base::wire::ParseBytes;
    use domain::new::edns::EdnsOption;
    let mut pos = 0usize;
    while pos + 4 <= rd.len() {
        let code = u16::from_be_bytes([rd[pos], rd[pos + 1]]);
        let len = u16::from_be_bytes([rd[pos + 2], rd[pos + 3]]) as usize;
        let Some(one) = rd.get(pos..pos + 4 + len) else { break };
        pos += 4 + len;
        if code != 10 && code != 15 {
            continue;
        }
        // E4 (input predicate): extended-error text that is not UTF-8.
        if code == 15 && len > 2 && std::str::from_utf8(&one[6..]).is_err() {
            ctx.class(format!("excluded:{}", pred::X_EDE_TEXT));
            continue;
        }
        let o = match OOpt::from_slice(one) {
            Ok(o) => o,
            Err(e) => vfail!(format!("{who}:opt:single-option-rejected-by-old"), "option {} rejected as OPT data: {e}", hex(one)),
        };
        let old_ok = if code == 10 { matches!(o.iter::<Cookie>().next(), Some(Ok(_))) } else { matches!(o.iter::<ExtendedError<&[u8]>>().next(), Some(Ok(_))) };
        let new = EdnsOption::parse_bytes(one);
        let new_ok = new.is_ok();
        if let Ok(n) = &new {
            let typed = matches!(n, EdnsOption::ClientCookie(_) | EdnsOption::Cookie(_) | EdnsOption::ExtError(_));
            vensure!(typed, format!("{who}:opt:option-{code}:new-yields-unknown"), "option {}", hex(one));
        }
        ctx.class(format!("opt-option-{code}:{}", match (old_ok, new_ok) { (true, true) => "both-accept", (false, false) => "both-reject", _ => "DISAGREE" }));
        vensure!(old_ok == new_ok, format!("{who}:opt:option-{code}:{}", if old_ok { "old-accepts-new-rejects" } else { "old-rejects-new-accepts" }), "option {}", hex(one));
    }
    Ok(())
}

//------------ message differential ------------------------------------------------

pub struct DiffStats {
    pub compared_ok: usize,
    pub pointers: bool,
    pub typed_shared: bool,
    pub agree_reject: Option<Layer>,
    pub excluded: Option<&'static str>,
}

fn kind_of(i: usize, counts: &[u16; 4]) -> (bool, u8) {
    let q = counts[0] as usize;
    let a = q + counts[1] as usize;
    let n = a + counts[2] as usize;
    if i < q {
        (true, 0)
    } else if i < a {
        (false, 1)
    } else if i < n {
        (false, 2)
    } else {
        (false, 3)
    }
}

/// Compares two record views of the record at `off` and the walker's view
/// of the same octets. `who` = prefix of the signature.
pub fn compare_records(who: &str, msg: &[u8], off: usize, o: &RView, n: &RView, ctx: &mut Ctx, stats: &mut DiffStats) -> CaseResult {
    let t = rr::mnemonic(o.rtype);
    vensure!(o.owner == n.owner, format!("{who}:record:owner-differs"), "at {off}: old owner {} new owner {}", gn::show(&o.owner), gn::show(&n.owner));
    vensure!(o.rtype == n.rtype && o.class == n.class, format!("{who}:record:type-class-differs"), "at {off}: old type/class {}/{} new {}/{}", o.rtype, o.class, n.rtype, n.class);
    vensure!(o.ttl == n.ttl, format!("{who}:record:ttl-differs"), "at {off}: old ttl {} new ttl {}", o.ttl, n.ttl);
    // the walker's reading of the same octets (classification + normal form)
    let w = wire::record_at(msg, off, 0).ok();
    let norm = w.as_ref().and_then(|(r, _)| wire::rdata_normal(msg, r).ok());
    if let Some((r, _)) = &w {
        if r.owner_ptrs > 0 {
            stats.pointers = true;
        }
    }
    if let Some((_, fl)) = &norm {
        if fl.pointers > 0 {
            stats.pointers = true;
        }
    }
    match (&o.rd, &n.rd) {
        (Rd::Typed(a), Rd::Typed(b)) => {
            stats.typed_shared = true;
            ctx.class(format!("typed-both:{t}"));
            if a != b {
                let dir = match &norm {
                    Some((nf, _)) if nf == a => "new-deviates",
                    Some((nf, _)) if nf == b => "old-deviates",
                    _ => "both-deviate-from-walker",
                };
                vfail!(format!("{who}:rdata:{t}:content-differs:{dir}"), "at {off}: old RDATA {} new RDATA {} walker {:?}", hex(a), hex(b), norm.as_ref().map(|x| hex(&x.0)));
            }
            // typed accessors of both sides against the fields the
            // independent table cuts out of the normal form
            if let Some(want) = norm.as_ref().and_then(|(nf, _)| super::fields::split(o.rtype, nf)) {
                match (&o.fields, &n.fields) {
                    (Some(of), Some(nf)) => {
                        vensure!(of == &want, format!("{who}:rdata:{t}:old-accessors-differ-from-wire"), "at {off}: old accessors give {:?}, the wire fields are {:?}", of.iter().map(|x| hex(x)).collect::<Vec<_>>(), want.iter().map(|x| hex(x)).collect::<Vec<_>>());
                        vensure!(nf == &want, format!("{who}:rdata:{t}:new-accessors-differ-from-wire"), "at {off}: new accessors give {:?}, the wire fields are {:?}", nf.iter().map(|x| hex(x)).collect::<Vec<_>>(), want.iter().map(|x| hex(x)).collect::<Vec<_>>());
                        ctx.class("typed-accessors-compared");
                    }
                    _ => vfail!(format!("{who}:rdata:{t}:no-accessor-mapping"), "harness: shared type {} without an accessor mapping", o.rtype),
                }
            }
            if o.rtype == rr::OPT {
                diff_options(who, a, ctx)?;
            }
            match &norm {
                Some((nf, _)) if nf == a => ctx.class("rdata-equals-walker-normal-form"),
                Some(_) => ctx.class("codecs-agree-walker-differs"),
                None => ctx.class("codecs-agree-walker-rejects-rdata"),
            }
        }
        (Rd::Raw(a), Rd::Raw(b)) => {
            ctx.class(if rr::schema(o.rtype).is_some() { format!("raw-both:{t}") } else { "raw-both:unknown-type".to_string() });
            vensure!(a == b, format!("{who}:rdata:raw-octets-differ"), "at {off} type {t}: old {} new {}", hex(a), hex(b));
            if let Some((r, _)) = &w {
                vensure!(&msg[r.rd_start..r.rd_end] == &a[..], format!("{who}:rdata:raw-octets-differ-from-message"), "at {off} type {t}: both give {} but the message has {}", hex(a), hex(&msg[r.rd_start..r.rd_end]));
            }
        }
        _ => vfail!(format!("{who}:rdata:{t}:typed-vs-raw"), "at {off}: the shared-type table of the harness is wrong for type {}", o.rtype),
    }
    stats.compared_ok += 1;
    Ok(())
}

pub fn diff_message(msg: &[u8], ctx: &mut Ctx) -> Result<DiffStats, Violation> {
    let mut stats = DiffStats { compared_ok: 0, pointers: false, typed_shared: false, agree_reject: None, excluded: None };
    // (a) header
    let om = OMessage::from_slice(msg);
    let np = MessageParser::new(msg);
    match (&om, &np) {
        (Ok(_), Ok(_)) => {}
        (Err(_), Err(_)) => {
            vensure!(msg.len() < 12, "msg:header:both-reject-long", "both reject {} octets", msg.len());
            ctx.class("header-rejected-by-both");
            return Ok(stats);
        }
        (Ok(_), Err(_)) => vfail!("msg:header:old-accepts-new-rejects", "{} octets", msg.len()),
        (Err(_), Ok(_)) => vfail!("msg:header:old-rejects-new-accepts", "{} octets", msg.len()),
    }
    let om = om.unwrap();
    let np = np.unwrap();
    let wh = wire::header(msg).unwrap();
    {
        let h = om.header();
        let c = om.header_counts();
        let nh = np.header();
        let old_bits = u16::from_be_bytes([h.as_slice()[2], h.as_slice()[3]]);
        vensure!(h.id() == wh.id && nh.id.get() == wh.id, "msg:header:id-differs", "old {} new {} wire {}", h.id(), nh.id.get(), wh.id);
        vensure!(old_bits == wh.flags && nh.flags.bits() == wh.flags, "msg:header:flags-differ", "old {old_bits:04x} new {:04x} wire {:04x}", nh.flags.bits(), wh.flags);
        vensure!(
            h.qr() == nh.flags.qr() && h.opcode().to_int() == nh.flags.opcode() && h.aa() == nh.flags.aa() && h.tc() == nh.flags.tc() && h.rd() == nh.flags.rd() && h.ra() == nh.flags.ra() && h.ad() == nh.flags.ad() && h.cd() == nh.flags.cd() && h.rcode().to_int() == nh.flags.rcode(),
            "msg:header:flag-accessors-differ",
            "flags {:04x}: old {:?} new {:?}",
            wh.flags,
            (h.qr(), h.opcode().to_int(), h.aa(), h.tc(), h.rd(), h.ra(), h.ad(), h.cd(), h.rcode().to_int()),
            nh.flags
        );
        let oc = [c.qdcount(), c.ancount(), c.nscount(), c.arcount()];
        let nc = [nh.counts.questions.get(), nh.counts.answers.get(), nh.counts.authorities.get(), nh.counts.additionals.get()];
        vensure!(oc == wh.counts && nc == wh.counts, "msg:header:counts-differ", "old {oc:?} new {nc:?} wire {:?}", wh.counts);
    }
    // (b) items in wire order
    let old = old_walk(om)?;
    let new = new_walk(msg)?;
    let total: usize = wh.counts.iter().map(|&c| c as usize).sum();
    let mut off = 12usize;
    for i in 0..total {
        let (is_q, sec) = kind_of(i, &wh.counts);
        let what = if is_q { "question" } else { "record" };
        // exclusion by a predicate on the input, before looking at outcomes
        let excl = if is_q { pred::name_excl(msg, off, msg.len()) } else { pred::record_excl(msg, off) };
        if let Some(x) = excl {
            ctx.class(format!("excluded:{x}"));
            stats.excluded = Some(x);
            return Ok(stats);
        }
        let (Some(o), Some(n)) = (old.get(i), new.get(i)) else {
            vfail!("msg:walk-ended-early", "item {i} of {total}: old has {} items, new has {} items, neither reported an error before", old.len(), new.len());
        };
        match (o, n) {
            (Err(a), Err(b)) => {
                ctx.class(format!("agree-reject:{what}:{}", a.layer.tag().max(b.layer.tag())));
                if a.layer != b.layer {
                    ctx.class("agree-reject:different-layer");
                }
                stats.agree_reject = Some(a.layer.min(b.layer));
                return Ok(stats);
            }
            (Ok((ov, _)), Err(b)) => {
                let t = if let Item::R(_, r) = ov { format!(":{}", rr::mnemonic(r.rtype)) } else { String::new() };
                let t = if b.layer == Layer::Rdata { t } else { String::new() };
                vfail!(format!("msg:{what}:{}{t}:old-accepts-new-rejects", b.layer.tag()), "item {i} at offset {off}: old reads {ov:?}; new rejects at layer {:?}; walker: {:?}", b.layer, wire::record_at(msg, off, sec).map(|x| x.0));
            }
            (Err(a), Ok((nv, _))) => {
                let t = if let Item::R(_, r) = nv { format!(":{}", rr::mnemonic(r.rtype)) } else { String::new() };
                let t = if a.layer == Layer::Rdata { t } else { String::new() };
                vfail!(format!("msg:{what}:{}{t}:old-rejects-new-accepts", a.layer.tag()), "item {i} at offset {off}: new reads {nv:?}; old rejects at layer {:?} ({}); walker: {:?}", a.layer, a.why, wire::record_at(msg, off, sec).map(|x| x.0));
            }
            (Ok((ov, oe)), Ok((nv, ne))) => {
                match (ov, nv) {
                    (Item::Q(a), Item::Q(b)) => {
                        vensure!(a == b, "msg:question:content-differs", "item {i} at {off}: old {a:?} new {b:?}");
                        if let Ok((_, _, fl)) = rr::read_name(msg, off, msg.len()) {
                            if fl.pointers > 0 {
                                stats.pointers = true;
                            }
                        }
                        stats.compared_ok += 1;
                    }
                    (Item::R(sa, a), Item::R(sb, b)) => {
                        vensure!(sa == sb && *sa == sec, "msg:record:section-differs", "item {i} at {off}: old section {sa} new section {sb} header says {sec}");
                        compare_records("msg", msg, off, a, b, ctx, &mut stats)?;
                    }
                    _ => vfail!("msg:item-kind-differs", "item {i} at {off}: old {ov:?} new {nv:?}"),
                }
                vensure!(oe == ne, format!("msg:{what}:end-offset-differs"), "item {i} at {off}: old ends at {oe}, new at {ne}");
                // mid-level parser must agree with the low-level traits
                if is_q {
                    let ll = new_question_at(msg, off);
                    vensure!(matches!(&ll, Ok((q, e)) if Item::Q(q.clone()) == *nv && e == ne), "new:midlevel-differs-from-lowlevel:question", "at {off}: MessageParser {nv:?} / split_message_bytes {ll:?}");
                } else {
                    let ll = new_record_at(msg, off);
                    vensure!(matches!(&ll, Ok((r, e)) if Item::R(sec, r.clone()) == *nv && e == ne), "new:midlevel-differs-from-lowlevel:record", "at {off}: MessageParser {nv:?} / split_message_bytes {ll:?}");
                }
                off = *oe;
            }
        }
    }
    ctx.class("walked-to-end");
    Ok(stats)
}

//------------ standalone items ----------------------------------------------------

/// Standalone differential of one item kind at an arbitrary offset >= 12.
/// kind: 0 name (with a label limit), 1 question, 2 record.
pub fn diff_item_at(msg: &[u8], off: usize, limit: usize, kind: u8, ctx: &mut Ctx) -> Result<bool, Violation> {
    debug_assert!(off >= 12 && off <= limit && limit <= msg.len());
    match kind {
        0 => {
            if let Some(x) = pred::name_excl(msg, off, limit) {
                ctx.class(format!("excluded:{x}"));
                return Ok(false);
            }
            let o = old_name_at(msg, off, limit);
            let n = new_name_at(msg, off, limit);
            // the two name buffer types of the new API must agree
            vensure!(n.fwd == n.rev, "new:namebuf-vs-revnamebuf", "at {off} (limit {limit}): NameBuf {:?} RevNameBuf {:?}", n.fwd, n.rev);
            // exact-fit variants
            let contents = &msg[12..limit];
            let exact_f = NameBuf::parse_message_bytes(contents, off - 12).map(|x| labels_of_namebuf(&x)).ok();
            let exact_r = RevNameBuf::parse_message_bytes(contents, off - 12).map(|x| labels_of_revnamebuf(&x)).ok();
            let want_exact = match &n.fwd {
                Ok((l, e)) if *e == limit => Some(l.clone()),
                _ => None,
            };
            vensure!(exact_f == want_exact && exact_r == want_exact, "new:parse-vs-split-message-bytes", "at {off} (limit {limit}): split gives {:?}, parse gives {exact_f:?} / {exact_r:?}", n.fwd);
            // the unparsed (lazy) name type: whatever the full parsers of both
            // codecs accept, it must be able to step over, with the same end
            {
                use domain::new::base::name::UnparsedName;
                use domain::new::base::parse::SplitMessageBytes;
                let un = <&UnparsedName>::split_message_bytes(contents, off - 12).map(|(_, e)| e + 12);
                if let (Ok(a), Ok(b)) = (&o, &n.fwd) {
                    vensure!(un.is_ok(), "new:unparsedname-rejects-name-both-parsers-accept", "at {off} (limit {limit}): old and NameBuf read {} (end {}), <&UnparsedName>::split_message_bytes rejects", gn::show(&a.0), b.1);
                }
                if let Ok(e) = un {
                    let w = wire::skip_name(&msg[..limit], off);
                    vensure!(w == Ok(e), "new:unparsedname-end-differs-from-walker", "at {off} (limit {limit}): UnparsedName ends at {e}, walker skip_name says {w:?}");
                    ctx.class("item:unparsedname:accept");
                }
            }
            match (&o, &n.fwd) {
                (Ok(a), Ok(b)) => {
                    vensure!(a.0 == b.0, "item:name:content-differs", "at {off} (limit {limit}): old {} new {}", gn::show(&a.0), gn::show(&b.0));
                    vensure!(a.1 == b.1, "item:name:end-offset-differs", "at {off}: old {} new {}", a.1, b.1);
                    ctx.class("item:name:both-accept");
                    let ptr = rr::read_name(msg, off, limit).map(|x| x.2.pointers > 0).unwrap_or(false);
                    if ptr {
                        ctx.class("item:name:both-accept:compressed");
                    }
                    Ok(ptr)
                }
                (Err(_), Err(_)) => {
                    ctx.class("item:name:both-reject");
                    Ok(true)
                }
                (Ok(a), Err(_)) => vfail!("item:name:old-accepts-new-rejects", "at {off} (limit {limit}): old reads {} (end {}); walker {:?}", gn::show(&a.0), a.1, rr::read_name(msg, off, limit)),
                (Err(e), Ok(b)) => vfail!("item:name:old-rejects-new-accepts", "at {off} (limit {limit}): new reads {} (end {}); old: {}; walker {:?}", gn::show(&b.0), b.1, e.why, rr::read_name(msg, off, limit)),
            }
        }
        1 => {
            if let Some(x) = pred::name_excl(msg, off, msg.len()) {
                ctx.class(format!("excluded:{x}"));
                return Ok(false);
            }
            let o = old_question_at(msg, off);
            let n = new_question_at(msg, off);
            match (&o, &n) {
                (Ok(a), Ok(b)) => {
                    vensure!(a == b, "item:question:content-differs", "at {off}: old {a:?} new {b:?}");
                    ctx.class("item:question:both-accept");
                    Ok(true)
                }
                (Err(a), Err(b)) => {
                    ctx.class(format!("item:question:both-reject:{}", a.layer.tag().max(b.layer.tag())));
                    Ok(a.layer != Layer::Name)
                }
                (Ok(a), Err(b)) => vfail!(format!("item:question:{}:old-accepts-new-rejects", b.layer.tag()), "at {off}: old {a:?}"),
                (Err(a), Ok(b)) => vfail!(format!("item:question:{}:old-rejects-new-accepts", a.layer.tag()), "at {off}: new {b:?}; old: {}", a.why),
            }
        }
        _ => {
            if let Some(x) = pred::record_excl(msg, off) {
                ctx.class(format!("excluded:{x}"));
                return Ok(false);
            }
            let o = old_record_at(msg, off);
            let n = new_record_at(msg, off);
            match (&o, &n) {
                (Ok(a), Ok(b)) => {
                    let mut st = DiffStats { compared_ok: 0, pointers: false, typed_shared: false, agree_reject: None, excluded: None };
                    compare_records("item", msg, off, &a.0, &b.0, ctx, &mut st)?;
                    vensure!(a.1 == b.1, "item:record:end-offset-differs", "at {off}: old {} new {}", a.1, b.1);
                    ctx.class("item:record:both-accept");
                    Ok(st.pointers || st.typed_shared)
                }
                (Err(a), Err(b)) => {
                    ctx.class(format!("item:record:both-reject:{}", a.layer.tag().max(b.layer.tag())));
                    Ok(a.layer != Layer::Name || b.layer != Layer::Name)
                }
                (Ok(a), Err(b)) => {
                    let t = if b.layer == Layer::Rdata { format!(":{}", rr::mnemonic(a.0.rtype)) } else { String::new() };
                    vfail!(format!("item:record:{}{t}:old-accepts-new-rejects", b.layer.tag()), "at {off}: old {}; walker {:?}", show_rview(&a.0), wire::record_at(msg, off, 0).map(|x| x.0))
                }
                (Err(a), Ok(b)) => {
                    let t = if a.layer == Layer::Rdata { format!(":{}", rr::mnemonic(b.0.rtype)) } else { String::new() };
                    vfail!(format!("item:record:{}{t}:old-rejects-new-accepts", a.layer.tag()), "at {off}: new {}; old: {}; walker {:?}", show_rview(&b.0), a.why, wire::record_at(msg, off, 0).map(|x| x.0))
                }
            }
        }
    }
}
