//! Glue between the model and the library: building zones, reading their
//! content through walk(), driving the receiver (XfrResponseInterpreter +
//! ZoneUpdater) and the sender (XfrMiddlewareSvc).
use super::model::*;
use crate::gen::name::{self as gn, Labels};
use crate::refimpl::rdata as rr;
use crate::refimpl::wire::Asm;
use bytes::Bytes;
use core::future::{ready, Future, Ready};
use core::ops::ControlFlow;
use core::pin::Pin;
use domain::base::iana::Class;
use domain::base::name::FlattenInto;
use domain::base::rdata::ComposeRecordData;
use domain::base::{Message, Name, ParsedName, Rtype, Serial, Ttl};
use domain::net::server::message::{NonUdpTransportContext, Request, TransportSpecificContext, UdpTransportContext};
use domain::net::server::middleware::xfr::{XfrData, XfrDataProvider, XfrDataProviderError, XfrMiddlewareSvc};
use domain::net::server::service::{Service, ServiceResult};
use domain::net::xfr::protocol::XfrResponseInterpreter;
use domain::rdata::ZoneRecordData;
use domain::zonetree::types::{ZoneUpdate, Rrset};
use domain::zonetree::update::ZoneUpdater;
use domain::zonetree::{InMemoryZoneDiff, SharedRrset, Zone, ZoneBuilder};
use futures_util::stream::Once;
use futures_util::StreamExt;
use std::sync::{Arc, Mutex};

pub type StoredData = ZoneRecordData<Bytes, Name<Bytes>>;
pub type ParsedData = ZoneRecordData<Bytes, ParsedName<Bytes>>;
pub type ParsedRec = domain::base::Record<ParsedName<Bytes>, ParsedData>;

pub fn name_of(l: &Labels) -> Name<Bytes> {
    gn::to_name_bytes(l)
}

/// Parses model records into library record values through scratch
/// messages (uncompressed). Err = the library's parser refuses the RDATA.
pub fn to_parsed(recs: &[Rr]) -> Vec<Result<ParsedRec, String>> {
    let mut out: Vec<Result<ParsedRec, String>> = Vec::with_capacity(recs.len());
    let mut i = 0;
    while i < recs.len() {
        let mut asm = Asm::new(0, 0x8400);
        let start = i;
        while i < recs.len() && asm.buf.len() + gn::wire_len(&recs[i].owner) + 10 + recs[i].rdata.len() < 60000 {
            let r = &recs[i];
            asm.record(1, &r.owner, r.rtype, CLASS_IN, r.ttl, &r.rdata);
            i += 1;
        }
        if i == start {
            out.push(Err("record too large for a message".into()));
            i += 1;
            continue;
        }
        let msg = Message::from_octets(Bytes::from(asm.buf)).expect("scratch message");
        let mut n = 0;
        match msg.answer() {
            Ok(sec) => {
                for item in sec.limit_to::<ParsedData>() {
                    match item {
                        Ok(rec) => out.push(Ok(rec)),
                        Err(e) => {
                            out.push(Err(format!("{e}")));
                            // after a parse error the iterator stops
                        }
                    }
                    n += 1;
                }
            }
            Err(e) => out.push(Err(format!("{e}"))),
        }
        while start + n < i {
            out.push(Err("not returned by the record iterator".into()));
            n += 1;
        }
    }
    out
}

pub fn flatten(d: &ParsedData) -> Result<StoredData, String> {
    d.clone().try_flatten_into().map_err(|_| "flatten failed".to_string())
}

pub fn empty_zone(apex: &Labels) -> Zone {
    ZoneBuilder::new(name_of(apex), Class::IN).build()
}

/// Builds a zone holding exactly the version's RRsets (plain nodes, via
/// ZoneBuilder::insert_rrset).
pub fn zone_from_version(apex: &Labels, v: &VersionM) -> Result<Zone, String> {
    let mut b = ZoneBuilder::new(name_of(apex), Class::IN);
    let mut all = vec![v.soa.rr(apex)];
    all.extend(v.records());
    let parsed = to_parsed(&all);
    // group by key preserving the version's ttl
    let mut sets: std::collections::BTreeMap<Key, (Labels, Rrset)> = Default::default();
    for (r, p) in all.iter().zip(parsed) {
        let p = p.map_err(|e| format!("{}: {e}", show_rr(r)))?;
        let d = flatten(p.data())?;
        let e = sets
            .entry(key_of(&r.owner, r.rtype))
            .or_insert_with(|| (r.owner.clone(), Rrset::new(Rtype::from_int(r.rtype), Ttl::from_secs(r.ttl))));
        e.1.push_data(d);
    }
    for (_, (owner, set)) in sets {
        b.insert_rrset(&name_of(&owner), set.into_shared()).map_err(|_| "out of zone".to_string())?;
    }
    Ok(b.build())
}

/// Content of the zone as seen by a fresh reader (walk()).
pub fn snapshot(zone: &Zone) -> Content {
    let acc: Arc<Mutex<Vec<(Vec<u8>, u16, u32, Vec<Vec<u8>>)>>> = Default::default();
    let acc2 = acc.clone();
    let read = zone.read();
    read.walk(Box::new(move |owner: Name<Bytes>, rrset: &SharedRrset, _cut: bool| {
        let mut rds = vec![];
        for d in rrset.data() {
            let mut v: Vec<u8> = vec![];
            let _ = d.compose_rdata(&mut v);
            rds.push(v);
        }
        let mut o = owner.as_slice().to_vec();
        o.make_ascii_lowercase();
        acc2.lock().unwrap().push((o, rrset.rtype().to_int(), rrset.ttl().as_secs(), rds));
    }));
    drop(read);
    let mut c = Content::new();
    for (o, t, ttl, rds) in acc.lock().unwrap().drain(..) {
        if rds.is_empty() {
            continue;
        }
        let e = c.entry((o, t)).or_insert(RrsetC { ttl, rdatas: vec![] });
        // glue records of a cut are reported one by one: merge
        e.ttl = e.ttl.min(ttl);
        e.rdatas.extend(rds);
    }
    for v in c.values_mut() {
        v.rdatas.sort();
    }
    c
}

//------------ receiver --------------------------------------------------------------

pub const K_DELETE_ALL: u8 = 0;
pub const K_DELETE: u8 = 1;
pub const K_ADD: u8 = 2;
pub const K_BEGIN_DELETE: u8 = 3;
pub const K_BEGIN_ADD: u8 = 4;
pub const K_FINISHED: u8 = 5;

fn kind_of<R>(u: &ZoneUpdate<R>) -> u8 {
    match u {
        ZoneUpdate::DeleteAllRecords => K_DELETE_ALL,
        ZoneUpdate::DeleteRecord(_) => K_DELETE,
        ZoneUpdate::AddRecord(_) => K_ADD,
        ZoneUpdate::BeginBatchDelete(_) => K_BEGIN_DELETE,
        ZoneUpdate::BeginBatchAdd(_) => K_BEGIN_ADD,
        ZoneUpdate::Finished(_) => K_FINISHED,
        _ => 99,
    }
}

#[derive(Debug, Clone)]
pub struct RxErr {
    pub msg: usize,
    /// "short-message" | "interpret" | "iterate" | "apply"
    pub stage: &'static str,
    pub what: String,
}

pub struct RxLog {
    pub before: Content,
    pub err: Option<RxErr>,
    pub interp_finished: bool,
    pub updater_finished: bool,
    /// (message index, kind of the update applied last, content) each time
    /// the content visible to a fresh reader changed
    pub changes: Vec<(usize, u8, Content)>,
    /// content changed right after an update that is not a commit point
    pub early_visibility: Option<String>,
    /// (message index, diff) returned by apply()
    pub diffs: Vec<(usize, InMemoryZoneDiff)>,
    pub kinds: Vec<u8>,
    /// content seen by the last observation while the receiver was alive
    pub last_seen: Content,
    /// content after interpreter and updater were dropped
    pub after_drop: Content,
    pub msgs_fed: usize,
    pub single_soa_signals: usize,
}

/// Feeds the messages to a fresh interpreter + updater on `zone` the way the
/// documentation shows (apply each update as it is produced; stop at the
/// first error). `per_update`: observe the zone after every update instead
/// of after every message.
pub async fn receive(zone: &Zone, msgs: &[Vec<u8>], per_update: bool) -> RxLog {
    let before = snapshot(zone);
    let mut log = RxLog {
        before: before.clone(),
        err: None,
        interp_finished: false,
        updater_finished: false,
        changes: vec![],
        early_visibility: None,
        diffs: vec![],
        kinds: vec![],
        last_seen: before.clone(),
        after_drop: Content::new(),
        msgs_fed: 0,
        single_soa_signals: 0,
    };
    let mut last = before;
    {
        let mut updater: ZoneUpdater<ParsedName<Bytes>> = match ZoneUpdater::new(zone.clone()).await {
            Ok(u) => u,
            Err(e) => {
                log.err = Some(RxErr { msg: 0, stage: "apply", what: format!("ZoneUpdater::new: {e}") });
                log.after_drop = snapshot(zone);
                return log;
            }
        };
        let mut interp = XfrResponseInterpreter::new();
        // long streams: look at the zone every `stride` messages only
        let stride = (msgs.len() / 64).max(1);
        let mut committed_in_msg = false;
        'outer: for (i, bytes) in msgs.iter().enumerate() {
            log.msgs_fed = i + 1;
            let msg = match Message::from_octets(Bytes::from(bytes.clone())) {
                Ok(m) => m,
                Err(e) => {
                    log.err = Some(RxErr { msg: i, stage: "short-message", what: format!("{e}") });
                    break;
                }
            };
            let mut last_kind = 255u8;
            {
                let it = match interp.interpret_response(msg) {
                    Ok(it) => it,
                    Err(e) => {
                        log.err = Some(RxErr { msg: i, stage: "interpret", what: format!("{e}") });
                        break;
                    }
                };
                for item in it {
                    let update = match item {
                        Ok(u) => u,
                        Err(domain::net::xfr::protocol::IterationError::SingleSoaIxfrTcpRetrySignal) if i + 1 < msgs.len() => {
                            // The stream is a TCP stream and more messages
                            // follow: the first message held only the SOA.
                            log.single_soa_signals += 1;
                            continue;
                        }
                        Err(e) => {
                            log.err = Some(RxErr { msg: i, stage: "iterate", what: format!("{e:?}") });
                            break 'outer;
                        }
                    };
                    let k = kind_of(&update);
                    log.kinds.push(k);
                    last_kind = k;
                    match updater.apply(update).await {
                        Ok(Some(d)) => log.diffs.push((i, d)),
                        Ok(None) => {}
                        Err(e) => {
                            log.err = Some(RxErr { msg: i, stage: "apply", what: format!("{e}") });
                            break 'outer;
                        }
                    }
                    if k == K_BEGIN_DELETE || k == K_FINISHED {
                        committed_in_msg = true;
                    }
                    if per_update {
                        let now = snapshot(zone);
                        if now != last {
                            if k != K_BEGIN_DELETE && k != K_FINISHED && log.early_visibility.is_none() {
                                log.early_visibility = Some(format!(
                                    "content visible to a new reader changed after update kind {k} in message {i}: {}",
                                    show_content_diff(&last, &now)
                                ));
                            }
                            log.changes.push((i, k, now.clone()));
                            last = now;
                        }
                    }
                }
            }
            if !per_update && ((i + 1) % stride == 0 || i + 1 == msgs.len()) {
                let now = snapshot(zone);
                if now != last {
                    if !committed_in_msg && log.early_visibility.is_none() {
                        log.early_visibility = Some(format!(
                            "content visible to a new reader changed in the messages up to {i} although none of them held a commit point: {}",
                            show_content_diff(&last, &now)
                        ));
                    }
                    log.changes.push((i, last_kind, now.clone()));
                    last = now;
                }
                committed_in_msg = false;
            }
        }
        // one more look while the receiver is still alive (error paths)
        let now = snapshot(zone);
        if now != last {
            if log.early_visibility.is_none() && (per_update || !committed_in_msg) {
                log.early_visibility = Some(format!(
                    "content visible to a new reader changed by a failing step: {}",
                    show_content_diff(&last, &now)
                ));
            }
            log.changes.push((log.msgs_fed.saturating_sub(1), 254, now.clone()));
            last = now;
        }
        log.interp_finished = interp.is_finished();
        log.updater_finished = updater.is_finished();
        drop(interp);
        drop(updater);
    }
    log.last_seen = last;
    log.after_drop = snapshot(zone);
    log
}

//------------ sender ------------------------------------------------------------------

#[derive(Clone)]
pub struct NextSvc;

impl<M: Clone + Default> Service<Vec<u8>, M> for NextSvc {
    type Target = Vec<u8>;
    type Stream = Once<Ready<ServiceResult<Self::Target>>>;
    type Future = Ready<Self::Stream>;
    fn call(&self, _request: Request<Vec<u8>, M>) -> Self::Future {
        panic!("C10 harness: next service must not be called for XFR requests")
    }
}

#[derive(Clone)]
pub struct Provider {
    pub zone: Zone,
    pub diffs: Vec<Arc<InMemoryZoneDiff>>,
    pub compat: bool,
}

impl<M> XfrDataProvider<M> for Provider {
    type Diff = Arc<InMemoryZoneDiff>;
    fn request<Octs>(
        &self,
        req: &Request<Octs, M>,
        diff_from: Option<Serial>,
    ) -> Pin<Box<dyn Future<Output = Result<XfrData<Self::Diff>, XfrDataProviderError>> + Sync + Send + '_>>
    where
        Octs: octseq::Octets + Send + Sync,
    {
        let res = req.message().sole_question().map_err(XfrDataProviderError::ParseError).and_then(|q| {
            if q.qname() == self.zone.apex_name() && q.qclass() == self.zone.class() {
                let diffs = if self.diffs.first().map(|d| d.start_serial) == diff_from { self.diffs.clone() } else { vec![] };
                Ok(XfrData::new(self.zone.clone(), diffs, self.compat))
            } else {
                Err(XfrDataProviderError::UnknownZone)
            }
        });
        Box::pin(ready(res))
    }
}

pub struct ReqOpts {
    pub ixfr_from: Option<u32>,
    pub udp: Option<Option<u16>>,
    pub reserve: u16,
    pub id: u16,
}

pub fn mk_request(apex: &Labels, o: &ReqOpts) -> Request<Vec<u8>, ()> {
    let mut asm = Asm::new(o.id, 0x0000);
    asm.question(apex, if o.ixfr_from.is_some() { 251 } else { 252 }, CLASS_IN);
    if let Some(s) = o.ixfr_from {
        let soa = SoaM { ttl: 0, mname: vec![b"m".to_vec()], rname: vec![b"r".to_vec()], serial: s, refresh: 0, retry: 0, expire: 0, minimum: 0 };
        asm.record(2, apex, rr::SOA, CLASS_IN, 0, &soa.rdata());
    }
    let msg = Message::from_octets(asm.buf).expect("request");
    let ctx = match o.udp {
        Some(hint) => TransportSpecificContext::Udp(UdpTransportContext::new(hint)),
        None => TransportSpecificContext::NonUdp(NonUdpTransportContext::new(None)),
    };
    let mut req = Request::new("127.0.0.1:12345".parse().unwrap(), tokio::time::Instant::now(), msg, ctx, ());
    if o.reserve > 0 {
        req.reserve_bytes(o.reserve);
    }
    req
}

/// Runs XfrMiddlewareSvc::preprocess and collects the response messages.
pub async fn serve(provider: Provider, req: &Request<Vec<u8>, ()>) -> Result<Vec<Vec<u8>>, String> {
    let sem = Arc::new(tokio::sync::Semaphore::new(1));
    let sem2 = Arc::new(tokio::sync::Semaphore::new(1));
    let res = XfrMiddlewareSvc::<Vec<u8>, NextSvc, (), Provider>::preprocess(sem, sem2, req, provider).await;
    let mut stream = match res {
        Ok(ControlFlow::Break(s)) => s,
        Ok(ControlFlow::Continue(())) => return Err("request not handled by the XFR middleware".into()),
        Err(rcode) => return Err(format!("preprocess returned {rcode}")),
    };
    let mut out = vec![];
    let mut n = 0usize;
    while let Some(item) = stream.next().await {
        n += 1;
        if n > 200_000 {
            return Err("response stream does not end".into());
        }
        match item {
            Ok(cr) => {
                let (resp, _fb) = cr.into_inner();
                if let Some(b) = resp {
                    out.push(b.as_message().as_slice().to_vec());
                }
            }
            Err(e) => return Err(format!("service error in stream: {e:?}")),
        }
    }
    Ok(out)
}


//------------ more builders ------------------------------------------------------------

/// Library RRset for a model RRset (records parsed through a scratch message).
pub fn shared_rrset(owner: &Labels, rtype: u16, ttl: u32, rdatas: &[Vec<u8>]) -> Result<SharedRrset, String> {
    let recs: Vec<Rr> = rdatas.iter().map(|rd| Rr { owner: owner.clone(), rtype, ttl, rdata: rd.clone() }).collect();
    let mut set = Rrset::new(Rtype::from_int(rtype), Ttl::from_secs(ttl));
    for p in to_parsed(&recs) {
        set.push_data(flatten(p?.data())?);
    }
    Ok(set.into_shared())
}

/// InMemoryZoneDiff for the step a -> b built through the public builder.
pub fn model_diff(apex: &Labels, a: &VersionM, b: &VersionM) -> Result<InMemoryZoneDiff, String> {
    use domain::zonetree::InMemoryZoneDiffBuilder;
    let (del, add) = diff_records(a, b);
    let mut builder = InMemoryZoneDiffBuilder::new();
    let group = |v: &[Rr]| -> std::collections::BTreeMap<Key, (Labels, u32, Vec<Vec<u8>>)> {
        let mut m: std::collections::BTreeMap<Key, (Labels, u32, Vec<Vec<u8>>)> = Default::default();
        for r in v {
            m.entry(key_of(&r.owner, r.rtype)).or_insert((r.owner.clone(), r.ttl, vec![])).2.push(r.rdata.clone());
        }
        m
    };
    for ((_, t), (owner, ttl, rds)) in group(&del) {
        builder.remove(name_of(&owner), Rtype::from_int(t), shared_rrset(&owner, t, ttl, &rds)?);
    }
    for ((_, t), (owner, ttl, rds)) in group(&add) {
        builder.add(name_of(&owner), Rtype::from_int(t), shared_rrset(&owner, t, ttl, &rds)?);
    }
    builder.remove(name_of(apex), Rtype::SOA, shared_rrset(apex, rr::SOA, a.soa.ttl, &[a.soa.rdata()])?);
    builder.add(name_of(apex), Rtype::SOA, shared_rrset(apex, rr::SOA, b.soa.ttl, &[b.soa.rdata()])?);
    builder.build().map_err(|e| format!("InMemoryZoneDiffBuilder::build: {e}"))
}

/// Sender zone with delegations stored as zone cuts (NS + DS + glue) and
/// single CNAMEs stored as CNAME nodes where the model allows it without
/// hiding anything from walk(). Returns (zone, used_specials).
pub fn zone_with_specials(apex: &Labels, v: &VersionM) -> Result<(Zone, bool), String> {
    zone_with_specials2(apex, v).map(|(z, cuts, cnames)| (z, !cuts.is_empty() || !cnames.is_empty()))
}

/// As above; returns the owners stored as zone cuts and as CNAME nodes.
pub fn zone_with_specials2(apex: &Labels, v: &VersionM) -> Result<(Zone, Vec<Labels>, Vec<Labels>), String> {
    let mut b = ZoneBuilder::new(name_of(apex), Class::IN);
    let mut cname_nodes: Vec<Labels> = vec![];
    let mut used_cuts: Vec<Labels> = vec![];
    let is_below = |x: &Labels, cut: &Labels| -> bool {
        x.len() >= cut.len() && gn::lower(&x[x.len() - cut.len()..].to_vec()) == gn::lower(cut)
    };
    // candidate cuts: non-apex NS owners where everything at the owner is
    // NS/DS and everything below is A/AAAA
    let mut cuts: Vec<Labels> = vec![];
    for s in v.sets.values() {
        if s.rtype == rr::NS && gn::lower(&s.owner) != gn::lower(apex) {
            let ok = v.sets.values().all(|t| {
                if gn::lower(&t.owner) == gn::lower(&s.owner) {
                    t.rtype == rr::NS || t.rtype == rr::DS
                } else if is_below(&t.owner, &s.owner) {
                    t.rtype == rr::A || t.rtype == rr::AAAA
                } else {
                    true
                }
            });
            if ok && !cuts.iter().any(|c| is_below(&s.owner, c) || is_below(c, &s.owner)) {
                cuts.push(s.owner.clone());
            }
        }
    }
    b.insert_rrset(&name_of(apex), shared_rrset(apex, rr::SOA, v.soa.ttl, &[v.soa.rdata()])?).map_err(|_| "out of zone")?;
    for s in v.sets.values() {
        if let Some(cut) = cuts.iter().find(|c| is_below(&s.owner, c)) {
            if s.rtype != rr::NS || gn::lower(&s.owner) != gn::lower(cut) {
                continue; // DS and glue are attached to the cut below
            }
            let ds = v.sets.get(&key_of(cut, rr::DS));
            let ds = match ds {
                Some(d) => Some(shared_rrset(&d.owner, d.rtype, d.ttl, &d.rdatas)?),
                None => None,
            };
            let mut glue = vec![];
            for t in v.sets.values() {
                if is_below(&t.owner, cut) && (t.rtype == rr::A || t.rtype == rr::AAAA) {
                    let set = shared_rrset(&t.owner, t.rtype, t.ttl, &t.rdatas)?;
                    for d in set.data() {
                        glue.push(domain::base::Record::new(name_of(&t.owner), Class::IN, set.ttl(), d.clone()));
                    }
                }
            }
            b.insert_zone_cut(&name_of(cut), shared_rrset(&s.owner, s.rtype, s.ttl, &s.rdatas)?, ds, glue).map_err(|e| format!("insert_zone_cut: {e}"))?;
            used_cuts.push(cut.clone());
            continue;
        }
        let alone = !v.sets.values().any(|t| gn::lower(&t.owner) == gn::lower(&s.owner) && t.rtype != s.rtype);
        if s.rtype == rr::CNAME && s.rdatas.len() == 1 && alone && gn::lower(&s.owner) != gn::lower(apex) {
            let set = shared_rrset(&s.owner, s.rtype, s.ttl, &s.rdatas)?;
            let rrec = domain::zonetree::SharedRr::new(set.ttl(), set.data()[0].clone());
            b.insert_cname(&name_of(&s.owner), rrec).map_err(|e| format!("insert_cname: {e}"))?;
            cname_nodes.push(s.owner.clone());
            continue;
        }
        b.insert_rrset(&name_of(&s.owner), shared_rrset(&s.owner, s.rtype, s.ttl, &s.rdatas)?).map_err(|_| "out of zone")?;
    }
    Ok((b.build(), used_cuts, cname_nodes))
}

/// Answer-section records of library-built response messages, read with
/// the independent wire walker (names decompressed).
pub fn records_of(msgs: &[Vec<u8>]) -> Result<Vec<Rr>, String> {
    let mut out = vec![];
    for (i, m) in msgs.iter().enumerate() {
        let w = crate::refimpl::wire::walk(m).ok_or_else(|| format!("message {i}: no header"))?;
        if let Some((k, e)) = &w.error {
            return Err(format!("message {i}: item {k}: {e:?}"));
        }
        for r in &w.records {
            if r.section != 1 {
                continue;
            }
            let owner = r.owner.clone().map_err(|e| format!("message {i}: owner: {e:?}"))?;
            let (rd, _) = crate::refimpl::wire::rdata_normal(m, r).map_err(|e| format!("message {i}: rdata: {e:?}"))?;
            out.push(Rr { owner, rtype: r.rtype, ttl: r.ttl, rdata: rd });
        }
    }
    Ok(out)
}

//------------ query answers ---------------------------------------------------------------

/// Summary of what a fresh reader is answered for (owner, type): rcode,
/// kind of content, TTL, sorted RDATA, whether an authority part is there.
pub fn answer_summary(zone: &Zone, owner_wire: &[u8], rtype: u16) -> String {
    use domain::zonetree::AnswerContent;
    let Ok(name) = Name::from_octets(Bytes::copy_from_slice(owner_wire)) else {
        return "bad-name".into();
    };
    let read = zone.read();
    match read.query(name, Rtype::from_int(rtype)) {
        Err(_) => "out-of-zone".into(),
        Ok(a) => {
            let content = match a.content() {
                AnswerContent::Data(set) => {
                    let mut rds: Vec<String> = set
                        .data()
                        .iter()
                        .map(|d| {
                            let mut v: Vec<u8> = vec![];
                            let _ = d.compose_rdata(&mut v);
                            hex(&v)
                        })
                        .collect();
                    rds.sort();
                    format!("data {} ttl={} {:?}", set.rtype(), set.ttl().as_secs(), rds)
                }
                AnswerContent::Cname(rr) => {
                    let mut v: Vec<u8> = vec![];
                    let _ = rr.data().compose_rdata(&mut v);
                    format!("cname ttl={} {}", rr.ttl().as_secs(), hex(&v))
                }
                AnswerContent::NoData => "nodata".into(),
            };
            format!("rcode={} {} authority={}", a.rcode(), content, a.authority().is_some())
        }
    }
}

//------------ TSIG in front of the XFR middleware ---------------------------------------

/// Serves the request through TsigMiddlewareSvc -> XfrMiddlewareSvc (the
/// stack an application builds), with a request signed by a TSIG client
/// sequence; every response is validated by that sequence (which strips the
/// TSIG record) before it is returned. `Err` = the signed stream is not a
/// valid TSIG-protected answer stream.
///
/// Uses the wall clock for the TSIG time fields (the middleware compares the
/// request's time with its own clock); the outcome does not depend on its
/// value.
pub async fn serve_tsig(provider: Provider, apex: &Labels, ixfr_from: Option<u32>, id: u16) -> Result<(Vec<Vec<u8>>, Vec<usize>), String> {
    use domain::base::iana::Rcode;
    use domain::base::MessageBuilder;
    use domain::net::server::middleware::tsig::TsigMiddlewareSvc;
    use domain::rdata::tsig::Time48;
    use domain::tsig::{Algorithm, ClientSequence, Key, KeyName};
    use std::str::FromStr;
    let key_name = KeyName::from_str("c10-key").map_err(|e| format!("{e}"))?;
    let key = Arc::new(Key::new(Algorithm::Sha256, &[7u8; 32], key_name, None, None).map_err(|e| format!("{e}"))?);
    let svc = XfrMiddlewareSvc::<Vec<u8>, NextSvc, Option<Arc<Key>>, Provider>::new(NextSvc, provider, 1);
    let svc = TsigMiddlewareSvc::<Vec<u8>, _, _, ()>::new(svc, key.clone());

    let mut msg = MessageBuilder::new_vec();
    msg.header_mut().set_id(id);
    let mut msg = msg.question();
    msg.push((gn::to_name(apex), Rtype::from_int(if ixfr_from.is_some() { 251 } else { 252 }))).map_err(|e| format!("{e}"))?;
    let mut msg = msg.authority();
    if let Some(s) = ixfr_from {
        let n: Name<Vec<u8>> = Name::from_str("m.").unwrap();
        let t = Ttl::from_secs(0);
        let soa = domain::rdata::Soa::new(n.clone(), n, Serial(s), t, t, t, t);
        msg.push((gn::to_name(apex), Class::IN, t, soa)).map_err(|e| format!("{e}"))?;
    }
    let mut msg = msg.additional();
    let mut client = ClientSequence::request(key.clone(), &mut msg, Time48::now()).map_err(|e| format!("signing the request: {e}"))?;
    let req = Request::new(
        "127.0.0.1:12345".parse().unwrap(),
        tokio::time::Instant::now(),
        msg.into_message(),
        TransportSpecificContext::NonUdp(NonUdpTransportContext::new(None)),
        (),
    );
    let mut stream = svc.call(req).await;
    let mut out = vec![];
    let mut wire_lens = vec![];
    let mut n = 0usize;
    while let Some(item) = stream.next().await {
        let item = item.map_err(|e| format!("service error in stream: {e:?}"))?;
        let (resp, _fb) = item.into_inner();
        let Some(resp) = resp else { continue };
        n += 1;
        let wire = resp.finish().as_dgram_slice().to_vec();
        wire_lens.push(wire.len());
        if wire.len() > 65535 {
            return Err(format!("response {n} has {} octets", wire.len()));
        }
        let mut m = Message::from_octets(wire).map_err(|e| format!("response {n}: {e}"))?;
        if m.header().tc() || m.header().rcode() != Rcode::NOERROR {
            return Err(format!("response {n} of the signed stream: tc={} rcode={} ancount={}", m.header().tc(), m.header().rcode(), m.header_counts().ancount()));
        }
        client.answer(&mut m, Time48::now()).map_err(|e| format!("response {n} fails TSIG validation: {e}"))?;
        out.push(m.as_slice().to_vec());
    }
    client.done().map_err(|e| format!("TSIG sequence not complete after {n} responses: {e}"))?;
    Ok((out, wire_lens))
}
