//! C10 — schedules: histories in which transfers overlap with other
//! activity on the same zone.
//!
//! * `writers`: several writers of one zone (ZoneUpdater in its three
//!   shapes, WritableZone used directly) whose lifetimes overlap: a later
//!   writer asks for the zone (its open future is polled) while an earlier
//!   one still holds it, at a generated point of the earlier writer's life;
//!   writers commit or break off. Reference: the sequence of committed model
//!   versions. Readers must only ever see committed versions, a writer that
//!   breaks off leaves the last committed version, every commit reports a
//!   diff that obeys the diff law.
//! * `sender-updates`: XfrMiddlewareSvc serves an AXFR (or an IXFR answered
//!   AXFR-style) while the sender's zone is committed to later versions at
//!   generated points of the transfer (before the request, between accepting
//!   the request and the start of the zone walk — with and without the walk
//!   being queued on the zone-walk semaphore —, after k response messages).
//!   The receiver must end up with exactly one of the sender's versions, not
//!   older than the one current when the request was accepted.
use super::*;
use bytes::Bytes;
use core::future::Future;
use core::pin::Pin;
use core::task::Poll;
use domain::base::ParsedName;
use domain::zonetree::types::ZoneUpdate;
use domain::zonetree::update::ZoneUpdater;
use domain::zonetree::{InMemoryZoneDiff, WritableZone, WritableZoneNode, Zone};
use std::time::Duration;

//------------ writers ----------------------------------------------------------------

#[derive(Clone, Copy, Debug, PartialEq, Eq, Hash)]
enum WKind {
    /// DeleteRecord.. AddRecord.. Finished
    Incremental,
    /// BeginBatchDelete, DeleteRecord.., BeginBatchAdd, AddRecord.., Finished
    IxfrBatch,
    /// DeleteAllRecords, AddRecord.., Finished
    ReplaceAll,
    /// Zone::write, open, update_rrset / remove_rrset, commit
    Nodes,
}

impl WKind {
    fn label(self) -> &'static str {
        match self {
            WKind::Incremental => "updater-delete-add",
            WKind::IxfrBatch => "updater-ixfr-batch",
            WKind::ReplaceAll => "updater-delete-all-then-add",
            WKind::Nodes => "writable-zone-nodes",
        }
    }
}

#[derive(Clone, Debug, PartialEq, Eq, Hash)]
struct WSpec {
    kind: WKind,
    commit: bool,
    /// fraction of the body steps done before the writer breaks off
    abort_at: u8,
    /// when the following writer asks for the zone: 0 after this writer is
    /// gone, 1 before this writer's first step, 2 at a fraction of its body,
    /// 3 after the body (before the commit step / the drop), 4 after the
    /// commit step but before this writer is dropped
    next_open: u8,
    next_frac: u8,
    /// the writer after the next one asks at the same moment
    queue_two: bool,
}

fn gen_wspec(u: &mut Unstructured) -> WSpec {
    WSpec {
        kind: [WKind::Incremental, WKind::ReplaceAll, WKind::IxfrBatch, WKind::Nodes, WKind::ReplaceAll, WKind::Incremental][pick(u, 6)],
        commit: !chance(u, 90),
        abort_at: byte(u),
        next_open: [2u8, 1, 3, 0, 4, 2][pick(u, 6)],
        next_frac: byte(u),
        queue_two: chance(u, 80),
    }
}

enum Step {
    Upd(u8, Option<Rr>),
    NodeSet(Labels, u16, Option<SetM>),
    NodeSoa,
    NodeCommit,
}

fn plan_steps(kind: WKind, apex: &Labels, base: &VersionM, target: &VersionM) -> Vec<Step> {
    let (del, add) = diff_records(base, target);
    let mut s = vec![];
    match kind {
        WKind::Incremental => {
            s.extend(del.into_iter().map(|r| Step::Upd(K_DELETE, Some(r))));
            s.extend(add.into_iter().map(|r| Step::Upd(K_ADD, Some(r))));
            s.push(Step::Upd(K_FINISHED, Some(target.soa.rr(apex))));
        }
        WKind::IxfrBatch => {
            s.push(Step::Upd(K_BEGIN_DELETE, Some(base.soa.rr(apex))));
            s.extend(del.into_iter().map(|r| Step::Upd(K_DELETE, Some(r))));
            s.push(Step::Upd(K_BEGIN_ADD, Some(target.soa.rr(apex))));
            s.extend(add.into_iter().map(|r| Step::Upd(K_ADD, Some(r))));
            s.push(Step::Upd(K_FINISHED, Some(target.soa.rr(apex))));
        }
        WKind::ReplaceAll => {
            s.push(Step::Upd(K_DELETE_ALL, None));
            s.extend(target.records().into_iter().map(|r| Step::Upd(K_ADD, Some(r))));
            s.push(Step::Upd(K_FINISHED, Some(target.soa.rr(apex))));
        }
        WKind::Nodes => {
            for (k, set) in &base.sets {
                match target.sets.get(k) {
                    Some(t) if t == set => {}
                    Some(t) => s.push(Step::NodeSet(t.owner.clone(), t.rtype, Some(t.clone()))),
                    None => s.push(Step::NodeSet(set.owner.clone(), set.rtype, None)),
                }
            }
            for (k, t) in &target.sets {
                if !base.sets.contains_key(k) {
                    s.push(Step::NodeSet(t.owner.clone(), t.rtype, Some(t.clone())));
                }
            }
            s.push(Step::NodeSoa);
            s.push(Step::NodeCommit);
        }
    }
    s
}

enum Handle {
    Up(ZoneUpdater<ParsedName<Bytes>>),
    Nodes { w: Box<dyn WritableZone>, root: Option<Box<dyn WritableZoneNode>> },
}

type OpenFut = Pin<Box<dyn Future<Output = Result<Handle, String>>>>;

fn open_fut(kind: WKind, zone: &Zone) -> OpenFut {
    let zone = zone.clone();
    match kind {
        WKind::Nodes => {
            // Zone::write() itself is the request for the zone
            let fut = zone.write();
            Box::pin(async move {
                let w = fut.await;
                let root = w.open(true).await.map_err(|e| format!("open: {e}"))?;
                Ok(Handle::Nodes { w, root: Some(root) })
            })
        }
        _ => {
            let fut = ZoneUpdater::new(zone);
            Box::pin(async move { Ok(Handle::Up(fut.await.map_err(|e| format!("ZoneUpdater::new: {e}"))?)) })
        }
    }
}

async fn poll_once(f: &mut OpenFut) -> Poll<Result<Handle, String>> {
    std::future::poll_fn(|cx| Poll::Ready(f.as_mut().poll(cx))).await
}

async fn exec_step(h: &mut Handle, step: &Step, apex: &Labels, target: &VersionM) -> Result<Option<InMemoryZoneDiff>, String> {
    match (h, step) {
        (Handle::Up(up), Step::Upd(k, r)) => {
            let upd = match r {
                None => ZoneUpdate::DeleteAllRecords,
                Some(r) => {
                    let rec = to_parsed(std::slice::from_ref(r)).into_iter().next().ok_or("no record")??;
                    match *k {
                        K_DELETE => ZoneUpdate::DeleteRecord(rec),
                        K_ADD => ZoneUpdate::AddRecord(rec),
                        K_BEGIN_DELETE => ZoneUpdate::BeginBatchDelete(rec),
                        K_BEGIN_ADD => ZoneUpdate::BeginBatchAdd(rec),
                        _ => ZoneUpdate::Finished(rec),
                    }
                }
            };
            up.apply(upd).await.map_err(|e| format!("apply: {e}"))
        }
        (Handle::Nodes { root, .. }, Step::NodeSet(owner, rtype, set)) => {
            use domain::base::name::Label;
            let root = root.as_ref().ok_or("root node gone")?;
            let rel = &owner[..owner.len() - apex.len()];
            let mut node: Option<Box<dyn WritableZoneNode>> = None;
            for l in rel.iter().rev() {
                let label = Label::from_slice(l).map_err(|_| "label")?;
                let next = match &node {
                    None => root.update_child(label).await,
                    Some(n) => n.update_child(label).await,
                }
                .map_err(|e| format!("update_child: {e}"))?;
                node = Some(next);
            }
            let t: &dyn WritableZoneNode = match &node {
                Some(n) => n.as_ref(),
                None => root.as_ref(),
            };
            match set {
                Some(s) => t.update_rrset(shared_rrset(&s.owner, s.rtype, s.ttl, &s.rdatas)?).await.map_err(|e| format!("update_rrset: {e}"))?,
                None => t.remove_rrset(domain::base::Rtype::from_int(*rtype)).await.map_err(|e| format!("remove_rrset: {e}"))?,
            }
            Ok(None)
        }
        (Handle::Nodes { root, .. }, Step::NodeSoa) => {
            let root = root.as_ref().ok_or("root node gone")?;
            root.update_rrset(shared_rrset(apex, rr::SOA, target.soa.ttl, &[target.soa.rdata()])?).await.map_err(|e| format!("update_rrset(SOA): {e}"))?;
            Ok(None)
        }
        (Handle::Nodes { w, root }, Step::NodeCommit) => {
            drop(root.take());
            w.commit(false).await.map_err(|e| format!("commit: {e}"))
        }
        _ => Err("harness: step does not fit the writer".into()),
    }
}

/// What the driver reports: Err(Violation) for oracle failures.
struct WritersOutcome {
    overlapped: usize,
    after_commit: usize,
    after_abort: usize,
    two_queued: usize,
    commits: usize,
    aborts_with_changes: usize,
    diffs: Vec<(String, InMemoryZoneDiff, Content, Content)>,
}

#[allow(clippy::too_many_arguments)]
async fn drive_writers(zone: &Zone, apex: &Labels, chain: &[VersionM], specs: &[WSpec]) -> Result<WritersOutcome, Violation> {
    let mut out = WritersOutcome { overlapped: 0, after_commit: 0, after_abort: 0, two_queued: 0, commits: 0, aborts_with_changes: 0, diffs: vec![] };
    let mut committed: VersionM = chain[0].clone();
    let mut n_commits = 0usize;
    // writers that asked for the zone and wait: (index, future)
    let mut pending: Vec<(usize, OpenFut)> = vec![];
    let mut next_to_open = 0usize;
    let n = specs.len();
    let wait = Duration::from_secs(30);
    let mut prev_committed = false;
    let mut done = 0usize;
    while done < n {
        // who writes now: a waiting writer that gets the zone, else the next one
        let (i, mut h, was_queued) = if pending.is_empty() {
            let i = next_to_open;
            next_to_open += 1;
            let fut = open_fut(specs[i].kind, zone);
            match tokio::time::timeout(wait, fut).await {
                Ok(Ok(h)) => (i, h, false),
                Ok(Err(e)) => return Err(Violation::new("writers:open-fails", format!("writer {i}: {e}"))),
                Err(_) => return Err(Violation::new("writers:free-zone-not-granted", format!("writer {i} asked for a zone nobody holds and did not get it"))),
            }
        } else {
            let idxs: Vec<usize> = pending.iter().map(|p| p.0).collect();
            let futs: Vec<OpenFut> = pending.drain(..).map(|p| p.1).collect();
            match tokio::time::timeout(wait, futures_util::future::select_all(futs)).await {
                Ok((Ok(h), k, rest)) => {
                    let mut ix = idxs.clone();
                    let i = ix.remove(k);
                    pending = ix.into_iter().zip(rest).collect();
                    (i, h, true)
                }
                Ok((Err(e), k, _)) => return Err(Violation::new("writers:open-fails", format!("queued writer {}: {e}", idxs[k]))),
                Err(_) => return Err(Violation::new("writers:queued-writer-never-gets-the-zone", format!("writers {idxs:?} asked for the zone while another writer held it; that writer is gone and none of them got the zone"))),
            }
        };
        if was_queued {
            if prev_committed {
                out.after_commit += 1;
            } else {
                out.after_abort += 1;
            }
        }
        let spec = &specs[i];
        let what = format!("writers:{}", spec.kind.label());
        let base = committed.clone();
        let mut target = chain[(n_commits + 1) % chain.len()].clone();
        if n_commits + 1 >= chain.len() {
            target.soa.serial = base.soa.serial.wrapping_add(1);
        }
        let base_c = base.content(apex);
        let target_c = target.content(apex);
        let steps = plan_steps(spec.kind, apex, &base, &target);
        let body = steps.len() - 1;
        let stop = if spec.commit { body } else { (spec.abort_at as usize * (body + 1)) >> 8 };
        let open_pos: Option<usize> = match spec.next_open {
            0 => None,
            1 => Some(0),
            2 => Some(((spec.next_frac as usize * (body + 1)) >> 8).min(stop)),
            3 => Some(stop),
            _ => Some(usize::MAX),
        };
        // a writer of this zone is open: every other request must wait
        let mut lock_held = true;
        let every = (steps.len() / 48).max(1);
        let mut diffs: Vec<InMemoryZoneDiff> = vec![];
        let mut changed_something = false;
        let queue_others = |pending: &mut Vec<(usize, OpenFut)>, next_to_open: &mut usize, out: &mut WritersOutcome| {
            let mut v = vec![];
            let k = if spec.queue_two { 2 } else { 1 };
            for _ in 0..k {
                if *next_to_open < n {
                    v.push(*next_to_open);
                    *next_to_open += 1;
                }
            }
            if v.len() == 2 {
                out.two_queued += 1;
            }
            for j in &v {
                pending.push((*j, open_fut(specs[*j].kind, zone)));
            }
            v
        };
        for s in 0..=body {
            if open_pos == Some(s) && s <= stop {
                let newly = queue_others(&mut pending, &mut next_to_open, &mut out);
                for j in newly {
                    let p = pending.iter_mut().find(|p| p.0 == j).unwrap();
                    match poll_once(&mut p.1).await {
                        Poll::Pending => out.overlapped += 1,
                        Poll::Ready(_) => {
                            return Err(Violation::new(
                                "writers:second-writer-gets-the-zone-while-it-is-open",
                                format!("writer {j} ({}) was granted the zone while writer {i} ({}) holds it open at step {s}", specs[j].kind.label(), spec.kind.label()),
                            ))
                        }
                    }
                }
            }
            if s == stop && !spec.commit {
                break;
            }
            let step = &steps[s];
            let r = exec_step(&mut h, step, apex, &target).await;
            let d = match r {
                Ok(d) => d,
                Err(e) => return Err(Violation::new(format!("{what}:write-error"), format!("writer {i} step {s} of {}: {e} (queued before: {was_queued})", steps.len()))),
            };
            if let Some(d) = d {
                diffs.push(d);
            }
            if !matches!(step, Step::Upd(K_BEGIN_DELETE, _)) {
                changed_something = true;
            }
            let last = s == body;
            if last || s % every == 0 {
                let now = snapshot(zone);
                let want = if last { &target_c } else { &base_c };
                if now != *want {
                    let sig = if last { format!("{what}:committed-content-differs") } else { format!("{what}:uncommitted-changes-visible") };
                    return Err(Violation::new(
                        sig,
                        format!(
                            "writer {i} of {n} ({}; asked for the zone while another writer held it: {was_queued}) after step {s} of {}: a fresh reader sees (left) instead of the {} version (right): {}",
                            spec.kind.label(),
                            steps.len(),
                            if last { "newly committed" } else { "last committed" },
                            show_content_diff(&now, want)
                        ),
                    ));
                }
            }
            if last && matches!(h, Handle::Up(_)) {
                lock_held = false; // Finished closes the updater's write handle
            }
        }
        if spec.commit {
            if open_pos == Some(usize::MAX) {
                let newly = queue_others(&mut pending, &mut next_to_open, &mut out);
                for j in newly {
                    let p = pending.iter_mut().find(|p| p.0 == j).unwrap();
                    match poll_once(&mut p.1).await {
                        Poll::Pending => out.overlapped += 1,
                        Poll::Ready(Ok(hh)) if !lock_held => {
                            // the updater released the zone at Finished: keep
                            // the handle, this writer simply goes next
                            p.1 = Box::pin(core::future::ready(Ok(hh)));
                            // from now on the zone is held again
                            lock_held = true;
                        }
                        Poll::Ready(Err(e)) => return Err(Violation::new("writers:open-fails", format!("writer {j}: {e}"))),
                        Poll::Ready(Ok(_)) => {
                            return Err(Violation::new(
                                "writers:second-writer-gets-the-zone-while-it-is-open",
                                format!("writer {j} ({}) was granted the zone while writer {i} ({}) still holds it after its commit", specs[j].kind.label(), spec.kind.label()),
                            ))
                        }
                    }
                }
            }
            committed = target.clone();
            n_commits += 1;
            out.commits += 1;
            if diffs.len() != 1 {
                return Err(Violation::new(format!("{what}:commit:no-diff-returned"), format!("writer {i}: the commit advanced the serial {} -> {} and returned {} diffs", base.serial(), target.serial(), diffs.len())));
            }
            out.diffs.push((format!("{what}:commit"), diffs.pop().unwrap(), base_c.clone(), target_c.clone()));
            prev_committed = true;
        } else {
            if changed_something {
                out.aborts_with_changes += 1;
            }
            prev_committed = false;
        }
        drop(h);
        let now = snapshot(zone);
        let want = committed.content(apex);
        if now != want {
            let sig = if spec.commit { format!("{what}:content-changes-on-drop") } else { format!("{what}:abandoned-writer-changes-zone") };
            return Err(Violation::new(
                sig,
                format!(
                    "writer {i} of {n} ({}; asked for the zone while another writer held it: {was_queued}; {}) was dropped: a fresh reader sees (left) instead of the last committed version (right): {}",
                    spec.kind.label(),
                    if spec.commit { "committed" } else { "broke off before its commit" },
                    show_content_diff(&now, &want)
                ),
            ));
        }
        done += 1;
    }
    Ok(out)
}

pub(super) fn run_writers(data: &[u8], ctx: &mut Ctx) -> CaseResult {
    let mut u = Unstructured::new(data);
    let n = 2 + pick(&mut u, 3);
    let specs: Vec<WSpec> = (0..n).map(|_| gen_wspec(&mut u)).collect();
    let via_axfr = flag(&mut u);
    let c = gen_case(&mut u, ctx, 3, false);
    let zone = receiver_zone(&c, &c.chain[0], via_axfr)?;
    ctx.sample(|| format!("{} | writers {:?}", show_case(&c), specs.iter().map(|s| (s.kind.label(), s.commit, s.next_open)).collect::<Vec<_>>()));
    for s in &specs {
        ctx.class(format!("writer:{}", s.kind.label()));
    }
    let apex = c.apex.clone();
    let chain = c.chain.clone();
    let specs2 = specs.clone();
    let zone2 = zone.clone();
    let out = block_on_paused(async move { drive_writers(&zone2, &apex, &chain, &specs2).await })?;
    if out.overlapped > 0 {
        ctx.class("writer-asks-for-the-zone-while-another-holds-it");
        ctx.nontrivial(&(&c.apex, &c.chain, &specs));
    }
    if out.after_commit > 0 {
        ctx.class("queued-writer-follows-a-commit");
    }
    if out.after_abort > 0 {
        ctx.class("queued-writer-follows-an-abandoned-writer");
    }
    if out.two_queued > 0 {
        ctx.class("two-writers-queued");
    }
    if out.aborts_with_changes > 0 {
        ctx.class("writer-breaks-off-after-changes");
    }
    if out.commits >= 2 {
        ctx.class("several-commits-in-one-history");
    }
    for (what, d, old, new) in &out.diffs {
        ctx.class("writers-diff-checked");
        check_diff_law(what, d, old, new, &c.apex, ctx)?;
    }
    Ok(())
}

//------------ sender under updates ---------------------------------------------------

#[derive(Clone, Copy, Debug, PartialEq, Eq, Hash)]
enum UMode {
    AxfrTcp,
    AxfrCompat,
    IxfrFallback,
}

impl UMode {
    fn label(self) -> &'static str {
        match self {
            UMode::AxfrTcp => "axfr-tcp",
            UMode::AxfrCompat => "axfr-compat-one-rr-per-message",
            UMode::IxfrFallback => "ixfr-no-diffs-fallback",
        }
    }
}

/// When a commit of the sender's zone happens, relative to the transfer.
#[derive(Clone, Copy, Debug, PartialEq, Eq, Hash)]
enum At {
    BeforeRequest,
    /// after preprocess() returned, before anything of the stream was polled
    AfterAccept,
    /// as above, but the zone walk is queued on the zone-walk semaphore
    /// (the harness holds the only permit) and starts after the commit
    WhileWalkQueued,
    /// after this many response messages have been read
    AfterMessages(usize),
    /// after the stream ended (control)
    AfterEnd,
}

impl At {
    fn label(self) -> &'static str {
        match self {
            At::BeforeRequest => "commit-before-request",
            At::AfterAccept => "commit-between-accept-and-walk",
            At::WhileWalkQueued => "commit-while-walk-queued-on-semaphore",
            At::AfterMessages(_) => "commit-after-k-messages",
            At::AfterEnd => "commit-after-stream-end",
        }
    }
}

async fn evolve(zone: &Zone, apex: &Labels, from: &VersionM, to: &VersionM, replace_all: bool) -> Result<(), String> {
    let kind = if replace_all { WKind::ReplaceAll } else { WKind::Incremental };
    let steps = plan_steps(kind, apex, from, to);
    let mut h = Handle::Up(ZoneUpdater::new(zone.clone()).await.map_err(|e| format!("ZoneUpdater::new: {e}"))?);
    for s in &steps {
        exec_step(&mut h, s, apex, to).await?;
    }
    Ok(())
}

struct Served {
    responses: Vec<Vec<u8>>,
    /// index of the sender's version that was current when the request was accepted
    at_accept: usize,
}

#[allow(clippy::too_many_arguments)]
async fn serve_while_updating(zone: Zone, apex: Labels, chain: Vec<VersionM>, ats: Vec<At>, replace_all: bool, compat: bool, o: ReqOpts) -> Result<Served, String> {
    use core::ops::ControlFlow;
    use domain::net::server::middleware::xfr::XfrMiddlewareSvc;
    use futures_util::StreamExt;
    let mut cur = 0usize;
    // commits[j] moves the zone from chain[j] to chain[j+1] at ats[j]
    macro_rules! commit_all {
        ($pred:expr) => {
            while cur < ats.len() && ($pred)(ats[cur]) {
                evolve(&zone, &apex, &chain[cur], &chain[cur + 1], replace_all).await.map_err(|e| format!("updating the sender's zone to version {}: {e}", cur + 1))?;
                cur += 1;
            }
        };
    }
    commit_all!(|a| a == At::BeforeRequest);
    let at_accept = cur;
    let walk_sem = std::sync::Arc::new(tokio::sync::Semaphore::new(1));
    let batch_sem = std::sync::Arc::new(tokio::sync::Semaphore::new(1));
    let hold = ats.get(cur).map(|a| *a == At::WhileWalkQueued).unwrap_or(false);
    let permit = if hold { Some(walk_sem.clone().acquire_owned().await.map_err(|e| format!("{e}"))?) } else { None };
    let req = mk_request(&apex, &o);
    let provider = Provider { zone: zone.clone(), diffs: vec![], compat };
    let res = XfrMiddlewareSvc::<Vec<u8>, NextSvc, (), Provider>::preprocess(walk_sem.clone(), batch_sem, &req, provider).await;
    let mut stream = match res {
        Ok(ControlFlow::Break(s)) => s,
        Ok(ControlFlow::Continue(())) => return Err("request not handled by the XFR middleware".into()),
        Err(rcode) => return Err(format!("preprocess returned {rcode}")),
    };
    if hold {
        // let the background tasks run up to the semaphore
        for _ in 0..16 {
            tokio::task::yield_now().await;
        }
        commit_all!(|a| a == At::WhileWalkQueued);
        drop(permit);
    }
    commit_all!(|a| a == At::AfterAccept || a == At::WhileWalkQueued);
    let mut out: Vec<Vec<u8>> = vec![];
    let mut n = 0usize;
    loop {
        commit_all!(|a| match a {
            At::AfterMessages(k) => out.len() >= k,
            At::AfterAccept | At::WhileWalkQueued | At::BeforeRequest => true,
            At::AfterEnd => false,
        });
        let Some(item) = stream.next().await else { break };
        n += 1;
        if n > 200_000 {
            return Err("response stream does not end".into());
        }
        match item {
            Ok(cr) => {
                let (resp, _fb) = cr.into_inner();
                if let Some(b) = resp {
                    out.push(b.as_message().as_slice().to_vec());
                }
            }
            Err(e) => return Err(format!("service error in stream: {e:?}")),
        }
    }
    commit_all!(|_a| true);
    Ok(Served { responses: out, at_accept })
}

pub(super) fn run_sender_updates(data: &[u8], ctx: &mut Ctx) -> CaseResult {
    let mut u = Unstructured::new(data);
    let mode = [UMode::AxfrTcp, UMode::AxfrCompat, UMode::IxfrFallback, UMode::AxfrTcp][pick(&mut u, 4)];
    let at_seeds: Vec<(u8, u8)> = (0..2).map(|_| (pick(&mut u, 8) as u8, byte(&mut u))).collect();
    let replace_all = chance(&mut u, 100);
    let limit_choice = pick(&mut u, 5);
    let rx_has_old = flag(&mut u);
    let req_id = u16_(&mut u);
    let c = gen_case(&mut u, ctx, 3, false);
    let what = format!("sender-updates:{}", mode.label());
    ctx.class(format!("serve:{}", mode.label()));

    // when each later version is committed; points never go backwards
    let mut ats: Vec<At> = vec![];
    let mut rank = 0u8;
    for (k, f) in at_seeds.iter().take(c.chain.len() - 1) {
        let mut a = match k {
            0 => At::BeforeRequest,
            1 | 2 | 3 => At::AfterAccept,
            4 | 5 => At::WhileWalkQueued,
            6 => At::AfterMessages(1 + (*f as usize % 6)),
            _ => At::AfterEnd,
        };
        let r = match a {
            At::BeforeRequest => 0,
            At::WhileWalkQueued => 1,
            At::AfterAccept => 2,
            At::AfterMessages(_) => 3,
            At::AfterEnd => 4,
        };
        if r < rank {
            a = *ats.last().unwrap();
        } else {
            rank = r;
        }
        if let (At::AfterMessages(k1), Some(At::AfterMessages(k0))) = (a, ats.last().copied()) {
            a = At::AfterMessages(k1.max(k0));
        }
        ats.push(a);
    }
    for a in &ats {
        ctx.class(a.label());
    }
    let during = ats.iter().any(|a| matches!(a, At::AfterAccept | At::WhileWalkQueued | At::AfterMessages(_)));
    if during {
        ctx.nontrivial(&(mode, &c.apex, &c.chain, &ats, replace_all, limit_choice));
    }
    ctx.sample(|| format!("{} {:?} | {}", mode.label(), ats, show_case(&c)));

    let sender_zone = zone_from_version(&c.apex, &c.chain[0]).map_err(|e| Violation::new("harness:zone-build", e))?;
    let max_rec = c
        .chain
        .iter()
        .flat_map(|v| {
            let mut r = v.records();
            r.push(v.soa.rr(&c.apex));
            r
        })
        .map(|r| gn::wire_len(&r.owner) + 10 + r.rdata.len())
        .max()
        .unwrap_or(0);
    let limit = [65535usize, 700, 1500, 400, 65535][limit_choice].max(12 + gn::wire_len(&c.apex) + 4 + max_rec + 64).min(65535);
    let o = ReqOpts { ixfr_from: if mode == UMode::IxfrFallback { Some(c.chain[0].serial().wrapping_sub(1)) } else { None }, udp: None, reserve: (65535 - limit) as u16, id: req_id };
    let served = {
        let (z, apex, chain, ats2) = (sender_zone.clone(), c.apex.clone(), c.chain.clone(), ats.clone());
        match block_on_paused(async move { serve_while_updating(z, apex, chain, ats2, replace_all, mode == UMode::AxfrCompat, o).await }) {
            Ok(s) => s,
            Err(e) => vfail!(format!("{what}:no-response-stream"), "{e} | {:?} | {}", ats, show_case(&c)),
        }
    };
    let responses = served.responses;
    vensure!(!responses.is_empty(), format!("{what}:empty-response-stream"), "the middleware produced no response message");
    if responses.len() >= 2 {
        ctx.class("updates:library-sender-multi-message");
    }
    if ats.iter().any(|a| matches!(a, At::AfterMessages(k) if *k < responses.len())) {
        ctx.class("commit-lands-inside-the-response-stream");
    }
    // all commits went through
    let last_c = c.chain.last().unwrap().content(&c.apex);
    let sv = snapshot(&sender_zone);
    vensure!(sv == last_c, format!("{what}:sender-zone-differs-from-model"), "{}", show_content_diff(&sv, &last_c));

    // the receiver
    let z = if rx_has_old { receiver_zone(&c, &c.chain[0], false)? } else { empty_zone(&c.apex) };
    let log = block_on_paused(receive(&z, &responses, false));
    if let Some(e) = &log.err {
        vfail!(format!("{what}:receiver-rejects-library-stream"), "message {} of {} ({}): {} | {:?}", e.msg, responses.len(), e.stage, e.what, ats);
    }
    vensure!(log.interp_finished && log.updater_finished, format!("{what}:not-finished"), "the library's response stream does not complete a transfer ({} messages) | {:?}", responses.len(), ats);
    let versions: Vec<Content> = c.chain.iter().map(|v| v.content(&c.apex)).collect();
    match versions.iter().position(|v| *v == log.after_drop) {
        None => {
            // nearest version for the report: the one the stream's SOA names
            let soa_key = key_of(&c.apex, rr::SOA);
            let near = versions.iter().position(|v| v.get(&soa_key) == log.after_drop.get(&soa_key)).unwrap_or(served.at_accept);
            vfail!(
                format!("{what}:transferred-zone-is-no-version-of-the-sender"),
                "the sender's zone went through {} versions (commits at {:?}; version {} was current when the request was accepted); the receiver ends with a zone (left) that is none of them; against version {near} (right): {} | {}",
                versions.len(),
                ats,
                served.at_accept,
                show_content_diff(&log.after_drop, &versions[near]),
                show_case(&c)
            );
        }
        Some(j) => {
            // equal contents of different versions do not occur (serials differ)
            vensure!(j >= served.at_accept, format!("{what}:transferred-version-older-than-at-accept"), "version {j} was transferred although version {} had been committed before the request was accepted | {:?}", served.at_accept, ats);
            if j > served.at_accept {
                ctx.class("later-version-transferred");
            } else if during {
                ctx.class("version-at-accept-transferred-despite-later-commit");
            }
        }
    }
    Ok(())
}
