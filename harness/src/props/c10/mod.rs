//! C10 — zone transfers reproduce the sender's zone; bad streams are
//! rejected cleanly.
//!
//! Sub-checks
//! * `fidelity`: harness-packaged legal AXFR / IXFR streams (any order of the
//!   non-SOA records, any split into messages, name compression, optional
//!   OPT/TSIG in the additional section) -> XfrResponseInterpreter ->
//!   ZoneUpdater -> walk() of the receiving zone == model.
//! * `sender`: XfrMiddlewareSvc::preprocess over a harness XfrDataProvider
//!   (AXFR, IXFR with diffs, TCP/UDP, reserved bytes) -> receiver, directly
//!   and re-split by the harness.
//! * `faults`: one fault per stream; reference verdict from RFC 5936/1995.
//! * `difflaw`: InMemoryZoneDiff returned by commit()/apply().
//! * `writers`, `sender-updates` (schedules.rs): overlapping writers of one
//!   zone; AXFR served while the sender's zone is committed to new versions.
use crate::engine::*;
use crate::gen::name::{self as gn, Labels};
use crate::gen::*;
use crate::refimpl::rdata as rr;
use crate::{vensure, vfail};
use arbitrary::Unstructured;
use std::collections::BTreeMap;

pub mod lib_io;
pub mod model;
pub mod wirepack;
mod schedules;

use lib_io::*;
use model::*;
use wirepack::*;

struct Case {
    apex: Labels,
    #[allow(dead_code)]
    pool: Vec<Labels>,
    chain: Vec<VersionM>,
    stats: Vec<EditStats>,
}

/// Removes from every version the RDATA values the library's own record
/// parser refuses or does not reproduce octet for octet (those are C05's
/// business, not C10's); returns how many were removed.
fn sanitize(apex: &Labels, chain: &mut [VersionM]) -> usize {
    let mut all: Vec<Rr> = vec![];
    for v in chain.iter() {
        all.push(v.soa.rr(apex));
        all.extend(v.records());
    }
    all.sort();
    all.dedup();
    let parsed = to_parsed(&all);
    let mut bad: Vec<(u16, Vec<u8>)> = vec![];
    for (r, p) in all.iter().zip(parsed) {
        let ok = match p {
            Ok(rec) => match flatten(rec.data()) {
                Ok(d) => {
                    use domain::base::rdata::ComposeRecordData;
                    let mut v: Vec<u8> = vec![];
                    let _ = d.compose_rdata(&mut v);
                    v == r.rdata
                }
                Err(_) => false,
            },
            Err(_) => false,
        };
        if !ok {
            bad.push((r.rtype, r.rdata.clone()));
        }
    }
    let mut n = 0;
    // RDATA that differ only in letter case (of embedded names) are the
    // same record to the library's record data comparison and to RFC 2136
    // style comparison: an RRset holding both holds a duplicate. Keep one.
    for v in chain.iter_mut() {
        for s in v.sets.values_mut() {
            let mut seen: Vec<Vec<u8>> = vec![];
            let before = s.rdatas.len();
            s.rdatas.retain(|rd| {
                let l = rd.to_ascii_lowercase();
                if seen.contains(&l) {
                    false
                } else {
                    seen.push(l);
                    true
                }
            });
            n += before - s.rdatas.len();
        }
    }
    if bad.is_empty() {
        return n;
    }
    for v in chain.iter_mut() {
        let keys: Vec<Key> = v.sets.keys().cloned().collect();
        for k in keys {
            let s = v.sets.get_mut(&k).unwrap();
            let before = s.rdatas.len();
            let t = s.rtype;
            s.rdatas.retain(|rd| !bad.contains(&(t, rd.clone())));
            n += before - s.rdatas.len();
            if s.rdatas.is_empty() {
                v.sets.remove(&k);
            }
        }
    }
    n
}

fn gen_case(u: &mut Unstructured, ctx: &mut Ctx, max_versions: usize, allow_bulk: bool) -> Case {
    // small fixed-size decisions first (always backed by input bytes), the
    // zone itself last
    let n = 2 + pick(u, max_versions.saturating_sub(1));
    let plans: Vec<EditPlan> = (1..n).map(|_| gen_plan(u)).collect();
    let shape = gen_shape(u);
    let apex = model::apex(u);
    let npool = 2 + pick(u, 10);
    let pool = owner_pool(u, &apex, npool);
    let o = GenOpts { max_sets: if ctx.thorough { 40 } else { 14 }, blob: 40, allow_bulk, thorough: ctx.thorough };
    let mut first = gen_version(u, &apex, &pool, &o);
    if shape.delegation || shape.cname {
        add_delegation(&mut first, &apex, shape.ds, if shape.delegation { shape.glue } else { 0 }, shape.cname);
        if !shape.delegation {
            let mut cut = apex.clone();
            cut.insert(0, b"deleg".to_vec());
            first.sets.remove(&key_of(&cut, rr::NS));
            first.sets.remove(&key_of(&cut, rr::DS));
        }
    }
    let mut chain = vec![first];
    let mut stats = vec![];
    for plan in &plans {
        let mut st = EditStats::default();
        let mut next = gen_next(u, &apex, &pool, chain.last().unwrap(), &o, plan, &mut st);
        // the whole chain must stay an advance in RFC 1982 terms: first -> last < 2^31
        let prev = chain.last().unwrap().serial();
        let so_far = prev.wrapping_sub(chain[0].serial()) as u64;
        let step = next.serial().wrapping_sub(prev) as u64;
        if so_far + step > 0x7FFF_FFFF {
            next.soa.serial = prev.wrapping_add(1);
        }
        chain.push(next);
        stats.push(st);
    }
    let removed = sanitize(&apex, &mut chain);
    if removed > 0 {
        ctx.class("rdata-outside-c10-domain-removed");
    }
    let first = chain[0].serial();
    let last = chain[chain.len() - 1].serial();
    if (first as u64) > (last as u64) {
        ctx.class("serial-wraps-2^32");
    }
    if chain.windows(2).any(|w| (w[0].serial() < 0x8000_0000) != (w[1].serial() < 0x8000_0000)) {
        ctx.class("serial-crosses-2^31");
    }
    Case { apex, pool, chain, stats }
}

fn show_case(c: &Case) -> String {
    let mut s = format!("apex={} versions:", gn::show(&c.apex));
    for v in &c.chain {
        s.push_str(&format!(" [serial {} rrsets {} records {}]", v.serial(), v.sets.len() + 1, v.n_records()));
    }
    s
}

fn show_msgs(msgs: &[MsgM]) -> String {
    let mut s = format!("{} messages:", msgs.len());
    for m in msgs.iter().take(8) {
        s.push_str(&format!(" (q{} an{} ns{} ar{} fl{:04x}{})", m.questions.len(), m.an.len(), m.ns.len(), m.ar.len(), m.flags, if m.truncate_at.is_some() { " cut" } else { "" }));
    }
    if msgs.len() > 8 {
        s.push_str(" ...");
    }
    s
}

#[derive(Clone, Copy, Debug, PartialEq, Eq, Hash)]
enum Mode {
    AxfrEmpty,
    AxfrOverOld,
    IxfrSteps,
    IxfrCondensed,
    IxfrFallback,
}

impl Mode {
    fn label(self) -> &'static str {
        match self {
            Mode::AxfrEmpty => "axfr-into-empty",
            Mode::AxfrOverOld => "axfr-over-old",
            Mode::IxfrSteps => "ixfr-steps",
            Mode::IxfrCondensed => "ixfr-condensed",
            Mode::IxfrFallback => "ixfr-axfr-fallback",
        }
    }
    fn is_ixfr_diffs(self) -> bool {
        matches!(self, Mode::IxfrSteps | Mode::IxfrCondensed)
    }
}

fn gen_mode(u: &mut Unstructured) -> Mode {
    [Mode::AxfrEmpty, Mode::IxfrSteps, Mode::AxfrOverOld, Mode::IxfrCondensed, Mode::IxfrFallback, Mode::IxfrSteps][pick(u, 6)]
}

/// Record sequence of a legal stream for `mode`. `dups`: also repeat some
/// records in AXFR-style content (RFC 5936 §2.2: receivers MUST ignore them).
fn legal_records(u: &mut Unstructured, c: &Case, mode: Mode, shuffle_body: bool) -> (u16, Vec<Rr>) {
    let new = c.chain.last().unwrap();
    match mode {
        Mode::AxfrEmpty | Mode::AxfrOverOld | Mode::IxfrFallback => {
            let mut body = new.records();
            if shuffle_body {
                let n = body.len();
                shuffle(u, &mut body, n.min(24));
            }
            (if mode == Mode::IxfrFallback { IXFR } else { AXFR }, axfr_records(&c.apex, new, body))
        }
        Mode::IxfrSteps => {
            let refs: Vec<&VersionM> = c.chain.iter().collect();
            (IXFR, ixfr_records(&c.apex, &refs))
        }
        Mode::IxfrCondensed => {
            let refs: Vec<&VersionM> = vec![&c.chain[0], new];
            (IXFR, ixfr_records(&c.apex, &refs))
        }
    }
}

/// Receiver's zone holding version `v`: built by ZoneBuilder or by running
/// an AXFR of `v` through the receiver itself.
fn receiver_zone(c: &Case, v: &VersionM, via_axfr: bool) -> Result<domain::zonetree::Zone, Violation> {
    if !via_axfr {
        return zone_from_version(&c.apex, v).map_err(|e| Violation::new("harness:zone-build", e));
    }
    let zone = empty_zone(&c.apex);
    let recs = axfr_records(&c.apex, v, v.records());
    let msgs = package(&c.apex, &recs, &[], &PackOpts { id: 7, qtype: AXFR, later_question: 0, additional: 0, rd: false });
    let bytes: Vec<Vec<u8>> = msgs.iter().map(|m| build(m, Compress::None).bytes).collect();
    let log = block_on_paused(receive(&zone, &bytes, false));
    if let Some(e) = &log.err {
        return Err(Violation::new("setup-axfr:error-on-legal-stream", format!("priming AXFR failed at message {} ({}): {}", e.msg, e.stage, e.what)));
    }
    if log.after_drop != v.content(&c.apex) {
        return Err(Violation::new(
            "setup-axfr:content-differs",
            format!("priming AXFR: zone differs from the model: {}", show_content_diff(&log.after_drop, &v.content(&c.apex))),
        ));
    }
    Ok(zone)
}

/// Checks that the sequence of contents observed by fresh readers walks
/// monotonically through `allowed` (old, completed intermediates, new).
fn check_observed(what: &str, log: &RxLog, allowed: &[Content]) -> CaseResult {
    let mut idx = 0usize;
    for (m, k, c) in &log.changes {
        match allowed[idx..].iter().position(|a| a == c) {
            Some(p) => idx += p,
            None => {
                let nearest = &allowed[allowed.len() - 1];
                vfail!(
                    format!("{what}:partial-version-visible"),
                    "after update kind {k} in message {m} a fresh reader saw content that is neither the old version, a completed intermediate version nor the new one; against the newest allowed version: {}",
                    show_content_diff(c, nearest)
                );
            }
        }
    }
    Ok(())
}

fn diff_content(d: &domain::zonetree::InMemoryZoneDiff, added: bool) -> Content {
    use domain::base::rdata::ComposeRecordData;
    let map = if added { &d.added } else { &d.removed };
    let mut c = Content::new();
    for ((owner, rtype), set) in map.iter() {
        let mut o = owner.as_slice().to_vec();
        o.make_ascii_lowercase();
        let mut rds = vec![];
        for x in set.data() {
            let mut v: Vec<u8> = vec![];
            let _ = x.compose_rdata(&mut v);
            rds.push(v);
        }
        rds.sort();
        c.insert((o, rtype.to_int()), RrsetC { ttl: set.ttl().as_secs(), rdatas: rds });
    }
    c
}

/// The diff law: removed/added applied to `old` gives `new`; serials match.
fn check_diff_law(what: &str, d: &domain::zonetree::InMemoryZoneDiff, old: &Content, new: &Content, apex: &Labels, ctx: &mut Ctx) -> CaseResult {
    let soa_serial = |c: &Content| -> Option<u32> {
        let s = c.get(&key_of(apex, rr::SOA))?;
        let rd = s.rdatas.first()?;
        let spans = rr::name_spans(rr::SOA, rd);
        let off: usize = spans.iter().map(|s| s.1).sum();
        Some(u32::from_be_bytes([rd[off], rd[off + 1], rd[off + 2], rd[off + 3]]))
    };
    let (os, ns) = (soa_serial(old), soa_serial(new));
    vensure!(Some(d.start_serial.into_int()) == os, format!("{what}:diff-start-serial"), "diff.start_serial = {} but the old SOA serial is {os:?}", d.start_serial);
    vensure!(Some(d.end_serial.into_int()) == ns, format!("{what}:diff-end-serial"), "diff.end_serial = {} but the new SOA serial is {ns:?}", d.end_serial);
    let removed = diff_content(d, false);
    let added = diff_content(d, true);
    let mut cur = old.clone();
    for (k, set) in &removed {
        let Some(e) = cur.get_mut(k) else {
            vfail!(format!("{what}:diff-removes-absent-rrset"), "diff.removed lists {} {} which the old version does not have", show_wire_name(&k.0), rr::mnemonic(k.1));
        };
        for rd in &set.rdatas {
            match e.rdatas.iter().position(|x| x == rd) {
                Some(p) => {
                    e.rdatas.remove(p);
                }
                None => vfail!(format!("{what}:diff-removes-absent-record"), "diff.removed lists a record of {} {} which the old version does not have: {}", show_wire_name(&k.0), rr::mnemonic(k.1), hex(rd)),
            }
        }
        if e.rdatas.is_empty() {
            cur.remove(k);
        }
    }
    for (k, set) in &added {
        let e = cur.entry(k.clone()).or_insert(RrsetC { ttl: set.ttl, rdatas: vec![] });
        e.ttl = set.ttl;
        for rd in &set.rdatas {
            if e.rdatas.contains(rd) {
                vfail!(format!("{what}:diff-adds-present-record"), "diff.added lists a record of {} {} which is already there after the removals: {}", show_wire_name(&k.0), rr::mnemonic(k.1), hex(rd));
            }
            e.rdatas.push(rd.clone());
        }
        e.rdatas.sort();
    }
    // 1. record sets
    let strip = |c: &Content| -> BTreeMap<Key, Vec<Vec<u8>>> { c.iter().map(|(k, v)| (k.clone(), v.rdatas.clone())).collect() };
    if strip(&cur) != strip(new) {
        ctx.report(Violation::new(
            format!("{what}:diff-applied-to-old-is-not-new"),
            format!("old + diff (left) differs from the committed new version (right): {}", show_content_diff(&cur, new)),
        ))?;
        return Ok(());
    }
    // 2. TTLs
    if cur != *new {
        ctx.report(Violation::new(
            format!("{what}:diff-loses-ttl-change"),
            format!("old + diff has the right records but wrong TTLs (left) against the committed new version (right): {}", show_content_diff(&cur, new)),
        ))?;
    }
    Ok(())
}

//------------ shared decode ----------------------------------------------------------

struct Pack {
    plan: CutPlan,
    po: PackOpts,
    comp: Compress,
}

fn gen_pack(u: &mut Unstructured) -> Pack {
    Pack { plan: gen_cut_plan(u), po: gen_pack_opts(u, AXFR), comp: gen_compress(u) }
}

fn pack_classes(ctx: &mut Ctx, p: &Pack, msgs: &[MsgM], built: &[Vec<u8>]) {
    ctx.class(format!("cuts:{}", p.plan.label()));
    ctx.class(format!("compress:{:?}", p.comp));
    if msgs.len() >= 2 {
        ctx.class("multi-message");
    }
    if msgs.len() >= 10 {
        ctx.class("messages>=10");
    }
    if p.po.additional >= 2 {
        ctx.class("tsig-in-additional");
    }
    if p.po.additional == 1 {
        ctx.class("opt-in-additional");
    }
    if p.po.later_question != 0 && msgs.len() >= 2 {
        ctx.class("question-in-later-messages");
    }
    if built.iter().any(|b| b.len() > 16384) {
        ctx.class("message>16K");
    }
}

//------------ fidelity -------------------------------------------------------------

fn run_fidelity(data: &[u8], ctx: &mut Ctx) -> CaseResult {
    let mut u = Unstructured::new(data);
    let mode = gen_mode(&mut u);
    let mut pack = gen_pack(&mut u);
    let shuffle_body = flag(&mut u);
    let dup_seed = if chance(&mut u, 50) { Some((u16_(&mut u), u16_(&mut u))) } else { None };
    let via_axfr = flag(&mut u);
    let old_specials = chance(&mut u, 50);
    let c = gen_case(&mut u, ctx, if mode == Mode::IxfrSteps { 4 } else { 2 }, true);
    let new = c.chain.last().unwrap().clone();
    let old = c.chain[0].clone();
    let (qtype, mut records) = legal_records(&mut u, &c, mode, shuffle_body);
    pack.po.qtype = qtype;
    let mut dup = false;
    if let Some((a, b)) = dup_seed {
        if !mode.is_ixfr_diffs() && records.len() > 2 {
            // RFC 5936 §2.2: "AXFR clients MUST ignore any duplicate RRs received"
            let body = records.len() - 2;
            let i = 1 + ((a as usize * body) >> 16);
            let j = 1 + ((b as usize * (body + 1)) >> 16);
            let r = records[i].clone();
            records.insert(j, r);
            dup = true;
        }
    }
    let cuts = pack.plan.cuts(records.len());
    let msgs = package(&c.apex, &records, &cuts, &pack.po);
    let built: Vec<Vec<u8>> = msgs.iter().map(|m| build(m, pack.comp).bytes).collect();

    // receiver's starting zone
    let mut special_nodes = false;
    let mut special_owners: (Vec<Labels>, Vec<Labels>) = (vec![], vec![]);
    let zone = match mode {
        Mode::AxfrEmpty => empty_zone(&c.apex),
        _ if old_specials => {
            // the old version as a zone-file loader stores it: delegations
            // as zone cuts, lone CNAMEs as CNAME nodes
            let (z, cuts, cnames) = zone_with_specials2(&c.apex, &old).map_err(|e| Violation::new("harness:zone-build", e))?;
            special_nodes = !cuts.is_empty() || !cnames.is_empty();
            special_owners = (cuts, cnames);
            z
        }
        _ => receiver_zone(&c, &old, via_axfr)?,
    };
    let old_content = snapshot(&zone);
    if mode != Mode::AxfrEmpty {
        vensure!(old_content == old.content(&c.apex), "harness:old-zone-differs-from-model", "{}", show_content_diff(&old_content, &old.content(&c.apex)));
    }

    // reference verdict must agree with the model (harness self-check)
    let verdict = reference(&msgs, pack.comp, &c.apex, &old_content);
    vensure!(
        verdict.kind == Kind::Complete && !verdict.unspecified && verdict.exact && !verdict.trailing,
        "harness:legal-stream-not-complete-by-reference",
        "{:?} unspecified={} exact={} why={} | {}",
        verdict.kind,
        verdict.unspecified,
        verdict.exact,
        verdict.why,
        show_msgs(&msgs)
    );
    let new_content = new.content(&c.apex);
    vensure!(verdict.versions.last() == Some(&new_content), "harness:reference-final-differs-from-model", "{}", show_content_diff(verdict.versions.last().unwrap(), &new_content));

    // evidence
    ctx.class(mode.label());
    pack_classes(ctx, &pack, &msgs, &built);
    if dup {
        ctx.class("axfr-duplicate-rr");
    }
    if new.n_records() >= 100 {
        ctx.class("records>=100");
    }
    let ixfr_del_add = mode.is_ixfr_diffs() && verdict.n_deletes >= 1 && verdict.n_adds >= 1;
    if ixfr_del_add {
        ctx.class("ixfr-with-deletes-and-adds");
    }
    if mode == Mode::IxfrSteps && c.chain.len() > 2 {
        ctx.class("ixfr-multi-step");
    }
    if c.stats.iter().any(|s| s.ttl_only > 0) {
        ctx.class("rrset-ttl-change");
    }
    if mode != Mode::AxfrEmpty && via_axfr && !old_specials {
        ctx.class("old-version-primed-by-axfr");
    }
    if special_nodes {
        ctx.class("receiver-old-version-with-cut-or-cname-nodes");
    }
    if msgs.len() >= 2 || ixfr_del_add {
        ctx.nontrivial(&(mode, &c.apex, &c.chain, &cuts, pack.comp, pack.po.additional, pack.po.later_question));
    }
    ctx.sample(|| format!("{} {} | {}", mode.label(), show_case(&c), show_msgs(&msgs)));

    // run the receiver
    let per_update = records.len() <= 60;
    let log = block_on_paused(receive(&zone, &built, per_update));
    let what = format!("fidelity:{}", mode.label());
    if special_nodes && log.err.is_none() && log.after_drop != new_content {
        // Known shape: records the old version keeps inside zone-cut / CNAME
        // nodes can not be changed through ZoneUpdater. Only differences
        // confined to such records get the specific signature.
        let in_special = |k: &Key| -> bool {
            let Some(owner) = gn::from_wire(&k.0) else { return false };
            let below = |cut: &Labels| owner.len() >= cut.len() && owner[owner.len() - cut.len()..] == gn::lower(cut)[..];
            special_owners.0.iter().any(below) || special_owners.1.iter().any(|n| gn::lower(n) == owner)
        };
        let differing: Vec<&Key> = log.after_drop.keys().chain(new_content.keys()).filter(|k| log.after_drop.get(*k) != new_content.get(*k)).collect();
        if differing.iter().all(|k| in_special(k)) {
            ctx.report(Violation::new(
                format!("fidelity-special-nodes:{}:records-in-cut-or-cname-nodes-not-updated", mode.label()),
                format!("receiving zone (left) differs from the sender's version (right) in records the old version held in zone-cut / CNAME nodes: {} | {}", show_content_diff(&log.after_drop, &new_content), show_case(&c)),
            ))?;
            return Ok(());
        }
    }
    check_accepted(&what, ctx, &log, &msgs, dup, &old_content, &verdict, &new_content, &c)?;

    // diffs returned by apply() at the commit points (IXFR receiver)
    if mode.is_ixfr_diffs() && log.err.is_none() {
        check_receiver_diffs(&what, ctx, &log, &old_content, &verdict, &c.apex)?;
    }
    Ok(())
}

/// The error is the one a first message holding only the SOA provokes:
/// the signal was given and the very next message is refused as "finished".
fn is_first_soa_alone_error(log: &RxLog) -> bool {
    match &log.err {
        Some(e) => log.single_soa_signals > 0 && e.msg == 1 && e.stage == "interpret" && e.what.to_ascii_lowercase().contains("finished"),
        None => false,
    }
}

/// Oracle for a stream the reference calls a complete, exact transfer.
#[allow(clippy::too_many_arguments)]
fn check_accepted(what: &str, _ctx: &mut Ctx, log: &RxLog, msgs: &[MsgM], dup: bool, old_content: &Content, verdict: &Verdict, new_content: &Content, c: &Case) -> CaseResult {
    if let Some(e) = &log.err {
        let sig = if dup { format!("{what}:error-on-duplicate-rr") } else { format!("{what}:error-on-legal-stream") };
        let sig = if is_first_soa_alone_error(log) { format!("{what}:first-message-with-only-the-soa-ends-the-transfer") } else { sig };
        vfail!(sig, "message {} of {} ({}): {} | {}", e.msg, msgs.len(), e.stage, e.what, show_msgs(msgs));
    }
    vensure!(log.interp_finished, format!("{what}:interpreter-not-finished"), "all {} messages were consumed without error but is_finished() is false", msgs.len());
    vensure!(log.updater_finished, format!("{what}:updater-not-finished"), "the interpreter finished but the updater did not");
    if let Some(e) = &log.early_visibility {
        vfail!(format!("{what}:visible-before-commit"), "{e}");
    }
    let mut allowed = vec![old_content.clone()];
    allowed.extend(verdict.versions.iter().cloned());
    if log.after_drop != *new_content {
        let sig = if dup { format!("{what}:duplicate-rr-not-ignored") } else { format!("{what}:content-differs") };
        vfail!(sig, "receiving zone (left) differs from the sender's version (right): {} | {} | {}", show_content_diff(&log.after_drop, new_content), show_case(c), show_msgs(msgs));
    }
    vensure!(log.last_seen == log.after_drop, format!("{what}:content-changes-on-drop"), "{}", show_content_diff(&log.last_seen, &log.after_drop));
    check_observed(what, log, &allowed)
}

fn check_receiver_diffs(what: &str, ctx: &mut Ctx, log: &RxLog, old_content: &Content, verdict: &Verdict, apex: &Labels) -> CaseResult {
    let mut prev = old_content.clone();
    let mut vi = 0usize;
    for (_, d) in &log.diffs {
        while vi < verdict.versions.len() && verdict.versions[vi] == prev {
            vi += 1;
        }
        if vi >= verdict.versions.len() {
            vfail!(format!("{what}:more-diffs-than-versions"), "apply() returned {} diffs for {} versions", log.diffs.len(), verdict.versions.len());
        }
        ctx.class("receiver-diff-checked");
        check_diff_law(&format!("{what}:apply"), d, &prev, &verdict.versions[vi], apex, ctx)?;
        prev = verdict.versions[vi].clone();
        vi += 1;
    }
    // every committed difference sequence advanced the serial, so each
    // commit had a diff to report
    let steps = {
        let mut n = 0;
        let mut p = old_content;
        for v in &verdict.versions {
            if v != p {
                n += 1;
            }
            p = v;
        }
        n
    };
    if log.diffs.len() != steps {
        ctx.report(Violation::new(format!("{what}:apply:no-diff-returned"), format!("{} commits changed the zone but apply() returned {} diffs", steps, log.diffs.len())))?;
    }
    Ok(())
}

//------------ sender ---------------------------------------------------------------------

#[derive(Clone, Copy, Debug, PartialEq, Eq, Hash)]
enum SKind {
    AxfrTcp,
    AxfrTcpTsig,
    AxfrCompat,
    IxfrModelDiffs,
    IxfrLibDiffs,
    IxfrUdp,
    IxfrNoDiffs,
    IxfrUpToDate,
}

impl SKind {
    fn label(self) -> &'static str {
        match self {
            SKind::AxfrTcp => "axfr-tcp",
            SKind::AxfrTcpTsig => "axfr-tcp-tsig-middleware",
            SKind::AxfrCompat => "axfr-compat-one-rr-per-message",
            SKind::IxfrModelDiffs => "ixfr-tcp-model-diffs",
            SKind::IxfrLibDiffs => "ixfr-tcp-library-diffs",
            SKind::IxfrUdp => "ixfr-udp",
            SKind::IxfrNoDiffs => "ixfr-no-diffs-fallback",
            SKind::IxfrUpToDate => "ixfr-up-to-date",
        }
    }
}

fn run_sender(data: &[u8], ctx: &mut Ctx) -> CaseResult {
    let mut u = Unstructured::new(data);
    let kind = [SKind::AxfrTcp, SKind::IxfrModelDiffs, SKind::IxfrLibDiffs, SKind::IxfrUdp, SKind::AxfrTcp, SKind::IxfrNoDiffs, SKind::AxfrCompat, SKind::IxfrUpToDate, SKind::IxfrLibDiffs, SKind::AxfrTcpTsig][pick(&mut u, 10)];
    let limit_choice = pick(&mut u, 9);
    let udp_hint = [None, Some(512u16), Some(1232), Some(4096), Some(65535)][pick(&mut u, 5)];
    let repack = if chance(&mut u, 110) { Some(gen_pack(&mut u)) } else { None };
    let specials = flag(&mut u);
    let req_id = u16_(&mut u);
    let big = chance(&mut u, 40);
    let mut c = gen_case(&mut u, ctx, if matches!(kind, SKind::IxfrModelDiffs | SKind::IxfrLibDiffs | SKind::IxfrUdp) { 3 } else { 2 }, kind != SKind::AxfrCompat);
    if big && matches!(kind, SKind::AxfrTcp | SKind::AxfrTcpTsig | SKind::IxfrNoDiffs) {
        // a zone of more than one 64 KiB message (about 80 KB), the same
        // padding in every version
        let apex = c.apex.clone();
        for v in c.chain.iter_mut() {
            add_bulk(v, &apex, 9, 130, 600);
        }
        ctx.class("sender-zone>64K");
    }
    let c = c;
    let new = c.chain.last().unwrap().clone();
    let old = c.chain[0].clone();
    let new_content = new.content(&c.apex);
    let old_content_m = old.content(&c.apex);
    let what = format!("sender:{}", kind.label());
    ctx.class(kind.label());

    // sender side: zone holding `new`, diffs per kind
    let mut diffs: Vec<std::sync::Arc<domain::zonetree::InMemoryZoneDiff>> = vec![];
    let sender_zone = match kind {
        SKind::IxfrLibDiffs => {
            // the sender's zone evolves old -> new through ZoneUpdater and the
            // diffs it hands out are the ones served
            let z = zone_from_version(&c.apex, &old).map_err(|e| Violation::new("harness:zone-build", e))?;
            let refs: Vec<&VersionM> = c.chain.iter().collect();
            let recs = ixfr_records(&c.apex, &refs);
            let msgs = package(&c.apex, &recs, &[], &PackOpts { id: 1, qtype: IXFR, later_question: 0, additional: 0, rd: false });
            let bytes: Vec<Vec<u8>> = msgs.iter().map(|m| build(m, Compress::None).bytes).collect();
            let log = block_on_paused(receive(&z, &bytes, false));
            if let Some(e) = &log.err {
                vfail!(format!("{what}:evolve-error-on-legal-stream"), "evolving the sender's zone failed at message {} ({}): {}", e.msg, e.stage, e.what);
            }
            vensure!(log.after_drop == new_content, format!("{what}:evolve-content-differs"), "{}", show_content_diff(&log.after_drop, &new_content));
            if log.diffs.len() != c.chain.len() - 1 {
                ctx.report(Violation::new(format!("{what}:evolve-missing-diff"), format!("{} commits with advancing serial produced {} diffs", c.chain.len() - 1, log.diffs.len())))?;
                return Ok(());
            }
            diffs = log.diffs.into_iter().map(|(_, d)| std::sync::Arc::new(d)).collect();
            z
        }
        _ => {
            let (z, used) = if specials { zone_with_specials(&c.apex, &new).map_err(|e| Violation::new("harness:zone-build", e))? } else { (zone_from_version(&c.apex, &new).map_err(|e| Violation::new("harness:zone-build", e))?, false) };
            if used {
                ctx.class("sender-zone-with-cuts-or-cname-nodes");
            }
            if matches!(kind, SKind::IxfrModelDiffs | SKind::IxfrUdp) {
                for w in c.chain.windows(2) {
                    diffs.push(std::sync::Arc::new(model_diff(&c.apex, &w[0], &w[1]).map_err(|e| Violation::new("harness:model-diff", e))?));
                }
            }
            z
        }
    };
    let sender_view = snapshot(&sender_zone);
    vensure!(sender_view == new_content, format!("{what}:sender-walk-differs-from-model"), "walk() of the sender's zone (left) vs model (right): {}", show_content_diff(&sender_view, &new_content));

    // byte limit through reserved bytes (what TSIG middleware does), never
    // below what the largest record needs
    let max_rec = c
        .chain
        .iter()
        .flat_map(|v| {
            let mut r = v.records();
            r.push(v.soa.rr(&c.apex));
            r
        })
        .map(|r| gn::wire_len(&r.owner) + 10 + r.rdata.len())
        .max()
        .unwrap_or(0);
    // 65535-120 / -300: what a TSIG or EDNS layer reserves
    let limit = [65535usize, 65535 - 120, 700, 1500, 5000, 20000, 65535 - 300, 65535, 65535 - 16][limit_choice].max(12 + gn::wire_len(&c.apex) + 4 + max_rec + 64).min(65535);
    let reserve = (65535 - limit) as u16;
    if reserve > 0 {
        ctx.class("sender-byte-limit-lowered");
    }
    let is_ixfr = !matches!(kind, SKind::AxfrTcp | SKind::AxfrCompat | SKind::AxfrTcpTsig);
    let from = if kind == SKind::IxfrUpToDate { new.serial() } else { old.serial() };
    let udp = if kind == SKind::IxfrUdp { Some(udp_hint) } else { None };
    let provider = Provider { zone: sender_zone.clone(), diffs: diffs.clone(), compat: kind == SKind::AxfrCompat };

    let serve_once = |udp: Option<Option<u16>>, reserve: u16| -> Result<Vec<Vec<u8>>, String> {
        let o = ReqOpts { ixfr_from: if is_ixfr { Some(from) } else { None }, udp, reserve: if udp.is_some() { 0 } else { reserve }, id: req_id };
        let p = provider.clone();
        let apex = c.apex.clone();
        block_on_paused(async move {
            let req = mk_request(&apex, &o);
            serve(p, &req).await
        })
    };
    let mut responses = if kind == SKind::AxfrTcpTsig {
        // TsigMiddlewareSvc in front: it reserves the room its TSIG record
        // needs and signs every response; the client sequence validates
        let p = provider.clone();
        let apex = c.apex.clone();
        match block_on_paused(async move { serve_tsig(p, &apex, None, req_id).await }) {
            Ok((r, wire_lens)) => {
                if wire_lens.iter().any(|l| *l > 60000) {
                    ctx.class("tsig-signed-message-near-64K");
                }
                r
            }
            Err(e) => vfail!(format!("{what}:signed-stream-invalid"), "{e} | {}", show_case(&c)),
        }
    } else {
        match serve_once(udp, reserve) {
            Ok(r) => r,
            Err(e) => vfail!(format!("{what}:no-response-stream"), "{e}"),
        }
    };
    // the room other layers reserved must be left in every message
    if kind != SKind::AxfrTcpTsig {
        let cap = match udp {
            Some(hint) => hint.unwrap_or(512) as usize,
            None => 65535 - reserve as usize,
        };
        for (i, m) in responses.iter().enumerate() {
            vensure!(
                m.len() <= cap,
                format!("{what}:message-leaves-no-room-for-reserved-bytes"),
                "response {i} of {} has {} octets; limit {} = {} - {} reserved | {}",
                responses.len(),
                m.len(),
                cap,
                if udp.is_some() { cap } else { 65535 },
                if udp.is_some() { 0 } else { reserve },
                show_case(&c)
            );
        }
        if udp.is_none() && reserve > 0 && responses.len() >= 2 && responses.iter().any(|m| m.len() > 60000) {
            ctx.class("tcp-reserved-bytes-and-message-near-64K");
        }
        if udp.is_none() && responses.len() >= 2 {
            // how far the sender fills its stream messages is its own choice
            ctx.class(if responses.iter().any(|m| m.len() > 60000) { "tcp-sender-fills-messages-beyond-60000" } else { "tcp-sender-cuts-messages-below-60000" });
        }
    }
    vensure!(!responses.is_empty(), format!("{what}:empty-response-stream"), "the middleware produced no response message");
    ctx.sample(|| format!("{} {} | sender sent {} messages, limit {}", kind.label(), show_case(&c), responses.len(), limit));

    // receiver's zone: holds `old` for IXFR kinds, old or nothing for AXFR
    let rx_zone = || -> Result<domain::zonetree::Zone, Violation> {
        if is_ixfr || specials { receiver_zone(&c, &old, false) } else { Ok(empty_zone(&c.apex)) }
    };

    // the client already holds the current version: RFC 1995 section 2 asks
    // for a single SOA; a full answer is wasteful but still a valid transfer
    // (C10 is about fidelity), so both are accepted
    if kind == SKind::IxfrUpToDate {
        let z = receiver_zone(&c, &new, false)?;
        let log = block_on_paused(receive(&z, &responses, false));
        let recs = records_of(&responses).map_err(|e| Violation::new(format!("{what}:unreadable-response"), e))?;
        if recs.len() == 1 {
            ctx.class("up-to-date-single-soa");
            vensure!(recs[0].rtype == rr::SOA && recs[0].rdata == new.soa.rdata(), format!("{what}:not-the-current-soa"), "{}", show_rr(&recs[0]));
            vensure!(!log.updater_finished, format!("{what}:updater-finished"), "a single SOA answer must not complete an update");
        } else {
            ctx.class("up-to-date-full-answer");
            if let Some(e) = &log.err {
                vfail!(format!("{what}:receiver-rejects-library-stream"), "message {} of {} ({}): {}", e.msg, responses.len(), e.stage, e.what);
            }
        }
        vensure!(log.after_drop == new_content, format!("{what}:zone-changed"), "{}", show_content_diff(&log.after_drop, &new_content));
        return Ok(());
    }
    if kind == SKind::IxfrUdp {
        let recs = records_of(&responses).map_err(|e| Violation::new(format!("{what}:unreadable-response"), e))?;
        vensure!(
            responses.len() == 1,
            format!("{what}:udp-answer-in-several-messages"),
            "{} messages: {}",
            responses.len(),
            responses
                .iter()
                .map(|m| match crate::refimpl::wire::header(m) {
                    Some(h) => format!("[{} octets rcode {} ancount {}]", m.len(), h.rcode(), h.counts[1]),
                    None => "[short]".into(),
                })
                .collect::<Vec<_>>()
                .join(" ")
        );
        if recs.len() == 1 {
            // did not fit: single SOA of the current version, retry over TCP
            ctx.class("udp-overflow-single-soa-then-tcp");
            vensure!(recs[0].rtype == rr::SOA && recs[0].rdata == new.soa.rdata(), format!("{what}:overflow-answer-not-current-soa"), "{}", show_rr(&recs[0]));
            let z = rx_zone()?;
            let log = block_on_paused(receive(&z, &responses, true));
            vensure!(log.err.is_some() || !log.interp_finished, format!("{what}:single-soa-taken-as-transfer"), "a single-SOA answer was accepted as a complete transfer");
            vensure!(log.after_drop == old_content_m, format!("{what}:zone-changed-by-single-soa"), "{}", show_content_diff(&log.after_drop, &old_content_m));
            responses = match serve_once(None, 0) {
                Ok(r) => r,
                Err(e) => vfail!(format!("{what}:no-response-stream"), "TCP retry: {e}"),
            };
        } else {
            ctx.class("udp-answer-fits");
            let lim = udp_hint.unwrap_or(512) as usize;
            vensure!(responses[0].len() <= lim, format!("{what}:udp-answer-exceeds-limit"), "{} octets, limit {lim}", responses[0].len());
        }
    }
    if responses.len() >= 2 {
        ctx.class("library-sender-multi-message");
    }

    // header sanity of what the sender produced (independent walker)
    for (i, m) in responses.iter().enumerate() {
        let w = crate::refimpl::wire::walk(m).ok_or_else(|| Violation::new(format!("{what}:short-response"), format!("message {i}")))?;
        vensure!(w.error.is_none(), format!("{what}:unreadable-response"), "message {i}: {:?}", w.error);
        vensure!(w.header.qr() && w.header.opcode() == 0 && !w.header.tc() && w.header.rcode() == 0, format!("{what}:response-header"), "message {i}: flags {:#06x}", w.header.flags);
        vensure!(w.header.id == req_id, format!("{what}:response-id"), "message {i}: id {} want {req_id}", w.header.id);
        vensure!(w.header.counts[1] >= 1 && w.header.counts[2] == 0, format!("{what}:response-counts"), "message {i}: counts {:?}", w.header.counts);
        vensure!(if i == 0 { w.header.counts[0] == 1 } else { w.header.counts[0] <= 1 }, format!("{what}:response-qdcount"), "message {i}: QDCOUNT {}", w.header.counts[0]);
        if kind == SKind::AxfrCompat {
            vensure!(w.header.counts[1] == 1, format!("{what}:compat-more-than-one-rr"), "message {i}: ANCOUNT {}", w.header.counts[1]);
        }
    }

    // 1. straight into the receiver
    let z = rx_zone()?;
    let log = block_on_paused(receive(&z, &responses, responses.len() <= 4 && new.n_records() <= 60));
    let sent = records_of(&responses).map_err(|e| Violation::new(format!("{what}:unreadable-response"), e))?;
    let dels = sent.len();
    if responses.len() >= 2 || (is_ixfr && diffs.iter().any(|d| d.added.len() > 1 && d.removed.len() > 1)) {
        ctx.nontrivial(&(kind, &c.apex, &c.chain, limit, repack.as_ref().map(|p| (p.plan.clone(), p.comp))));
    }
    let _ = dels;
    if let Some(e) = &log.err {
        let sig = if is_first_soa_alone_error(&log) { format!("{what}:first-message-with-only-the-soa-ends-the-transfer") } else { format!("{what}:receiver-rejects-library-stream") };
        vfail!(sig, "message {} of {} ({}): {}", e.msg, responses.len(), e.stage, e.what);
    }
    vensure!(log.interp_finished && log.updater_finished, format!("{what}:not-finished"), "the library's own response stream does not complete a transfer ({} messages, {} records)", responses.len(), sent.len());
    if let Some(e) = &log.early_visibility {
        vfail!(format!("{what}:visible-before-commit"), "{e}");
    }
    if log.after_drop != new_content {
        ctx.report(Violation::new(
            format!("{what}:content-differs"),
            format!("receiving zone (left) differs from the sender's version (right): {} | {}", show_content_diff(&log.after_drop, &new_content), show_case(&c)),
        ))?;
        return Ok(());
    }

    // 2. the same records re-split by the harness
    if let Some(mut p) = repack {
        p.po.qtype = if is_ixfr { IXFR } else { AXFR };
        let cuts = p.plan.cuts(sent.len());
        let msgs = package(&c.apex, &sent, &cuts, &p.po);
        let built: Vec<Vec<u8>> = msgs.iter().map(|m| build(m, p.comp).bytes).collect();
        ctx.class("library-records-repacked");
        // (the order of the library's records depends on its hash maps, so
        // only order-independent labels are recorded here)
        ctx.class(format!("repack-cuts:{}", p.plan.label()));
        ctx.class(format!("repack-compress:{:?}", p.comp));
        let z = rx_zone()?;
        let log = block_on_paused(receive(&z, &built, false));
        if let Some(e) = &log.err {
            let sig = if is_first_soa_alone_error(&log) { format!("{what}:repacked:first-message-with-only-the-soa-ends-the-transfer") } else { format!("{what}:repacked:error-on-legal-stream") };
            vfail!(sig, "message {} of {} ({}): {} | {}", e.msg, msgs.len(), e.stage, e.what, show_msgs(&msgs));
        }
        vensure!(log.interp_finished && log.updater_finished, format!("{what}:repacked:not-finished"), "{}", show_msgs(&msgs));
        vensure!(log.after_drop == new_content, format!("{what}:repacked:content-differs"), "{} | {}", show_content_diff(&log.after_drop, &new_content), show_msgs(&msgs));
    }
    Ok(())
}

//------------ faults -----------------------------------------------------------------------

fn run_faults(data: &[u8], ctx: &mut Ctx) -> CaseResult {
    let mut u = Unstructured::new(data);
    let mode = gen_mode(&mut u);
    let seed = gen_fault_seed(&mut u);
    let mut pack = gen_pack(&mut u);
    let via_axfr = chance(&mut u, 60);
    let want_specials = chance(&mut u, 128);
    let c = gen_case(&mut u, ctx, if mode == Mode::IxfrSteps { 3 } else { 2 }, false);
    let new = c.chain.last().unwrap().clone();
    let old = c.chain[0].clone();
    let (qtype, records) = legal_records(&mut u, &c, mode, false);
    pack.po.qtype = qtype;
    let cuts = pack.plan.cuts(records.len());
    let mut msgs = package(&c.apex, &records, &cuts, &pack.po);
    let n_legal = msgs.len();
    let fault = resolve_fault(&seed, &msgs);
    let fault_at = fault.first_msg(&msgs);
    let applied = apply_fault(&mut msgs, &fault, &c.apex, pack.comp);
    if msgs.is_empty() {
        ctx.class("fault-leaves-no-message");
        return Ok(());
    }
    let built: Vec<Vec<u8>> = msgs.iter().map(|m| build(m, pack.comp).bytes).collect();

    // The receiver's zone; `make_zone` can build an identical twin later.
    // AXFR-style transfers may start from a zone that keeps delegations and
    // lone CNAMEs in zone-cut / CNAME nodes (as a zone file loader does);
    // IXFR over such a zone is the known finding C10-F1 and stays out.
    let use_specials = want_specials && matches!(mode, Mode::AxfrOverOld | Mode::IxfrFallback);
    let make_zone = || -> Result<(domain::zonetree::Zone, bool), Violation> {
        match mode {
            Mode::AxfrEmpty => Ok((empty_zone(&c.apex), false)),
            _ if use_specials => {
                let (z, cuts, cnames) = zone_with_specials2(&c.apex, &old).map_err(|e| Violation::new("harness:zone-build", e))?;
                Ok((z, !cuts.is_empty() || !cnames.is_empty()))
            }
            _ => Ok((receiver_zone(&c, &old, via_axfr)?, false)),
        }
    };
    let (zone, special_nodes) = make_zone()?;
    if special_nodes {
        ctx.class("receiver-old-version-with-cut-or-cname-nodes");
    }
    let old_content = snapshot(&zone);
    let new_content = new.content(&c.apex);
    let verdict = reference(&msgs, pack.comp, &c.apex, &old_content);

    ctx.class(mode.label());
    ctx.class(format!("fault:{}", fault.label()));
    if !applied {
        ctx.class("fault-is-a-no-op-here");
    }
    let vlabel = if verdict.unspecified {
        "verdict:unspecified"
    } else {
        match verdict.kind {
            Kind::Complete if verdict.trailing => "verdict:complete-then-trailing-data",
            Kind::Complete if !verdict.exact => "verdict:complete-inexact",
            Kind::Incomplete if verdict.may_reject => "verdict:incomplete-and-breaks-a-must",
            Kind::Complete => "verdict:complete",
            Kind::Reject(_) => "verdict:must-reject",
            Kind::Incomplete => "verdict:incomplete",
            Kind::SingleSoa => "verdict:single-soa",
        }
    };
    ctx.class(vlabel);
    pack_classes(ctx, &pack, &msgs, &built);
    if fault_at >= 1 {
        ctx.class("fault-after-first-message");
        ctx.nontrivial(&(mode, &fault, &c.apex, &c.chain, &cuts, pack.comp));
    } else if n_legal >= 2 {
        ctx.nontrivial(&(mode, &fault, &c.apex, &c.chain, &cuts, pack.comp));
    }
    ctx.sample(|| format!("{} fault {:?} -> {} ({}) | {} | {}", mode.label(), fault, vlabel, verdict.why, show_case(&c), show_msgs(&msgs)));

    let per_update = records.len() <= 80;
    let log = block_on_paused(receive(&zone, &built, per_update));
    let what = format!("faults:{}", fault.label());
    let ctxs = || format!("fault {:?} in {} | reference: {:?} {} | {} | {}", fault, mode.label(), verdict.kind, verdict.why, show_case(&c), show_msgs(&msgs));

    // reference-free invariants (all streams)
    if let Some(e) = &log.early_visibility {
        vfail!(format!("{what}:visible-before-commit"), "{e} | {}", ctxs());
    }
    vensure!(log.last_seen == log.after_drop, format!("{what}:content-changes-on-drop"), "after the receiver was dropped the zone differs from the last committed version: {} | {}", show_content_diff(&log.last_seen, &log.after_drop), ctxs());
    let completed = log.err.is_none() && log.interp_finished && log.updater_finished;

    if !verdict.unspecified {
        let mut allowed = vec![old_content.clone()];
        allowed.extend(verdict.versions.iter().cloned());
        match &verdict.kind {
            Kind::Complete => {
                if verdict.trailing {
                    // complete transfer followed by more data: the transfer
                    // itself is applied, the surplus must raise an error
                    vensure!(log.err.is_some(), format!("{what}:trailing-data-not-reported"), "{}", ctxs());
                    if verdict.exact {
                        vensure!(log.after_drop == *verdict.versions.last().unwrap() || log.after_drop == old_content, format!("{what}:content-differs"), "{} | {}", show_content_diff(&log.after_drop, verdict.versions.last().unwrap()), ctxs());
                    }
                } else if verdict.may_reject && log.err.is_some() {
                    // rejecting a stream that breaks a MUST is fine
                } else {
                    if let Some(e) = &log.err {
                        let sig = if is_first_soa_alone_error(&log) { format!("{what}:first-message-with-only-the-soa-ends-the-transfer") } else { format!("{what}:error-on-well-formed-stream") };
                        vfail!(sig, "message {} ({}): {} | {}", e.msg, e.stage, e.what, ctxs());
                    }
                    vensure!(completed, format!("{what}:well-formed-stream-not-finished"), "{}", ctxs());
                    if verdict.exact {
                        let want = verdict.versions.last().unwrap();
                        if log.after_drop != *want {
                            let sig = if verdict.axfr_duplicates { format!("{what}:duplicate-rr-not-ignored") } else { format!("{what}:content-differs") };
                            vfail!(sig, "zone (left) vs what the stream describes (right): {} | {}", show_content_diff(&log.after_drop, want), ctxs());
                        }
                    }
                }
                if verdict.exact {
                    check_observed(&what, &log, &allowed)?;
                }
            }
            Kind::Reject(at) => {
                vensure!(!completed, format!("{what}:invalid-stream-accepted"), "the transfer completed without any error | {}", ctxs());
                match &log.err {
                    None => vfail!(format!("{what}:invalid-stream-not-reported"), "no step returned an error | {}", ctxs()),
                    Some(e) => vensure!(e.msg >= *at, format!("{what}:error-before-the-fault"), "error at message {} ({}: {}) but the stream is well-formed up to message {at} | {}", e.msg, e.stage, e.what, ctxs()),
                }
                if verdict.exact {
                    check_observed(&what, &log, &allowed)?;
                    vensure!(allowed.contains(&log.after_drop), format!("{what}:partial-version-left-behind"), "{} | {}", show_content_diff(&log.after_drop, &old_content), ctxs());
                }
            }
            Kind::Incomplete => {
                vensure!(!completed, format!("{what}:incomplete-stream-finished"), "{}", ctxs());
                if let (Some(e), false) = (&log.err, verdict.may_reject) {
                    vfail!(format!("{what}:error-on-well-formed-prefix"), "message {} ({}): {} | {}", e.msg, e.stage, e.what, ctxs());
                }
                if verdict.exact {
                    check_observed(&what, &log, &allowed)?;
                    vensure!(allowed.contains(&log.after_drop), format!("{what}:partial-version-left-behind"), "{} | {}", show_content_diff(&log.after_drop, &old_content), ctxs());
                }
            }
            Kind::SingleSoa => {
                vensure!(!log.updater_finished, format!("{what}:single-soa-completes-update"), "{}", ctxs());
                vensure!(log.after_drop == old_content && log.changes.is_empty(), format!("{what}:single-soa-changes-zone"), "{} | {}", show_content_diff(&log.after_drop, &old_content), ctxs());
            }
        }
    }

    // aborted changes must not leak into the next commit: a small
    // incremental update on top of whatever is committed now
    {
        let base = log.after_drop.clone();
        let mut owner = c.apex.clone();
        owner.insert(0, b"c10-touch".to_vec());
        let marker = Rr { owner, rtype: rr::TXT, ttl: 9, rdata: vec![5, b't', b'o', b'u', b'c', b'h'] };
        let mut soa = new.soa.clone();
        soa.serial = soa.serial.wrapping_add(77);
        let soa_rr = soa.rr(&c.apex);
        let touch = |z: &domain::zonetree::Zone| -> Result<(), String> {
            let parsed = to_parsed(&[marker.clone(), soa_rr.clone()]);
            let z2 = z.clone();
            block_on_paused(async move {
                use domain::zonetree::types::ZoneUpdate;
                let mut it = parsed.into_iter();
                let m = it.next().unwrap()?;
                let s = it.next().unwrap()?;
                let mut up: domain::zonetree::update::ZoneUpdater<domain::base::ParsedName<bytes::Bytes>> = domain::zonetree::update::ZoneUpdater::new(z2).await.map_err(|e| format!("new: {e}"))?;
                up.apply(ZoneUpdate::AddRecord(m)).await.map_err(|e| format!("apply: {e}"))?;
                up.apply(ZoneUpdate::Finished(s)).await.map_err(|e| format!("apply: {e}"))?;
                Ok(())
            })
        };
        if let Err(e) = touch(&zone) {
            vfail!(format!("{what}:next-update-fails"), "a small update after the faulted stream fails: {e} | {}", ctxs());
        }
        let mut want = base;
        want.insert(key_of(&c.apex, rr::SOA), RrsetC { ttl: soa_rr.ttl, rdatas: vec![soa_rr.rdata.clone()] });
        want.insert(key_of(&marker.owner, rr::TXT), RrsetC { ttl: marker.ttl, rdatas: vec![marker.rdata.clone()] });
        let got = snapshot(&zone);
        vensure!(got == want, format!("{what}:aborted-changes-leak-into-next-commit"), "after a one-record update following the faulted stream the zone (left) is not the last committed version plus that record (right): {} | {}", show_content_diff(&got, &want), ctxs());

        // The same through queries: when the faulted stream committed
        // nothing, a twin zone built the same way that never saw the stream
        // and got the same one-record update must answer every (owner, type)
        // of the content, and an absent type at every owner, identically.
        // (walk() does not look at the NXDOMAIN / CNAME / cut markers of a
        // node, queries do.)
        if log.changes.is_empty() && log.after_drop == old_content {
            let (twin, _) = make_zone()?;
            if let Err(e) = touch(&twin) {
                vfail!("harness:twin-update-fails", "{e}");
            }
            let twin_content = snapshot(&twin);
            vensure!(twin_content == want, "harness:twin-differs", "{}", show_content_diff(&twin_content, &want));
            ctx.class("answers-compared-with-untouched-twin");
            let aborted_part_deleted_a_name = log.kinds.contains(&K_DELETE) || log.kinds.contains(&K_DELETE_ALL);
            if aborted_part_deleted_a_name {
                ctx.class("twin-compare-after-aborted-deletes");
            }
            let mut owners: Vec<&Vec<u8>> = vec![];
            for k in want.keys() {
                let a = answer_summary(&zone, &k.0, k.1);
                let b = answer_summary(&twin, &k.0, k.1);
                vensure!(a == b, format!("{what}:aborted-changes-alter-later-answers"), "query {} {} after (faulted stream, then a one-record update): {a} | a twin zone that never saw the faulted stream answers: {b} | {}", show_wire_name(&k.0), rr::mnemonic(k.1), ctxs());
                if !owners.contains(&&k.0) {
                    owners.push(&k.0);
                }
            }
            for o in owners {
                let a = answer_summary(&zone, o, 65399);
                let b = answer_summary(&twin, o, 65399);
                vensure!(a == b, format!("{what}:aborted-changes-alter-later-answers"), "query {} TYPE65399 after (faulted stream, then a one-record update): {a} | twin: {b} | {}", show_wire_name(o), ctxs());
            }
        }
    }

    // recovery: whatever happened, a following good AXFR must give exactly `new`
    let recs = axfr_records(&c.apex, &new, new.records());
    let good = package(&c.apex, &recs, &[], &PackOpts { id: 9, qtype: AXFR, later_question: 0, additional: 0, rd: false });
    let bytes: Vec<Vec<u8>> = good.iter().map(|m| build(m, Compress::None).bytes).collect();
    let log2 = block_on_paused(receive(&zone, &bytes, false));
    if let Some(e) = &log2.err {
        vfail!(format!("{what}:recovery-axfr-fails"), "a good AXFR after the faulted stream fails at message {} ({}): {} | {}", e.msg, e.stage, e.what, ctxs());
    }
    vensure!(log2.after_drop == new_content, format!("{what}:recovery-axfr-content-differs"), "after a good AXFR following the faulted stream: {} | {}", show_content_diff(&log2.after_drop, &new_content), ctxs());
    Ok(())
}

//------------ difflaw ------------------------------------------------------------------------

#[derive(Clone, Copy, Debug, PartialEq, Eq, Hash)]
enum DApi {
    WriteNodes,
    WriteNodesBump,
    UpdaterIncremental,
    UpdaterReplaceAll,
}

impl DApi {
    fn label(self) -> &'static str {
        match self {
            DApi::WriteNodes => "writable-zone-nodes",
            DApi::WriteNodesBump => "writable-zone-nodes-bump-serial",
            DApi::UpdaterIncremental => "updater-delete-add",
            DApi::UpdaterReplaceAll => "updater-delete-all-then-add",
        }
    }
}

async fn write_nodes(zone: &domain::zonetree::Zone, apex: &Labels, old: &VersionM, new: &VersionM, bump: bool, redo: bool, order_seed: u32) -> Result<Option<domain::zonetree::InMemoryZoneDiff>, String> {
    use domain::base::name::Label;
    let mut w = zone.write().await;
    let root = w.open(true).await.map_err(|e| format!("open: {e}"))?;
    // changed keys
    let mut keys: Vec<Key> = vec![];
    for k in old.sets.keys().chain(new.sets.keys()) {
        if old.sets.get(k) != new.sets.get(k) && !keys.contains(k) {
            keys.push(k.clone());
        }
    }
    // deterministic permutation
    let mut x = order_seed as u64 | 1;
    for i in (1..keys.len()).rev() {
        x = x.wrapping_mul(6364136223846793005).wrapping_add(1442695040888963407);
        keys.swap(i, ((x >> 33) as usize) % (i + 1));
    }
    for k in &keys {
        let owner = new.sets.get(k).or(old.sets.get(k)).unwrap().owner.clone();
        let rel = &owner[..owner.len() - apex.len()];
        let mut node: Option<Box<dyn domain::zonetree::WritableZoneNode>> = None;
        for l in rel.iter().rev() {
            let label = Label::from_slice(l).map_err(|_| "label")?;
            let next = match &node {
                None => root.update_child(label).await,
                Some(n) => n.update_child(label).await,
            }
            .map_err(|e| format!("update_child: {e}"))?;
            node = Some(next);
        }
        let target: &dyn domain::zonetree::WritableZoneNode = match &node {
            Some(n) => n.as_ref(),
            None => root.as_ref(),
        };
        let rtype = domain::base::Rtype::from_int(k.1);
        match new.sets.get(k) {
            Some(s) => {
                if redo {
                    // remove first, then write the new RRset (net effect is the same)
                    target.remove_rrset(rtype).await.map_err(|e| format!("remove_rrset: {e}"))?;
                }
                target.update_rrset(shared_rrset(&s.owner, s.rtype, s.ttl, &s.rdatas)?).await.map_err(|e| format!("update_rrset: {e}"))?;
            }
            None => target.remove_rrset(rtype).await.map_err(|e| format!("remove_rrset: {e}"))?,
        }
    }
    if !bump {
        root.update_rrset(shared_rrset(apex, rr::SOA, new.soa.ttl, &[new.soa.rdata()])?).await.map_err(|e| format!("update_rrset(SOA): {e}"))?;
    }
    drop(root);
    let d = w.commit(bump).await.map_err(|e| format!("commit: {e}"))?;
    Ok(d)
}

fn run_difflaw(data: &[u8], ctx: &mut Ctx) -> CaseResult {
    let mut u = Unstructured::new(data);
    let api = [DApi::WriteNodes, DApi::UpdaterIncremental, DApi::UpdaterReplaceAll, DApi::WriteNodesBump, DApi::WriteNodes, DApi::UpdaterIncremental][pick(&mut u, 6)];
    let redo = chance(&mut u, 50);
    let order_seed = u32_(&mut u);
    let via_axfr = flag(&mut u);
    let c = gen_case(&mut u, ctx, 2, false);
    let old = c.chain[0].clone();
    let mut new = c.chain[1].clone();
    if api == DApi::WriteNodesBump {
        // SOA untouched by the writer; commit(true) must advance the serial by one
        new.soa = old.soa.clone();
        new.soa.serial = old.soa.serial.wrapping_add(1);
    }
    let what = format!("difflaw:{}", api.label());
    ctx.class(api.label());
    let st = &c.stats[0];
    if st.ttl_only > 0 {
        ctx.class("rrset-ttl-change");
    }
    if st.added_sets > 0 {
        ctx.class("rrset-added");
    }
    if st.removed_sets > 0 {
        ctx.class("rrset-removed");
    }
    if st.grown + st.shrunk + st.replaced > 0 {
        ctx.class("rrset-partially-changed");
    }
    if redo && matches!(api, DApi::WriteNodes | DApi::WriteNodesBump) {
        ctx.class("remove-then-rewrite");
    }
    let (del, add) = diff_records(&old, &new);
    if !del.is_empty() && !add.is_empty() {
        ctx.nontrivial(&(api, &c.apex, &c.chain, redo));
    }
    ctx.sample(|| format!("{} {} | {} deleted, {} added records", api.label(), show_case(&c), del.len(), add.len()));

    let zone = receiver_zone(&c, &old, via_axfr)?;
    let old_content = snapshot(&zone);
    let new_content = new.content(&c.apex);
    let diff: Option<domain::zonetree::InMemoryZoneDiff> = match api {
        DApi::WriteNodes | DApi::WriteNodesBump => {
            let r = block_on_paused(write_nodes(&zone, &c.apex, &old, &new, api == DApi::WriteNodesBump, redo, order_seed));
            match r {
                Ok(d) => d,
                Err(e) => vfail!(format!("{what}:write-error"), "{e}"),
            }
        }
        DApi::UpdaterIncremental | DApi::UpdaterReplaceAll => {
            use domain::zonetree::types::ZoneUpdate;
            let mut recs: Vec<(u8, Rr)> = vec![];
            if api == DApi::UpdaterIncremental {
                recs.extend(del.iter().cloned().map(|r| (K_DELETE, r)));
                recs.extend(add.iter().cloned().map(|r| (K_ADD, r)));
            } else {
                recs.extend(new.records().into_iter().map(|r| (K_ADD, r)));
            }
            recs.push((K_FINISHED, new.soa.rr(&c.apex)));
            let flat: Vec<Rr> = recs.iter().map(|x| x.1.clone()).collect();
            let parsed = to_parsed(&flat);
            let zone2 = zone.clone();
            let replace = api == DApi::UpdaterReplaceAll;
            let r: Result<Option<domain::zonetree::InMemoryZoneDiff>, String> = block_on_paused(async move {
                let mut up: domain::zonetree::update::ZoneUpdater<domain::base::ParsedName<bytes::Bytes>> = domain::zonetree::update::ZoneUpdater::new(zone2).await.map_err(|e| format!("new: {e}"))?;
                if replace {
                    up.apply(ZoneUpdate::DeleteAllRecords).await.map_err(|e| format!("apply: {e}"))?;
                }
                let mut out = None;
                for ((k, _), p) in recs.iter().zip(parsed) {
                    let rec = p?;
                    let upd = match *k {
                        K_DELETE => ZoneUpdate::DeleteRecord(rec),
                        K_ADD => ZoneUpdate::AddRecord(rec),
                        _ => ZoneUpdate::Finished(rec),
                    };
                    if let Some(d) = up.apply(upd).await.map_err(|e| format!("apply: {e}"))? {
                        out = Some(d);
                    }
                }
                Ok(out)
            });
            match r {
                Ok(d) => d,
                Err(e) => vfail!(format!("{what}:write-error"), "{e}"),
            }
        }
    };
    let after = snapshot(&zone);
    vensure!(after == new_content, format!("{what}:committed-content-differs-from-model"), "{}", show_content_diff(&after, &new_content));
    let Some(diff) = diff else {
        ctx.report(Violation::new(format!("{what}:no-diff-returned"), format!("commit with the serial advancing {} -> {} returned no diff", old.serial(), new.serial())))?;
        return Ok(());
    };
    check_diff_law(&what, &diff, &old_content, &after, &c.apex, ctx)
}

//------------ health / prop ------------------------------------------------------------

fn health(c: &BTreeMap<String, u64>, _thorough: bool) -> Result<(), String> {
    for k in [
        "axfr-into-empty", "axfr-over-old", "ixfr-steps", "ixfr-condensed", "ixfr-axfr-fallback", "multi-message", "ixfr-with-deletes-and-adds",
        "cuts:one-per-message", "cuts:random-cuts", "compress:All", "tsig-in-additional", "serial-wraps-2^32", "serial-crosses-2^31",
        "axfr-tcp", "axfr-tcp-tsig-middleware", "ixfr-tcp-model-diffs", "ixfr-tcp-library-diffs", "ixfr-udp", "library-sender-multi-message", "library-records-repacked",
        "verdict:must-reject", "verdict:complete", "verdict:incomplete", "fault-after-first-message", "answers-compared-with-untouched-twin", "twin-compare-after-aborted-deletes",
        "fault:drop-msg", "fault:dup-msg", "fault:swap-msgs", "fault:truncate-bytes", "fault:flip-qr", "fault:opcode", "fault:rcode", "fault:tc", "fault:qtype",
        "fault:first-not-soa", "fault:only-first-record", "verdict:single-soa", "fault:missing-final-soa", "fault:different-final-soa", "fault:extra-record-after-end", "fault:ancount-zero", "fault:nscount", "fault:qdcount-2",
        "writable-zone-nodes", "updater-delete-add", "updater-delete-all-then-add", "rrset-ttl-change",
        // schedules
        "writer-asks-for-the-zone-while-another-holds-it", "queued-writer-follows-a-commit", "queued-writer-follows-an-abandoned-writer", "writer-breaks-off-after-changes", "two-writers-queued", "writers-diff-checked",
        "writer:updater-delete-add", "writer:updater-ixfr-batch", "writer:updater-delete-all-then-add", "writer:writable-zone-nodes",
        "commit-between-accept-and-walk", "commit-while-walk-queued-on-semaphore", "commit-after-k-messages", "commit-lands-inside-the-response-stream", "commit-before-request",
    ] {
        if c.get(k).copied().unwrap_or(0) < 10 {
            return Err(format!("class {k} starved ({})", c.get(k).copied().unwrap_or(0)));
        }
    }
    // The 64 KiB boundary classes can only be reached when the sender fills
    // its stream messages that far. A sender that cuts its messages earlier
    // (its own choice) cannot overrun the space reserved for TSIG there, so
    // the classes are demanded only if large messages occur at all.
    if c.get("tcp-sender-fills-messages-beyond-60000").copied().unwrap_or(0) > 0 {
        for k in ["tcp-reserved-bytes-and-message-near-64K", "tsig-signed-message-near-64K"] {
            if c.get(k).copied().unwrap_or(0) < 10 {
                return Err(format!("class {k} starved ({})", c.get(k).copied().unwrap_or(0)));
            }
        }
    } else if c.get("tcp-sender-cuts-messages-below-60000").copied().unwrap_or(0) < 10 {
        return Err("no multi-message TCP transfer was produced".into());
    }
    Ok(())
}

pub fn prop() -> Option<Prop> {
    Some(Prop {
        id: "C10",
        rule: "non-trivial = the response stream has >= 2 messages, or it is an IXFR with >= 1 deleted and >= 1 added record, or (faults) the fault sits after the first message of a stream / in a stream of >= 2 messages; (difflaw) the change deletes and adds records; (writers) a writer asks for the zone while another one holds it open; (sender-updates) a commit of the sender's zone lands between accepting the request and the end of the response stream; distinct by (mode, versions, cut points, packaging options, fault)",
        assumptions: &[
            "zones are compared through walk() as sets of (owner lower-cased, class, type, TTL, RDATA multiset)",
            "matching message ID / question of follow-up messages is documented as the caller's job and is not demanded from the interpreter",
            "RDATA values the library's record parser does not reproduce octet for octet are removed from the model (C05's domain)",
            "IterationError::SingleSoaIxfrTcpRetrySignal on a first message that is followed by further messages is treated as the documented signal, not as a rejection (TCP caller continues)",
            "reference verdict for faulted streams from RFC 5936 2.2 / RFC 1995 4; streams whose meaning the RFCs do not pin down (stray SOA inside AXFR content, ANCOUNT=0 message, deleting an absent RR) are checked for safety invariants only",
        ],
        subchecks: vec![
            SubCheck::new("fidelity", run_fidelity, 18000, 100_000, 1500),
            SubCheck::new("sender", run_sender, 7000, 25_000, 1500),
            SubCheck::new("faults", run_faults, 24000, 120_000, 1200),
            SubCheck::new("difflaw", run_difflaw, 12000, 60_000, 1200),
            SubCheck::new("writers", schedules::run_writers, 6000, 30_000, 1200),
            SubCheck::new("sender-updates", schedules::run_sender_updates, 3000, 12_000, 1200),
        ],
        health: Some(health),
        extra: None,
    })
}
