//! Harness-side packager: builds AXFR / IXFR response message sequences
//! from the model (RFC 5936 §2.2, RFC 1995 §4), splits them at generated cut
//! points, applies single faults, and computes the reference verdict for a
//! (possibly faulted) stream without calling into the library.
use super::model::*;
use crate::gen::name::{self as gn, Labels};
use crate::gen::*;
use crate::refimpl::rdata as rr;
use arbitrary::Unstructured;

pub const AXFR: u16 = 252;
pub const IXFR: u16 = 251;
/// QR | AA
pub const FLAGS_OK: u16 = 0x8400;

#[derive(Clone, Debug, PartialEq, Eq, Hash)]
pub struct Extra {
    pub owner: Labels,
    pub rtype: u16,
    pub class: u16,
    pub ttl: u32,
    pub rdata: Vec<u8>,
}

#[derive(Clone, Debug, PartialEq, Eq, Hash)]
pub struct MsgM {
    pub id: u16,
    pub flags: u16,
    pub questions: Vec<(Labels, u16, u16)>,
    pub an: Vec<Rr>,
    pub ns: Vec<Rr>,
    pub ar: Vec<Extra>,
    pub ancount_override: Option<u16>,
    /// cut the built octets at this length (header counts unchanged)
    pub truncate_at: Option<usize>,
}

pub struct Built {
    pub bytes: Vec<u8>,
    /// offset just after each answer record
    pub an_ends: Vec<usize>,
    /// number of answer records that lie completely inside `bytes`
    pub intact: usize,
}

#[derive(Clone, Copy, Debug, PartialEq, Eq, Hash)]
pub enum Compress {
    None,
    Owners,
    All,
}

struct W {
    buf: Vec<u8>,
    seen: Vec<(usize, Labels)>,
    mode: Compress,
}

impl W {
    fn name(&mut self, l: &Labels, allow: bool) {
        let mut i = 0;
        while i < l.len() {
            let suffix = &l[i..];
            if allow {
                if let Some((off, _)) = self.seen.iter().find(|(_, s)| s.as_slice() == suffix) {
                    self.buf.extend_from_slice(&(0xC000u16 | *off as u16).to_be_bytes());
                    return;
                }
            }
            if self.buf.len() < 0x4000 {
                self.seen.push((self.buf.len(), suffix.to_vec()));
            }
            self.buf.push(l[i].len() as u8);
            self.buf.extend_from_slice(&l[i]);
            i += 1;
        }
        self.buf.push(0);
    }
    fn record(&mut self, owner: &Labels, rtype: u16, class: u16, ttl: u32, rd: &[u8]) {
        self.name(owner, self.mode != Compress::None);
        self.buf.extend_from_slice(&rtype.to_be_bytes());
        self.buf.extend_from_slice(&class.to_be_bytes());
        self.buf.extend_from_slice(&ttl.to_be_bytes());
        let lenpos = self.buf.len();
        self.buf.extend_from_slice(&[0, 0]);
        let start = self.buf.len();
        let mut pos = 0;
        for (off, len, wk, _) in rr::name_spans(rtype, rd) {
            self.buf.extend_from_slice(&rd[pos..off]);
            match gn::from_wire(&rd[off..off + len]) {
                Some(labels) => self.name(&labels, wk && self.mode == Compress::All),
                None => self.buf.extend_from_slice(&rd[off..off + len]),
            }
            pos = off + len;
        }
        self.buf.extend_from_slice(&rd[pos..]);
        let n = (self.buf.len() - start) as u16;
        self.buf[lenpos..lenpos + 2].copy_from_slice(&n.to_be_bytes());
    }
}

pub fn build(m: &MsgM, mode: Compress) -> Built {
    let mut w = W { buf: vec![0u8; 12], seen: vec![], mode };
    w.buf[0..2].copy_from_slice(&m.id.to_be_bytes());
    w.buf[2..4].copy_from_slice(&m.flags.to_be_bytes());
    for (n, t, c) in &m.questions {
        w.name(n, mode != Compress::None);
        w.buf.extend_from_slice(&t.to_be_bytes());
        w.buf.extend_from_slice(&c.to_be_bytes());
    }
    let mut an_ends = vec![];
    for r in &m.an {
        w.record(&r.owner, r.rtype, CLASS_IN, r.ttl, &r.rdata);
        an_ends.push(w.buf.len());
    }
    for r in &m.ns {
        w.record(&r.owner, r.rtype, CLASS_IN, r.ttl, &r.rdata);
    }
    // additional records (OPT, TSIG) are never compressed into
    let saved = w.mode;
    w.mode = Compress::None;
    for e in &m.ar {
        w.record(&e.owner, e.rtype, e.class, e.ttl, &e.rdata);
    }
    w.mode = saved;
    let counts = [
        m.questions.len() as u16,
        m.ancount_override.unwrap_or(m.an.len() as u16),
        m.ns.len() as u16,
        m.ar.len() as u16,
    ];
    for (i, c) in counts.iter().enumerate() {
        w.buf[4 + 2 * i..6 + 2 * i].copy_from_slice(&c.to_be_bytes());
    }
    let mut bytes = w.buf;
    if let Some(t) = m.truncate_at {
        bytes.truncate(t.min(bytes.len()));
    }
    let intact = an_ends.iter().filter(|&&e| e <= bytes.len()).count();
    Built { bytes, an_ends, intact }
}

fn est_size(r: &Rr) -> usize {
    gn::wire_len(&r.owner) + 10 + r.rdata.len()
}

//------------ record sequences ---------------------------------------------------

pub fn axfr_records(apex: &Labels, v: &VersionM, body: Vec<Rr>) -> Vec<Rr> {
    let mut out = vec![v.soa.rr(apex)];
    out.extend(body);
    out.push(v.soa.rr(apex));
    out
}

/// RFC 1995 §4: S_new, then per step (S_old, deleted.., S_next, added..), S_new.
pub fn ixfr_records(apex: &Labels, chain: &[&VersionM]) -> Vec<Rr> {
    let last = chain[chain.len() - 1];
    let mut out = vec![last.soa.rr(apex)];
    for w in chain.windows(2) {
        let (del, add) = diff_records(w[0], w[1]);
        out.push(w[0].soa.rr(apex));
        out.extend(del);
        out.push(w[1].soa.rr(apex));
        out.extend(add);
    }
    out.push(last.soa.rr(apex));
    out
}

//------------ packaging -----------------------------------------------------------

#[derive(Clone, Debug)]
pub struct PackOpts {
    pub id: u16,
    pub qtype: u16,
    /// 0 = question only in the first message, 1 = in every message, 2 = alternating
    pub later_question: u8,
    /// 0 none, 1 OPT everywhere, 2 TSIG everywhere, 3 TSIG on first/last and every 3rd
    pub additional: u8,
    pub rd: bool,
}

fn fake_tsig(apex: &Labels, i: usize) -> Extra {
    // RFC 8945 §4.2 layout: alg name, time(48), fudge, mac, orig id, error, other
    let mut rd = gn::to_wire(&vec![b"hmac-sha256".to_vec()]);
    rd.extend_from_slice(&[0, 0, 0x66, 0xF2, 0x00, i as u8]);
    rd.extend_from_slice(&300u16.to_be_bytes());
    rd.extend_from_slice(&32u16.to_be_bytes());
    rd.extend((0..32).map(|k| (k as u8).wrapping_mul(7).wrapping_add(i as u8)));
    rd.extend_from_slice(&0x1234u16.to_be_bytes());
    rd.extend_from_slice(&0u16.to_be_bytes());
    rd.extend_from_slice(&0u16.to_be_bytes());
    let mut owner = apex.clone();
    owner.insert(0, b"key".to_vec());
    Extra { owner, rtype: rr::TSIG, class: 255, ttl: 0, rdata: rd }
}

fn opt_rr() -> Extra {
    Extra { owner: vec![], rtype: rr::OPT, class: 1232, ttl: 0, rdata: vec![] }
}

/// Splits `records` into messages at `cuts` (indices where a new message
/// starts; sorted, unique, in 1..len) plus forced cuts at ~60 KB.
pub fn package(apex: &Labels, records: &[Rr], cuts: &[usize], o: &PackOpts) -> Vec<MsgM> {
    let mut msgs: Vec<MsgM> = vec![];
    let mut cur: Vec<Rr> = vec![];
    let mut size = 0usize;
    let flush = |cur: &mut Vec<Rr>, msgs: &mut Vec<MsgM>| {
        if cur.is_empty() {
            return;
        }
        let i = msgs.len();
        let with_q = i == 0 || o.later_question == 1 || (o.later_question == 2 && i % 2 == 0);
        let mut ar = vec![];
        match o.additional {
            1 => ar.push(opt_rr()),
            2 => ar.push(fake_tsig(apex, i)),
            3 if i % 3 == 0 => ar.push(fake_tsig(apex, i)),
            _ => {}
        }
        msgs.push(MsgM {
            id: o.id,
            flags: FLAGS_OK | if o.rd { 0x0100 } else { 0 },
            questions: if with_q { vec![(apex.clone(), o.qtype, CLASS_IN)] } else { vec![] },
            an: std::mem::take(cur),
            ns: vec![],
            ar,
            ancount_override: None,
            truncate_at: None,
        });
    };
    for (i, r) in records.iter().enumerate() {
        let s = est_size(r);
        if !cur.is_empty() && (cuts.binary_search(&i).is_ok() || size + s > 60000) {
            flush(&mut cur, &mut msgs);
            size = 0;
        }
        cur.push(r.clone());
        size += s;
    }
    flush(&mut cur, &mut msgs);
    if o.additional == 3 {
        // the last message of a signed stream always carries a TSIG
        if let Some(l) = msgs.last_mut() {
            if l.ar.is_empty() {
                let e = fake_tsig(apex, 99);
                l.ar.push(e);
            }
        }
    }
    msgs
}

/// How a record sequence is split into messages; decoded before the zone
/// so that it is always driven by real input bytes.
#[derive(Clone, Debug, PartialEq, Eq, Hash)]
pub enum CutPlan {
    AllInOne,
    OnePerMessage,
    FixedBatch(usize),
    SoaAlone,
    Two(u16),
    Random(u32, u8),
}

impl CutPlan {
    pub fn label(&self) -> &'static str {
        match self {
            CutPlan::AllInOne => "all-in-one",
            CutPlan::OnePerMessage => "one-per-message",
            CutPlan::FixedBatch(_) => "fixed-batch",
            CutPlan::SoaAlone => "soa-alone",
            CutPlan::Two(_) => "two-messages",
            CutPlan::Random(..) => "random-cuts",
        }
    }
    /// Indices (1..n) at which a new message starts.
    pub fn cuts(&self, n: usize) -> Vec<usize> {
        if n < 2 {
            return vec![];
        }
        match *self {
            CutPlan::AllInOne => vec![],
            CutPlan::OnePerMessage => (1..n).collect(),
            CutPlan::FixedBatch(k) => (1..n).filter(|i| i % k == 0).collect(),
            CutPlan::SoaAlone => {
                let mut v = vec![1, n - 1];
                v.dedup();
                v
            }
            CutPlan::Two(f) => vec![1 + ((f as usize * (n - 1)) >> 16)],
            CutPlan::Random(seed, p) => {
                // splitmix-style stream: a pure function of the decoded seed
                let mut x = seed as u64 ^ 0x9E37_79B9_7F4A_7C15;
                (1..n)
                    .filter(|_| {
                        x = x.wrapping_add(0x9E37_79B9_7F4A_7C15);
                        let mut z = x;
                        z = (z ^ (z >> 30)).wrapping_mul(0xBF58_476D_1CE4_E5B9);
                        z = (z ^ (z >> 27)).wrapping_mul(0x94D0_49BB_1331_11EB);
                        ((z >> 33) as u8) < p
                    })
                    .collect()
            }
        }
    }
}

pub fn gen_cut_plan(u: &mut Unstructured) -> CutPlan {
    match pick(u, 8) {
        0 => CutPlan::AllInOne,
        1 => CutPlan::OnePerMessage,
        2 => CutPlan::FixedBatch(2 + pick(u, 6)),
        3 => CutPlan::SoaAlone,
        4 => CutPlan::Two(u16_(u)),
        5 => CutPlan::AllInOne,
        _ => {
            let seed = u32_(u);
            CutPlan::Random(seed, 20 + pick(u, 160) as u8)
        }
    }
}

pub fn gen_pack_opts(u: &mut Unstructured, qtype: u16) -> PackOpts {
    PackOpts {
        id: [0u16, 1, 0xFFFF, 0x1234][pick(u, 4)],
        qtype,
        later_question: pick(u, 3) as u8,
        additional: [0u8, 0, 1, 2, 3][pick(u, 5)],
        rd: chance(u, 64),
    }
}

pub fn gen_compress(u: &mut Unstructured) -> Compress {
    [Compress::None, Compress::Owners, Compress::All][pick(u, 3)]
}

//------------ faults ------------------------------------------------------------------

#[derive(Clone, Debug, PartialEq, Eq, Hash)]
pub enum Fault {
    DropMsg(usize),
    DupMsg(usize),
    SwapMsgs(usize, usize),
    /// (message, byte offset counted back from the end, >= 1)
    Truncate(usize, usize),
    /// cut exactly after the k-th answer record, counts unchanged
    TruncateAtRecord(usize, usize),
    Qr(usize),
    Opcode(usize, u8),
    Rcode(usize, u8),
    Tc(usize),
    Qtype(usize, u16),
    FirstNotSoaDrop,
    FirstNotSoaSwap,
    MissingFinalSoa,
    /// 0 serial+1, 1 serial-1, 2 minimum, 3 mname
    DifferentFinalSoa(u8),
    ExtraRecordAfterEnd,
    ExtraMsgAfterEnd,
    AncountZeroEmpty(usize),
    AncountZeroField(usize),
    Nscount(usize),
    Qdcount2(usize),
    Qdcount0First,
    ChangeId(usize),
    ChangeQname(usize),
    DropRecord(usize),
    DupRecord(usize),
    SwapRecords(usize, usize),
    /// the answer is one message holding just the first record
    OnlyFirstRecord,
}

impl Fault {
    pub fn label(&self) -> &'static str {
        match self {
            Fault::DropMsg(_) => "drop-msg",
            Fault::DupMsg(_) => "dup-msg",
            Fault::SwapMsgs(..) => "swap-msgs",
            Fault::Truncate(..) => "truncate-bytes",
            Fault::TruncateAtRecord(..) => "truncate-at-record",
            Fault::Qr(_) => "flip-qr",
            Fault::Opcode(..) => "opcode",
            Fault::Rcode(..) => "rcode",
            Fault::Tc(_) => "tc",
            Fault::Qtype(..) => "qtype",
            Fault::FirstNotSoaDrop | Fault::FirstNotSoaSwap => "first-not-soa",
            Fault::MissingFinalSoa => "missing-final-soa",
            Fault::DifferentFinalSoa(_) => "different-final-soa",
            Fault::ExtraRecordAfterEnd => "extra-record-after-end",
            Fault::ExtraMsgAfterEnd => "extra-msg-after-end",
            Fault::AncountZeroEmpty(_) | Fault::AncountZeroField(_) => "ancount-zero",
            Fault::Nscount(_) => "nscount",
            Fault::Qdcount2(_) => "qdcount-2",
            Fault::Qdcount0First => "qdcount-0-first",
            Fault::ChangeId(_) => "change-id",
            Fault::ChangeQname(_) => "change-qname",
            Fault::DropRecord(_) => "drop-record",
            Fault::DupRecord(_) => "dup-record",
            Fault::SwapRecords(..) => "swap-records",
            Fault::OnlyFirstRecord => "only-first-record",
        }
    }
    /// Index of the first message touched by the fault.
    pub fn first_msg(&self, msgs: &[MsgM]) -> usize {
        let locate = |k: usize| -> usize {
            let mut n = 0;
            for (i, m) in msgs.iter().enumerate() {
                n += m.an.len();
                if k < n {
                    return i;
                }
            }
            msgs.len().saturating_sub(1)
        };
        match *self {
            Fault::DropMsg(i) | Fault::DupMsg(i) | Fault::Truncate(i, _) | Fault::TruncateAtRecord(i, _) | Fault::Qr(i)
            | Fault::Opcode(i, _) | Fault::Rcode(i, _) | Fault::Tc(i) | Fault::Qtype(i, _) | Fault::AncountZeroEmpty(i)
            | Fault::AncountZeroField(i) | Fault::Nscount(i) | Fault::Qdcount2(i) | Fault::ChangeId(i)
            | Fault::ChangeQname(i) => i,
            Fault::SwapMsgs(i, j) => i.min(j),
            Fault::FirstNotSoaDrop | Fault::FirstNotSoaSwap | Fault::Qdcount0First | Fault::OnlyFirstRecord => 0,
            Fault::MissingFinalSoa | Fault::DifferentFinalSoa(_) | Fault::ExtraRecordAfterEnd | Fault::ExtraMsgAfterEnd => {
                msgs.len().saturating_sub(1)
            }
            Fault::DropRecord(k) | Fault::DupRecord(k) => locate(k),
            Fault::SwapRecords(a, b) => locate(a.min(b)),
        }
    }
}

/// Fault choice decoded before the zone: kind and position fractions.
#[derive(Clone, Debug, PartialEq, Eq, Hash)]
pub struct FaultSeed {
    pub kind: usize,
    pub a: u16,
    pub b: u16,
    pub c: u8,
}

pub const N_FAULT_KINDS: usize = 28;

pub fn gen_fault_seed(u: &mut Unstructured) -> FaultSeed {
    FaultSeed { kind: pick(u, N_FAULT_KINDS), a: u16_(u), b: u16_(u), c: byte(u) }
}

pub fn resolve_fault(s: &FaultSeed, msgs: &[MsgM]) -> Fault {
    let n = msgs.len().max(1);
    let total: usize = msgs.iter().map(|m| m.an.len()).sum::<usize>().max(1);
    let frac = |f: u16, n: usize| -> usize { (f as usize * n) >> 16 };
    // bias message positions to first / last
    let m = |f: u16| -> usize {
        match f & 3 {
            0 => 0,
            1 => n - 1,
            _ => frac(f, n),
        }
    };
    let k = |f: u16| frac(f, total);
    let c = s.c as usize;
    match s.kind {
        0 => Fault::DropMsg(m(s.a)),
        1 => Fault::DupMsg(m(s.a)),
        2 => Fault::SwapMsgs(m(s.a), m(s.b)),
        3 => Fault::Truncate(m(s.a), 1 + c % 40),
        4 => Fault::Truncate(m(s.a), 1 + s.b as usize),
        5 => Fault::TruncateAtRecord(m(s.a), c),
        6 => Fault::Qr(m(s.a)),
        7 => Fault::Opcode(m(s.a), [1u8, 2, 4, 5, 15][c % 5]),
        8 => Fault::Rcode(m(s.a), [1u8, 2, 3, 4, 5, 9, 15][c % 7]),
        9 => Fault::Tc(m(s.a)),
        10 => Fault::Qtype(if c & 0x80 != 0 { 0 } else { m(s.a) }, [1u16, 6, 255, 0, 250, 253, 65535][c % 7]),
        11 => Fault::FirstNotSoaDrop,
        12 => Fault::FirstNotSoaSwap,
        13 => Fault::MissingFinalSoa,
        14 => Fault::DifferentFinalSoa((c % 4) as u8),
        15 => Fault::ExtraRecordAfterEnd,
        16 => Fault::ExtraMsgAfterEnd,
        17 => Fault::AncountZeroEmpty(m(s.a)),
        18 => Fault::AncountZeroField(m(s.a)),
        19 => Fault::Nscount(m(s.a)),
        20 => Fault::Qdcount2(m(s.a)),
        21 => Fault::Qdcount0First,
        22 => Fault::ChangeId(m(s.a)),
        23 => Fault::ChangeQname(m(s.a)),
        24 => Fault::DropRecord(k(s.a)),
        25 => Fault::DupRecord(k(s.a)),
        26 => Fault::SwapRecords(k(s.a), k(s.b)),
        _ => Fault::OnlyFirstRecord,
    }
}

fn soa_tweak(r: &Rr, kind: u8) -> Rr {
    // SOA rdata: mname rname serial refresh retry expire minimum
    let mut out = r.clone();
    let spans = rr::name_spans(rr::SOA, &r.rdata);
    let fixed = spans.iter().map(|s| s.1).sum::<usize>();
    if r.rdata.len() < fixed + 20 {
        return out;
    }
    let rd_u32 = |b: &[u8], at: usize| u32::from_be_bytes([b[at], b[at + 1], b[at + 2], b[at + 3]]);
    match kind {
        0 | 1 => {
            let s = rd_u32(&r.rdata, fixed);
            let s = if kind == 0 { s.wrapping_add(1) } else { s.wrapping_sub(1) };
            out.rdata[fixed..fixed + 4].copy_from_slice(&s.to_be_bytes());
        }
        2 => {
            let s = rd_u32(&r.rdata, fixed + 16).wrapping_add(1);
            out.rdata[fixed + 16..fixed + 20].copy_from_slice(&s.to_be_bytes());
        }
        _ => {
            let mut rd = gn::to_wire(&vec![b"other".to_vec(), b"mname".to_vec()]);
            rd.extend_from_slice(&r.rdata[spans[0].1..]);
            out.rdata = rd;
        }
    }
    out
}

/// Applies the fault to the stream. Returns false if the fault is a no-op
/// for this stream (then the stream is unchanged and still legal).
pub fn apply_fault(msgs: &mut Vec<MsgM>, f: &Fault, apex: &Labels, mode: Compress) -> bool {
    let n = msgs.len();
    if n == 0 {
        return false;
    }
    let flat = |msgs: &Vec<MsgM>, k: usize| -> Option<(usize, usize)> {
        let mut c = 0;
        for (i, m) in msgs.iter().enumerate() {
            if k < c + m.an.len() {
                return Some((i, k - c));
            }
            c += m.an.len();
        }
        None
    };
    match f.clone() {
        Fault::DropMsg(i) => {
            msgs.remove(i);
            true
        }
        Fault::DupMsg(i) => {
            let c = msgs[i].clone();
            msgs.insert(i + 1, c);
            true
        }
        Fault::SwapMsgs(i, j) => {
            if i == j || msgs[i] == msgs[j] {
                return false;
            }
            msgs.swap(i, j);
            true
        }
        Fault::Truncate(i, back) => {
            let len = build(&msgs[i], mode).bytes.len();
            let at = len.saturating_sub(back);
            msgs[i].truncate_at = Some(at);
            true
        }
        Fault::TruncateAtRecord(i, k) => {
            let b = build(&msgs[i], mode);
            if b.an_ends.len() < 2 {
                return false;
            }
            let k = k % (b.an_ends.len() - 1);
            msgs[i].truncate_at = Some(b.an_ends[k]);
            true
        }
        Fault::Qr(i) => {
            msgs[i].flags &= !0x8000;
            true
        }
        Fault::Opcode(i, v) => {
            msgs[i].flags = (msgs[i].flags & !0x7800) | ((v as u16 & 0xF) << 11);
            true
        }
        Fault::Rcode(i, v) => {
            msgs[i].flags = (msgs[i].flags & !0xF) | (v as u16 & 0xF);
            true
        }
        Fault::Tc(i) => {
            msgs[i].flags |= 0x0200;
            true
        }
        Fault::Qtype(i, t) => {
            if msgs[i].questions.is_empty() {
                return false;
            }
            msgs[i].questions[0].1 = t;
            true
        }
        Fault::FirstNotSoaDrop => {
            msgs[0].an.remove(0);
            if msgs[0].an.is_empty() {
                if n == 1 {
                    // nothing left: ANCOUNT = 0 message
                    return true;
                }
                // keep the question on what becomes the first message
                let q = msgs[0].questions.clone();
                msgs.remove(0);
                if msgs[0].questions.is_empty() {
                    msgs[0].questions = q;
                }
            }
            // only a fault if the new first record is not an SOA
            msgs[0].an.first().map(|r| r.rtype != rr::SOA).unwrap_or(true)
        }
        Fault::FirstNotSoaSwap => {
            // exchange the first record with the first non-SOA record
            let Some(k) = (0..).map_while(|k| flat(msgs, k)).find(|&(i, j)| msgs[i].an[j].rtype != rr::SOA) else {
                return false;
            };
            let a = msgs[0].an[0].clone();
            let b = msgs[k.0].an[k.1].clone();
            msgs[0].an[0] = b;
            msgs[k.0].an[k.1] = a;
            true
        }
        Fault::MissingFinalSoa => {
            let l = msgs.last_mut().unwrap();
            l.an.pop();
            if l.an.is_empty() {
                msgs.pop();
            }
            !msgs.is_empty()
        }
        Fault::DifferentFinalSoa(kind) => {
            let l = msgs.last_mut().unwrap();
            let r = l.an.last().unwrap().clone();
            let t = soa_tweak(&r, kind);
            if t == r {
                return false;
            }
            *l.an.last_mut().unwrap() = t;
            true
        }
        Fault::ExtraRecordAfterEnd => {
            let mut owner = apex.clone();
            owner.insert(0, b"extra".to_vec());
            msgs.last_mut().unwrap().an.push(Rr { owner, rtype: rr::A, ttl: 5, rdata: vec![192, 0, 2, 99] });
            true
        }
        Fault::ExtraMsgAfterEnd => {
            let mut owner = apex.clone();
            owner.insert(0, b"extra".to_vec());
            let mut m = msgs.last().unwrap().clone();
            m.an = vec![Rr { owner, rtype: rr::A, ttl: 5, rdata: vec![192, 0, 2, 99] }];
            msgs.push(m);
            true
        }
        Fault::AncountZeroEmpty(i) => {
            msgs[i].an.clear();
            true
        }
        Fault::AncountZeroField(i) => {
            msgs[i].ancount_override = Some(0);
            true
        }
        Fault::Nscount(i) => {
            let r = msgs[i].an[0].clone();
            msgs[i].ns.push(r);
            true
        }
        Fault::Qdcount2(i) => {
            let q = msgs[i].questions.first().cloned().unwrap_or((apex.clone(), AXFR, CLASS_IN));
            while msgs[i].questions.len() < 2 {
                msgs[i].questions.push(q.clone());
            }
            true
        }
        Fault::Qdcount0First => {
            msgs[0].questions.clear();
            true
        }
        Fault::ChangeId(i) => {
            msgs[i].id ^= 0x5555;
            true
        }
        Fault::ChangeQname(i) => {
            if msgs[i].questions.is_empty() {
                return false;
            }
            msgs[i].questions[0].0.insert(0, b"other".to_vec());
            true
        }
        Fault::DropRecord(k) => {
            let Some((i, j)) = flat(msgs, k) else { return false };
            msgs[i].an.remove(j);
            if msgs[i].an.is_empty() {
                let q = msgs[i].questions.clone();
                msgs.remove(i);
                if i == 0 && !msgs.is_empty() && msgs[0].questions.is_empty() {
                    msgs[0].questions = q;
                }
            }
            !msgs.is_empty()
        }
        Fault::DupRecord(k) => {
            let Some((i, j)) = flat(msgs, k) else { return false };
            let r = msgs[i].an[j].clone();
            msgs[i].an.insert(j + 1, r);
            true
        }
        Fault::OnlyFirstRecord => {
            let total: usize = msgs.iter().map(|m| m.an.len()).sum();
            msgs.truncate(1);
            msgs[0].an.truncate(1);
            total > 1
        }
        Fault::SwapRecords(a, b) => {
            let (Some(x), Some(y)) = (flat(msgs, a), flat(msgs, b)) else { return false };
            let ra = msgs[x.0].an[x.1].clone();
            let rb = msgs[y.0].an[y.1].clone();
            if ra == rb {
                return false;
            }
            msgs[x.0].an[x.1] = rb;
            msgs[y.0].an[y.1] = ra;
            true
        }
    }
}

//------------ reference verdict ------------------------------------------------------

#[derive(Clone, Debug, PartialEq, Eq)]
pub enum Kind {
    /// a complete, well-framed transfer
    Complete,
    /// not a valid transfer; the defect is in message `usize`
    Reject(usize),
    /// the stream ends before the closing SOA
    Incomplete,
    /// IXFR answer consisting of one SOA record
    SingleSoa,
}

#[derive(Clone, Debug)]
pub struct Verdict {
    pub kind: Kind,
    /// contents at the commit points of the well-formed prefix, in order
    /// (IXFR: after each completed difference sequence; AXFR: the final
    /// zone). For Complete the last one is the final content.
    pub versions: Vec<Content>,
    /// false when the reference semantics of the stream are not pinned down
    /// by the RFCs (deleting an absent RR, adding a present one, mixed TTLs):
    /// then only reference-free invariants are checked.
    pub exact: bool,
    /// true when neither acceptance nor rejection is demanded
    pub unspecified: bool,
    /// the stream breaks a MUST the library does not police (stray SOA in
    /// AXFR content, a difference sequence that starts from a version the
    /// receiver does not hold): rejecting it is fine, completing it is fine
    /// only where the framing completes
    pub may_reject: bool,
    /// data follows the end of a complete transfer: an error is demanded
    pub trailing: bool,
    /// duplicates of records were met in AXFR-style content
    pub axfr_duplicates: bool,
    pub why: String,
    pub n_deletes: usize,
    pub n_adds: usize,
}

fn soa_eq(a: &Rr, b: &Rr) -> bool {
    a.rtype == rr::SOA && b.rtype == rr::SOA && a.rdata == b.rdata
}

/// Reference interpretation (RFC 5936 §2.2, RFC 1995 §4) of a response
/// stream given the content the receiver holds.
pub fn reference(msgs: &[MsgM], mode: Compress, apex: &Labels, old: &Content) -> Verdict {
    let mut v = Verdict {
        kind: Kind::Incomplete,
        versions: vec![],
        exact: true,
        unspecified: false,
        may_reject: false,
        trailing: false,
        axfr_duplicates: false,
        why: String::new(),
        n_deletes: 0,
        n_adds: 0,
    };
    #[derive(PartialEq)]
    enum Mode {
        Unknown,
        Axfr,
        Ixfr,
    }
    let apex_soa = key_of(apex, rr::SOA);
    let mut xmode = Mode::Unknown;
    let mut qtype = 0u16;
    let mut first: Option<Rr> = None;
    let mut count = 0usize;
    let mut finished = false;
    let mut adding = true;
    let mut cur: Content = old.clone();
    for (i, m) in msgs.iter().enumerate() {
        if finished {
            v.trailing = true;
            v.why = format!("message {i} follows the end of the transfer");
            break;
        }
        let reject = |v: &mut Verdict, why: String| {
            v.kind = Kind::Reject(i);
            v.why = why;
        };
        let b = build(m, mode);
        if b.bytes.len() < 12 {
            reject(&mut v, "shorter than a header".into());
            return v;
        }
        let fl = m.flags;
        if fl & 0x8000 == 0 || (fl >> 11) & 0xF != 0 || fl & 0x0200 != 0 || fl & 0xF != 0 {
            reject(&mut v, format!("header flags {fl:#06x}"));
            return v;
        }
        if !m.ns.is_empty() {
            reject(&mut v, "NSCOUNT != 0".into());
            return v;
        }
        if (i == 0 && m.questions.len() != 1) || m.questions.len() > 1 {
            reject(&mut v, format!("QDCOUNT {} in message {i}", m.questions.len()));
            return v;
        }
        if i == 0 {
            qtype = m.questions[0].1;
            if qtype != AXFR && qtype != IXFR {
                reject(&mut v, format!("question type {qtype}"));
                return v;
            }
            if gn::lower(&m.questions[0].0) != gn::lower(apex) {
                v.unspecified = true;
            }
        } else if let Some(q) = m.questions.first() {
            if q.1 != qtype || gn::lower(&q.0) != gn::lower(apex) {
                // matching the question is documented as the caller's job
                v.unspecified = true;
            }
        }
        if m.an.is_empty() || m.ancount_override == Some(0) {
            // an empty message carries nothing; the library rejects it, a
            // lenient receiver could skip it
            v.unspecified = true;
            v.why = "ANCOUNT = 0".into();
            return v;
        }
        let truncated = m.truncate_at.is_some() && b.intact < m.an.len();
        if m.truncate_at.is_some() && !truncated {
            // cut inside the additional section only: the answer section is
            // whole, whether the reader minds is not pinned down
            v.unspecified = true;
        }
        for r in m.an.iter().take(b.intact) {
            if finished {
                v.trailing = true;
                v.why = format!("records follow the closing SOA in message {i}");
                return v;
            }
            count += 1;
            if gn::lower(&r.owner).len() < apex.len() || gn::lower(&r.owner)[r.owner.len() - apex.len()..] != gn::lower(apex)[..] {
                v.unspecified = true; // out-of-zone owner
            }
            if count == 1 {
                if r.rtype != rr::SOA {
                    reject(&mut v, "first record is not an SOA".into());
                    return v;
                }
                first = Some(r.clone());
                continue;
            }
            let f = first.as_ref().unwrap();
            let is_soa = r.rtype == rr::SOA;
            if xmode == Mode::Unknown {
                if qtype == IXFR && is_soa {
                    xmode = Mode::Ixfr;
                    if soa_eq(r, f) {
                        // "S S" under IXFR: empty AXFR-style zone or zero
                        // difference sequences; RFC 1995 does not say
                        v.unspecified = true;
                    }
                } else {
                    xmode = Mode::Axfr;
                    cur = Content::new();
                }
            }
            match xmode {
                Mode::Axfr => {
                    if is_soa {
                        if soa_eq(r, f) {
                            if r.ttl != f.ttl || gn::lower(&r.owner) != gn::lower(&f.owner) {
                                v.unspecified = true;
                            }
                            cur.insert(apex_soa.clone(), RrsetC { ttl: r.ttl, rdatas: vec![r.rdata.clone()] });
                            v.versions.push(cur.clone());
                            finished = true;
                            v.kind = Kind::Complete;
                        } else {
                            // RFC 5936: intermediate messages MUST NOT
                            // contain the SOA; what a receiver does with a
                            // stray, different SOA is not pinned down, but
                            // it can not be the end of the transfer
                            v.exact = false;
                            v.may_reject = true;
                            v.why = "stray SOA inside AXFR content".into();
                        }
                    } else {
                        v.n_adds += 1;
                        let e = cur.entry(key_of(&r.owner, r.rtype)).or_insert(RrsetC { ttl: r.ttl, rdatas: vec![] });
                        if e.ttl != r.ttl {
                            v.exact = false;
                        }
                        if e.rdatas.contains(&r.rdata) {
                            // RFC 5936 §2.2: clients MUST ignore duplicates
                            v.axfr_duplicates = true;
                        } else {
                            e.rdatas.push(r.rdata.clone());
                            e.rdatas.sort();
                        }
                    }
                }
                Mode::Ixfr => {
                    if is_soa {
                        if adding {
                            // end of a difference sequence (or the very
                            // first older SOA)
                            if count > 2 && soa_eq(r, f) {
                                if r.ttl != f.ttl {
                                    v.unspecified = true;
                                }
                                cur.insert(apex_soa.clone(), RrsetC { ttl: r.ttl, rdatas: vec![r.rdata.clone()] });
                                v.versions.push(cur.clone());
                                finished = true;
                                v.kind = Kind::Complete;
                            } else {
                                if count > 2 {
                                    v.versions.push(cur.clone());
                                }
                                // the older SOA must be the one we hold
                                match cur.get(&apex_soa) {
                                    Some(s) if s.rdatas == vec![r.rdata.clone()] => {}
                                    _ => {
                                        v.exact = false;
                                        v.may_reject = true;
                                        v.why = "difference sequence starts from a version the receiver does not hold".into();
                                    }
                                }
                                if soa_eq(r, f) && count == 2 {
                                    finished = true;
                                    v.kind = Kind::Complete;
                                    v.versions.push(cur.clone());
                                }
                                adding = false;
                            }
                        } else {
                            cur.insert(apex_soa.clone(), RrsetC { ttl: r.ttl, rdatas: vec![r.rdata.clone()] });
                            adding = true;
                        }
                    } else if !adding {
                        v.n_deletes += 1;
                        let k = key_of(&r.owner, r.rtype);
                        match cur.get_mut(&k) {
                            Some(e) => {
                                if e.ttl != r.ttl {
                                    v.exact = false;
                                }
                                match e.rdatas.iter().position(|x| *x == r.rdata) {
                                    Some(p) => {
                                        e.rdatas.remove(p);
                                    }
                                    None => v.exact = false,
                                }
                                if e.rdatas.is_empty() {
                                    cur.remove(&k);
                                }
                            }
                            None => v.exact = false,
                        }
                    } else {
                        v.n_adds += 1;
                        let e = cur.entry(key_of(&r.owner, r.rtype)).or_insert(RrsetC { ttl: r.ttl, rdatas: vec![] });
                        if e.ttl != r.ttl {
                            v.exact = false;
                            e.ttl = r.ttl;
                        }
                        if e.rdatas.contains(&r.rdata) {
                            v.exact = false;
                        } else {
                            e.rdatas.push(r.rdata.clone());
                            e.rdatas.sort();
                        }
                    }
                }
                Mode::Unknown => unreachable!(),
            }
        }
        if truncated {
            if finished {
                v.trailing = true;
                v.why = format!("message {i} is cut short after the closing SOA");
                return v;
            }
            reject(&mut v, format!("message {i} is cut short: {} of {} answer records intact", b.intact, m.an.len()));
            return v;
        }
    }
    if !finished {
        if qtype == IXFR && count == 1 {
            v.kind = Kind::SingleSoa;
        } else {
            v.kind = Kind::Incomplete;
        }
    }
    v
}
