//! Zone model for C10: versions of a zone as plain data (no library types),
//! generators for version chains, and the reference notion of "content".
use crate::gen::name::{self as gn, Labels};
use crate::gen::rdata as grd;
use crate::gen::*;
use crate::refimpl::rdata as rr;
use arbitrary::Unstructured;
use std::collections::BTreeMap;

pub const CLASS_IN: u16 = 1;

/// One resource record (class is the zone's class, always IN here).
#[derive(Clone, Debug, PartialEq, Eq, Hash, PartialOrd, Ord)]
pub struct Rr {
    pub owner: Labels,
    pub rtype: u16,
    pub ttl: u32,
    /// uncompressed wire RDATA
    pub rdata: Vec<u8>,
}

#[derive(Clone, Debug, PartialEq, Eq, Hash)]
pub struct SoaM {
    pub ttl: u32,
    pub mname: Labels,
    pub rname: Labels,
    pub serial: u32,
    pub refresh: u32,
    pub retry: u32,
    pub expire: u32,
    pub minimum: u32,
}

impl SoaM {
    pub fn rdata(&self) -> Vec<u8> {
        let mut v = gn::to_wire(&self.mname);
        v.extend(gn::to_wire(&self.rname));
        for x in [self.serial, self.refresh, self.retry, self.expire, self.minimum] {
            v.extend_from_slice(&x.to_be_bytes());
        }
        v
    }
    pub fn rr(&self, apex: &Labels) -> Rr {
        Rr { owner: apex.clone(), rtype: rr::SOA, ttl: self.ttl, rdata: self.rdata() }
    }
}

/// Key of an RRset in a content map: lower-cased owner wire form + type.
pub type Key = (Vec<u8>, u16);

#[derive(Clone, Debug, PartialEq, Eq, Hash)]
pub struct RrsetC {
    pub ttl: u32,
    /// sorted RDATA multiset
    pub rdatas: Vec<Vec<u8>>,
}

/// Content of a zone version: (owner, type) -> (ttl, RDATA multiset). The
/// class is a property of the zone.
pub type Content = BTreeMap<Key, RrsetC>;

pub fn key_of(owner: &Labels, rtype: u16) -> Key {
    (gn::to_wire(&gn::lower(owner)), rtype)
}

/// One RRset of the model: spelling of the owner, ttl, distinct rdatas.
#[derive(Clone, Debug, PartialEq, Eq, Hash)]
pub struct SetM {
    pub owner: Labels,
    pub rtype: u16,
    pub ttl: u32,
    pub rdatas: Vec<Vec<u8>>,
}

#[derive(Clone, Debug, PartialEq, Eq, Hash)]
pub struct VersionM {
    pub soa: SoaM,
    /// non-SOA RRsets keyed by lower-cased owner + type
    pub sets: BTreeMap<Key, SetM>,
}

impl VersionM {
    pub fn serial(&self) -> u32 {
        self.soa.serial
    }
    /// All non-SOA records in map order.
    pub fn records(&self) -> Vec<Rr> {
        let mut v = vec![];
        for s in self.sets.values() {
            for rd in &s.rdatas {
                v.push(Rr { owner: s.owner.clone(), rtype: s.rtype, ttl: s.ttl, rdata: rd.clone() });
            }
        }
        v
    }
    pub fn content(&self, apex: &Labels) -> Content {
        let mut c = Content::new();
        c.insert(key_of(apex, rr::SOA), RrsetC { ttl: self.soa.ttl, rdatas: vec![self.soa.rdata()] });
        for (k, s) in &self.sets {
            let mut r = s.rdatas.clone();
            r.sort();
            c.insert(k.clone(), RrsetC { ttl: s.ttl, rdatas: r });
        }
        c
    }
    pub fn n_records(&self) -> usize {
        1 + self.sets.values().map(|s| s.rdatas.len()).sum::<usize>()
    }
}

/// Content from a flat list of records (used for the empty/unrelated zone).
pub fn content_of_records(recs: &[Rr]) -> Content {
    let mut c = Content::new();
    for r in recs {
        let e = c.entry(key_of(&r.owner, r.rtype)).or_insert(RrsetC { ttl: r.ttl, rdatas: vec![] });
        e.rdatas.push(r.rdata.clone());
    }
    for v in c.values_mut() {
        v.rdatas.sort();
    }
    c
}

pub fn show_content_diff(a: &Content, b: &Content) -> String {
    let mut s = String::new();
    let mut n = 0;
    for (k, v) in a {
        if b.get(k) != Some(v) {
            n += 1;
            if n <= 6 {
                s.push_str(&format!(
                    "\n  {} {}: left ttl={} {:?} | right {}",
                    show_wire_name(&k.0),
                    rr::mnemonic(k.1),
                    v.ttl,
                    v.rdatas.iter().map(|r| hex(r)).collect::<Vec<_>>(),
                    match b.get(k) {
                        Some(w) => format!("ttl={} {:?}", w.ttl, w.rdatas.iter().map(|r| hex(r)).collect::<Vec<_>>()),
                        None => "absent".into(),
                    }
                ));
            }
        }
    }
    for (k, w) in b {
        if !a.contains_key(k) {
            n += 1;
            if n <= 6 {
                s.push_str(&format!(
                    "\n  {} {}: left absent | right ttl={} {:?}",
                    show_wire_name(&k.0),
                    rr::mnemonic(k.1),
                    w.ttl,
                    w.rdatas.iter().map(|r| hex(r)).collect::<Vec<_>>()
                ));
            }
        }
    }
    format!("{n} differing RRsets (left {} / right {} RRsets){s}", a.len(), b.len())
}

pub fn hex(b: &[u8]) -> String {
    let mut s = String::new();
    for x in b.iter().take(40) {
        s.push_str(&format!("{x:02x}"));
    }
    if b.len() > 40 {
        s.push_str(&format!("..({})", b.len()));
    }
    s
}

pub fn show_wire_name(w: &[u8]) -> String {
    gn::from_wire(w).map(|l| gn::show(&l)).unwrap_or_else(|| hex(w))
}

pub fn show_rr(r: &Rr) -> String {
    format!("{} {} {} {}", gn::show(&r.owner), r.ttl, rr::mnemonic(r.rtype), hex(&r.rdata))
}

//------------ generators -------------------------------------------------------

const LBL: &[&[u8]] = &[
    b"a", b"b", b"www", b"mail", b"*", b"_tcp", b"ns1", b"ns2", b"Sub", b"x-1", b"zz", b"c",
    b"a-label-of-sixty-three-octets-0123456789-0123456789-0123456789-",
];

const TTLS: &[u32] = &[0, 1, 60, 300, 3600, 86400, 0x7FFF_FFFF, 7200];

/// Types used for zone content, common ones first (pick is monotone).
const TYPES: &[u16] = &[
    rr::A, rr::AAAA, rr::NS, rr::MX, rr::TXT, rr::CNAME, rr::A, rr::TXT, rr::PTR, rr::SRV, rr::DS, rr::DNSKEY,
    rr::RRSIG, rr::NSEC, rr::CAA, rr::TLSA, rr::SSHFP, rr::HINFO, rr::NAPTR, rr::DNAME, rr::SVCB, rr::HTTPS, rr::RP,
    rr::MINFO, rr::NSEC3, rr::NSEC3PARAM, rr::ZONEMD, rr::CDS, rr::CDNSKEY, rr::OPENPGPKEY, rr::MB, rr::MG, rr::MR,
    rr::MD, rr::MF, 65280, 99, 1234,
];

pub fn apex(u: &mut Unstructured) -> Labels {
    let l = |s: &[&[u8]]| s.iter().map(|x| x.to_vec()).collect::<Labels>();
    match pick(u, 6) {
        0 | 1 => l(&[b"example"]),
        2 => l(&[b"example", b"com"]),
        3 => l(&[b"Zone", b"Example", b"ORG"]),
        4 => l(&[b"d", b"c", b"b", b"a", b"arpa"]),
        _ => l(&[b"x"]),
    }
}

fn contains(pool: &[Labels], n: &Labels) -> bool {
    let k = gn::lower(n);
    pool.iter().any(|p| gn::lower(p) == k)
}

/// Owner names at or under the apex; unique case-insensitively.
pub fn owner_pool(u: &mut Unstructured, apex: &Labels, n: usize) -> Vec<Labels> {
    let mut pool = vec![apex.clone()];
    for _ in 0..n {
        let parent = pool[pick(u, pool.len())].clone();
        if parent.len() >= apex.len() + 4 {
            continue;
        }
        let lbl: Vec<u8> = if chance(u, 12) { gn::label(u, 12, false) } else { LBL[pick(u, LBL.len())].to_vec() };
        let mut c = parent.clone();
        c.insert(0, lbl);
        if gn::wire_len(&c) <= 255 && !contains(&pool, &c) {
            pool.push(c);
        }
    }
    pool
}

pub fn ttl(u: &mut Unstructured) -> u32 {
    match pick(u, 4) {
        0..=2 => TTLS[pick(u, TTLS.len())],
        _ => u32_(u) & 0x7FFF_FFFF,
    }
}

pub fn rtype(u: &mut Unstructured) -> u16 {
    TYPES[pick(u, TYPES.len())]
}

fn gen_rdatas(u: &mut Unstructured, rtype: u16, pool: &[Labels], n: usize, blob: usize) -> Vec<Vec<u8>> {
    let mut out: Vec<Vec<u8>> = vec![];
    for _ in 0..n {
        let rd = grd::rdata(u, rtype, pool, grd::Opts { plain_names: true, max_blob: blob });
        if rd.len() <= 4000 && !out.contains(&rd) {
            out.push(rd);
        }
    }
    if out.is_empty() {
        out.push(grd::rdata(u, rtype, pool, grd::Opts { plain_names: true, max_blob: blob }));
    }
    out
}

pub fn gen_set(u: &mut Unstructured, pool: &[Labels], blob: usize) -> SetM {
    let owner = pool[pick(u, pool.len())].clone();
    let rtype = rtype(u);
    let n = match pick(u, 6) {
        0..=2 => 1,
        3 => 2,
        4 => 3,
        _ => 1 + pick(u, 6),
    };
    let t = ttl(u);
    SetM { owner, rtype, ttl: t, rdatas: gen_rdatas(u, rtype, pool, n, blob) }
}

pub fn gen_soa(u: &mut Unstructured, pool: &[Labels], serial: u32) -> SoaM {
    SoaM {
        ttl: ttl(u),
        mname: pool[pick(u, pool.len())].clone(),
        rname: pool[pick(u, pool.len())].clone(),
        serial,
        refresh: [3600u32, 0, 0xFFFF_FFFF, 7200][pick(u, 4)],
        retry: [600u32, 0, 1][pick(u, 3)],
        expire: [604800u32, 0xFFFF_FFFF][pick(u, 2)],
        minimum: [300u32, 0, 86400][pick(u, 3)],
    }
}

pub fn serial0(u: &mut Unstructured) -> u32 {
    match pick(u, 10) {
        0 => 1,
        1 => 0,
        2 => 0x7FFF_FFFF,
        3 => 0x7FFF_FFFE,
        4 => 0x8000_0000,
        5 => 0xFFFF_FFFF,
        6 => 0xFFFF_FFFE,
        7 => 2024_09_24,
        _ => u32_(u),
    }
}

/// Serial increment in 1..=2^31-1.
pub fn serial_step(u: &mut Unstructured) -> u32 {
    match pick(u, 8) {
        0..=2 => 1,
        3 => 2,
        4 => 0x7FFF_FFFF,
        5 => 0x4000_0000,
        6 => 1000,
        _ => 1 + (u32_(u) % 0x7FFF_FFFF),
    }
}

/// Bulk padding: `n` TXT records of `size` octets each under bulk.<apex>;
/// deterministic from (tag, n, size) so it costs no input bytes.
pub fn add_bulk(v: &mut VersionM, apex: &Labels, tag: u8, n: usize, size: usize) {
    for i in 0..n {
        let mut owner = apex.clone();
        owner.insert(0, b"bulk".to_vec());
        owner.insert(0, format!("p{tag}-{i}").into_bytes());
        let mut rd = vec![];
        let mut left = size.max(1);
        let mut j = 0u32;
        while left > 0 {
            let n = left.min(255);
            rd.push(n as u8);
            for k in 0..n {
                rd.push(b'a' + ((i as u32 + j + k as u32 + tag as u32) % 26) as u8);
            }
            left -= n;
            j += 1;
        }
        let k = key_of(&owner, rr::TXT);
        v.sets.insert(k, SetM { owner, rtype: rr::TXT, ttl: 300, rdatas: vec![rd] });
    }
}

pub struct GenOpts {
    pub max_sets: usize,
    pub blob: usize,
    pub allow_bulk: bool,
    pub thorough: bool,
}

/// A first version: apex NS always present.
pub fn gen_version(u: &mut Unstructured, apex: &Labels, pool: &[Labels], o: &GenOpts) -> VersionM {
    let s0 = serial0(u);
    let mut v = VersionM { soa: gen_soa(u, pool, s0), sets: BTreeMap::new() };
    let ns_ttl = ttl(u);
    let ns_n = 1 + pick(u, 3);
    let ns = SetM { owner: apex.clone(), rtype: rr::NS, ttl: ns_ttl, rdatas: gen_rdatas(u, rr::NS, pool, ns_n, 8) };
    v.sets.insert(key_of(apex, rr::NS), ns);
    let n = match pick(u, 5) {
        0 => 0,
        1 => 1,
        2 => 2 + pick(u, 4),
        _ => pick(u, o.max_sets + 1),
    };
    for _ in 0..n {
        let s = gen_set(u, pool, o.blob);
        if s.rtype == rr::SOA {
            continue;
        }
        v.sets.entry(key_of(&s.owner, s.rtype)).or_insert(s);
    }
    if o.allow_bulk && chance(u, 40) {
        let (n, size) = bulk_dims(u, o.thorough);
        add_bulk(&mut v, apex, 0, n, size);
    }
    v
}

pub struct Shape {
    pub delegation: bool,
    pub ds: bool,
    pub glue: u8,
    pub cname: bool,
}

pub fn gen_shape(u: &mut Unstructured) -> Shape {
    let b = byte(u);
    Shape { delegation: b & 3 == 1, ds: b & 4 != 0, glue: (b >> 3) % 3, cname: b & 0x60 == 0x20 }
}

fn bulk_dims(u: &mut Unstructured, thorough: bool) -> (usize, usize) {
    match pick(u, 4) {
        0 => (40, 60),
        1 => (8, 3000),
        2 => (if thorough { 700 } else { 130 }, 600),
        _ => (if thorough { 2500 } else { 300 }, 20),
    }
}

#[derive(Clone, Debug, Default)]
pub struct EditStats {
    pub added_sets: usize,
    pub removed_sets: usize,
    pub grown: usize,
    pub shrunk: usize,
    pub ttl_only: usize,
    pub replaced: usize,
    pub soa_fields: bool,
}

/// One planned edit; decoded before the zone so that edits always happen.
#[derive(Clone, Debug, PartialEq, Eq, Hash)]
pub struct EditOp {
    pub kind: u8,
    pub a: u16,
    pub seed: u32,
}

#[derive(Clone, Debug, PartialEq, Eq, Hash)]
pub struct EditPlan {
    pub step: u32,
    pub soa_field: u8,
    pub ops: Vec<EditOp>,
    pub bulk: u8,
}

pub fn gen_plan(u: &mut Unstructured) -> EditPlan {
    let step = serial_step(u);
    let soa_field = byte(u);
    let n = match pick(u, 8) {
        0 => 0,
        1 => 1,
        2 => 2,
        3 => 3,
        _ => 2 + pick(u, 7),
    };
    let ops = (0..n).map(|_| EditOp { kind: pick(u, 8) as u8, a: u16_(u), seed: u32_(u) }).collect();
    EditPlan { step, soa_field, ops, bulk: byte(u) }
}

/// RDATA synthesised from a seed (no input bytes needed), distinct for
/// distinct seeds.
fn synth_rdata(rtype: u16, seed: u32) -> Option<Vec<u8>> {
    let b = seed.to_be_bytes();
    Some(match rtype {
        rr::A => vec![10, b[1], b[2], b[3]],
        rr::AAAA => {
            let mut v = vec![0x20, 0x01, 0x0d, 0xb8, 0, 0, 0, 0, 0, 0, 0, 0];
            v.extend_from_slice(&b);
            v
        }
        rr::TXT => {
            let t = format!("v={seed:08x}");
            let mut v = vec![t.len() as u8];
            v.extend_from_slice(t.as_bytes());
            v
        }
        rr::MX => {
            let mut v = vec![b[2], b[3]];
            v.extend(gn::to_wire(&vec![format!("mx{}", b[1]).into_bytes(), b"example".to_vec()]));
            v
        }
        rr::NS | rr::PTR | rr::CNAME => gn::to_wire(&vec![format!("h{seed:x}").into_bytes(), b"example".to_vec()]),
        _ => return None,
    })
}

fn fresh_rdatas(u: &mut Unstructured, rtype: u16, pool: &[Labels], n: usize, blob: usize, seed: u32) -> Vec<Vec<u8>> {
    if u.is_empty() {
        if let Some(rd) = synth_rdata(rtype, seed) {
            return vec![rd];
        }
    }
    gen_rdatas(u, rtype, pool, n, blob)
}

/// Derives the next version from `old` following `plan`: serial strictly
/// advances.
pub fn gen_next(u: &mut Unstructured, apex: &Labels, pool: &[Labels], old: &VersionM, o: &GenOpts, plan: &EditPlan, st: &mut EditStats) -> VersionM {
    let mut v = old.clone();
    v.soa.serial = old.soa.serial.wrapping_add(plan.step);
    if plan.soa_field < 60 {
        st.soa_fields = true;
        match plan.soa_field % 4 {
            0 => v.soa.minimum = v.soa.minimum.wrapping_add(1),
            1 => v.soa.ttl = TTLS[(plan.soa_field as usize / 4) % TTLS.len()],
            2 => v.soa.mname = pool[(plan.soa_field as usize / 4) % pool.len()].clone(),
            _ => v.soa.refresh ^= 1,
        }
    }
    let apex_ns = key_of(apex, rr::NS);
    let frac = |a: u16, n: usize| (a as usize * n) >> 16;
    for op in &plan.ops {
        let keys: Vec<Key> = v.sets.keys().filter(|k| **k != apex_ns).cloned().collect();
        let all: Vec<Key> = v.sets.keys().cloned().collect();
        match op.kind {
            0 | 1 => {
                let mut s = if u.is_empty() {
                    let t = [rr::A, rr::TXT, rr::AAAA, rr::MX][(op.seed % 4) as usize];
                    SetM { owner: pool[frac(op.a, pool.len())].clone(), rtype: t, ttl: TTLS[(op.seed as usize >> 2) % TTLS.len()], rdatas: vec![synth_rdata(t, op.seed).unwrap()] }
                } else {
                    gen_set(u, pool, o.blob)
                };
                if op.kind == 1 {
                    // at a name that does not exist yet
                    let mut owner = pool[frac(op.a, pool.len())].clone();
                    owner.insert(0, format!("n{:x}", op.seed & 0xfff).into_bytes());
                    if gn::wire_len(&owner) <= 255 {
                        s.owner = owner;
                    }
                }
                let k = key_of(&s.owner, s.rtype);
                if s.rtype != rr::SOA && !v.sets.contains_key(&k) {
                    v.sets.insert(k, s);
                    st.added_sets += 1;
                }
            }
            2 if !keys.is_empty() => {
                v.sets.remove(&keys[frac(op.a, keys.len())]);
                st.removed_sets += 1;
            }
            3 if !all.is_empty() => {
                // grow an RRset (apex NS included)
                let s = v.sets.get_mut(&all[frac(op.a, all.len())]).unwrap();
                let more = fresh_rdatas(u, s.rtype, pool, 1 + (op.seed as usize & 1), o.blob, op.seed);
                for m in more {
                    if !s.rdatas.contains(&m) {
                        s.rdatas.push(m);
                        st.grown += 1;
                    }
                }
            }
            4 if !all.is_empty() => {
                let s = v.sets.get_mut(&all[frac(op.a, all.len())]).unwrap();
                if s.rdatas.len() > 1 {
                    let i = (op.seed as usize) % s.rdatas.len();
                    s.rdatas.remove(i);
                    st.shrunk += 1;
                }
            }
            5 if !all.is_empty() => {
                let s = v.sets.get_mut(&all[frac(op.a, all.len())]).unwrap();
                let t = if op.seed & 3 == 0 { op.seed & 0x7FFF_FFFF } else { TTLS[(op.seed as usize >> 2) % TTLS.len()] };
                if t != s.ttl {
                    s.ttl = t;
                    st.ttl_only += 1;
                }
            }
            6 if !keys.is_empty() => {
                let s = v.sets.get_mut(&keys[frac(op.a, keys.len())]).unwrap();
                let n = s.rdatas.len();
                let fresh = fresh_rdatas(u, s.rtype, pool, n, o.blob, op.seed);
                if fresh != s.rdatas {
                    s.rdatas = fresh;
                    if op.seed & 4 != 0 {
                        s.ttl = TTLS[(op.seed as usize >> 3) % TTLS.len()];
                    }
                    st.replaced += 1;
                }
            }
            7 if !keys.is_empty() => {
                // remove every RRset of one owner name (the node disappears)
                let owner = keys[frac(op.a, keys.len())].0.clone();
                for k in keys.iter().filter(|k| k.0 == owner) {
                    v.sets.remove(k);
                    st.removed_sets += 1;
                }
            }
            _ => {}
        }
    }
    let is_bulk = |s: &SetM| s.owner.len() > apex.len() && s.owner[s.owner.len() - apex.len() - 1] == b"bulk";
    if o.allow_bulk && plan.bulk < 24 {
        let has_bulk = v.sets.values().any(is_bulk);
        if has_bulk && plan.bulk & 1 == 1 {
            // drop every other bulk record
            let ks: Vec<Key> = v.sets.iter().filter(|(_, s)| is_bulk(s)).map(|(k, _)| k.clone()).collect();
            for (i, k) in ks.iter().enumerate() {
                if i % 2 == 0 {
                    v.sets.remove(k);
                    st.removed_sets += 1;
                }
            }
        } else {
            let (n, size) = bulk_dims(u, o.thorough);
            add_bulk(&mut v, apex, 1 + (plan.bulk % 3), n / 2 + 1, size);
            st.added_sets += 1;
        }
    }
    v
}

/// Adds a delegation (NS, optional DS, glue below the cut) and a lone CNAME
/// under fresh names, the shapes a zone file loader stores as special nodes.
pub fn add_delegation(v: &mut VersionM, apex: &Labels, with_ds: bool, glue: u8, cname: bool) {
    let mut cut = apex.clone();
    cut.insert(0, b"deleg".to_vec());
    let mut ns1 = cut.clone();
    ns1.insert(0, b"ns1".to_vec());
    let mut ns2 = cut.clone();
    ns2.insert(0, b"ns2".to_vec());
    if gn::wire_len(&ns1) > 255 {
        return;
    }
    v.sets.insert(key_of(&cut, rr::NS), SetM { owner: cut.clone(), rtype: rr::NS, ttl: 3600, rdatas: vec![gn::to_wire(&ns1), gn::to_wire(&ns2)] });
    if with_ds {
        let mut ds = vec![0x12, 0x34, 13, 2];
        ds.extend((0..32).map(|i| i as u8));
        v.sets.insert(key_of(&cut, rr::DS), SetM { owner: cut.clone(), rtype: rr::DS, ttl: 3600, rdatas: vec![ds] });
    }
    if glue >= 1 {
        v.sets.insert(key_of(&ns1, rr::A), SetM { owner: ns1.clone(), rtype: rr::A, ttl: 3600, rdatas: vec![vec![192, 0, 2, 1], vec![192, 0, 2, 2]] });
    }
    if glue >= 2 {
        v.sets.insert(key_of(&ns1, rr::AAAA), SetM { owner: ns1.clone(), rtype: rr::AAAA, ttl: 3600, rdatas: vec![vec![0x20, 1, 0xd, 0xb8, 0, 0, 0, 0, 0, 0, 0, 0, 0, 0, 0, 1]] });
        v.sets.insert(key_of(&ns2, rr::A), SetM { owner: ns2.clone(), rtype: rr::A, ttl: 60, rdatas: vec![vec![192, 0, 2, 3]] });
    }
    if cname {
        let mut al = apex.clone();
        al.insert(0, b"alias".to_vec());
        v.sets.insert(key_of(&al, rr::CNAME), SetM { owner: al, rtype: rr::CNAME, ttl: 300, rdatas: vec![gn::to_wire(&ns1)] });
    }
}

/// Records removed / added going from `a` to `b` (IXFR difference
/// sequence bodies, SOA excluded). A TTL change of an RRset removes all of
/// its records and adds all of them again.
pub fn diff_records(a: &VersionM, b: &VersionM) -> (Vec<Rr>, Vec<Rr>) {
    let mut del = vec![];
    let mut add = vec![];
    for (k, s) in &a.sets {
        match b.sets.get(k) {
            Some(t) if t.ttl == s.ttl => {
                for rd in &s.rdatas {
                    if !t.rdatas.contains(rd) {
                        del.push(Rr { owner: s.owner.clone(), rtype: s.rtype, ttl: s.ttl, rdata: rd.clone() });
                    }
                }
                for rd in &t.rdatas {
                    if !s.rdatas.contains(rd) {
                        add.push(Rr { owner: t.owner.clone(), rtype: t.rtype, ttl: t.ttl, rdata: rd.clone() });
                    }
                }
            }
            Some(t) => {
                for rd in &s.rdatas {
                    del.push(Rr { owner: s.owner.clone(), rtype: s.rtype, ttl: s.ttl, rdata: rd.clone() });
                }
                for rd in &t.rdatas {
                    add.push(Rr { owner: t.owner.clone(), rtype: t.rtype, ttl: t.ttl, rdata: rd.clone() });
                }
            }
            None => {
                for rd in &s.rdatas {
                    del.push(Rr { owner: s.owner.clone(), rtype: s.rtype, ttl: s.ttl, rdata: rd.clone() });
                }
            }
        }
    }
    for (k, t) in &b.sets {
        if !a.sets.contains_key(k) {
            for rd in &t.rdatas {
                add.push(Rr { owner: t.owner.clone(), rtype: t.rtype, ttl: t.ttl, rdata: rd.clone() });
            }
        }
    }
    (del, add)
}

/// Deterministic permutation of a vector driven by input bytes (Fisher-Yates
/// with monotone picks; no bytes -> identity).
pub fn shuffle<T>(u: &mut Unstructured, v: &mut Vec<T>, max_swaps: usize) {
    let n = v.len();
    if n < 2 {
        return;
    }
    for _ in 0..max_swaps.min(n) {
        let i = pick(u, n.min(65536));
        let j = pick(u, n.min(65536));
        v.swap(i, j);
    }
}
