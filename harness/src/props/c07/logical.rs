//! Logical zone files and their rendering with free layout choices.
//!
//! A *logical* zone file is a list of entries (records, `$INCLUDE`s) plus
//! the context handed to the reader through its API (initial origin,
//! default class). `render` writes it as text; every layout decision
//! (comments, blank lines, parentheses, spacing, quoting/escaping,
//! relative/absolute names, `$ORIGIN`/`$TTL` directives, omitted owner / TTL
//! / class, TTL-class order) is drawn from the `Unstructured` passed in, so
//! two calls with different bytes give two layouts of the same content.
//!
//! The presentation writer here is this harness's own (written from RFC
//! 1035 §5, RFC 3597 §5, RFC 4034, RFC 5155, RFC 9460 and the reader's
//! documented rules); the library's writer is not used.
use crate::gen::name::{self as gn, Labels};
use crate::gen::rdata::bitmap_of;
use crate::gen::*;
use crate::refimpl::rdata as rr;
use arbitrary::Unstructured;

//------------ Tokens ----------------------------------------------------------

#[derive(Clone, Debug, PartialEq, Eq, Hash)]
pub enum Tok {
    /// A plain word written as is (numbers, mnemonics, Base-N chunks, ...).
    W(String),
    /// A domain name (absolute, as labels).
    N(Labels),
    /// A character string / octets token: may be quoted, unquoted or escaped.
    S(Vec<u8>),
    /// SVCB `key=value`; the value may be quoted. Value has no characters
    /// that need escaping.
    Kv(String, String),
}

#[derive(Clone, Debug, PartialEq, Eq, Hash)]
pub struct LRec {
    pub owner: Labels,
    pub ttl: u32,
    pub rtype: u16,
    pub toks: Vec<Tok>,
    pub rdata: Vec<u8>,
}

#[derive(Clone, Debug, PartialEq, Eq, Hash)]
pub enum LItem {
    Rec(LRec),
    Include { path: Vec<u8>, origin: Option<Labels> },
}

#[derive(Clone, Debug, PartialEq, Eq, Hash)]
pub struct Logical {
    /// Origin given to the reader through `set_origin`.
    pub origin: Option<Labels>,
    /// Class given through `set_default_class`.
    pub default_class: Option<u16>,
    /// The one class of the file.
    pub class: u16,
    pub items: Vec<LItem>,
    pub pool: Vec<Labels>,
}

impl LRec {
    /// Uncompressed wire form of the record.
    pub fn wire(&self, class: u16) -> Vec<u8> {
        let mut v = gn::to_wire(&self.owner);
        v.extend_from_slice(&self.rtype.to_be_bytes());
        v.extend_from_slice(&class.to_be_bytes());
        v.extend_from_slice(&self.ttl.to_be_bytes());
        v.extend_from_slice(&(self.rdata.len() as u16).to_be_bytes());
        v.extend_from_slice(&self.rdata);
        v
    }
}

//------------ Text encoders -----------------------------------------------------

pub fn hex(b: &[u8], upper: bool) -> String {
    let mut s = String::with_capacity(b.len() * 2);
    for x in b {
        if upper {
            s.push_str(&format!("{x:02X}"));
        } else {
            s.push_str(&format!("{x:02x}"));
        }
    }
    s
}

pub fn base64(b: &[u8]) -> String {
    const A: &[u8; 64] = b"ABCDEFGHIJKLMNOPQRSTUVWXYZabcdefghijklmnopqrstuvwxyz0123456789+/";
    let mut s = String::new();
    for c in b.chunks(3) {
        let n = (c[0] as u32) << 16 | (*c.get(1).unwrap_or(&0) as u32) << 8 | *c.get(2).unwrap_or(&0) as u32;
        s.push(A[(n >> 18) as usize & 63] as char);
        s.push(A[(n >> 12) as usize & 63] as char);
        s.push(if c.len() > 1 { A[(n >> 6) as usize & 63] as char } else { '=' });
        s.push(if c.len() > 2 { A[n as usize & 63] as char } else { '=' });
    }
    s
}

/// RFC 4648 §7 "base32hex", no padding (RFC 5155 §3.3).
pub fn base32hex(b: &[u8]) -> String {
    const A: &[u8; 32] = b"0123456789ABCDEFGHIJKLMNOPQRSTUV";
    let mut s = String::new();
    let mut acc: u64 = 0;
    let mut bits = 0;
    for &x in b {
        acc = (acc << 8) | x as u64;
        bits += 8;
        while bits >= 5 {
            s.push(A[((acc >> (bits - 5)) & 31) as usize] as char);
            bits -= 5;
        }
    }
    if bits > 0 {
        s.push(A[((acc << (5 - bits)) & 31) as usize] as char);
    }
    s
}

/// Days since 1970-01-01 → (y, m, d). (Howard Hinnant's algorithm.)
fn civil_from_days(z: i64) -> (i64, i64, i64) {
    let z = z + 719468;
    let era = z.div_euclid(146097);
    let doe = z.rem_euclid(146097);
    let yoe = (doe - doe / 1460 + doe / 36524 - doe / 146096) / 365;
    let y = yoe + era * 400;
    let doy = doe - (365 * yoe + yoe / 4 - yoe / 100);
    let mp = (5 * doy + 2) / 153;
    let d = doy - (153 * mp + 2) / 5 + 1;
    let m = if mp < 10 { mp + 3 } else { mp - 9 };
    (if m <= 2 { y + 1 } else { y }, m, d)
}

/// RFC 4034 §3.2 time: YYYYMMDDHHmmSS (UTC) for a 32-bit seconds value.
pub fn timestamp14(t: u32) -> String {
    let days = (t / 86400) as i64;
    let s = t % 86400;
    let (y, m, d) = civil_from_days(days);
    format!("{y:04}{m:02}{d:02}{:02}{:02}{:02}", s / 3600, (s / 60) % 60, s % 60)
}

//------------ Value generators ----------------------------------------------------

fn small_blob(u: &mut Unstructured, min: usize, max: usize) -> Vec<u8> {
    let n = match pick(u, 6) {
        0 => min,
        1 => max,
        2 => 20.clamp(min, max),
        _ => min + pick(u, max - min + 1),
    };
    (0..n).map(|_| byte(u)).collect()
}

/// Content of a character string (0..=255 octets), biased to the octets
/// the reader treats specially.
pub fn cs_content(u: &mut Unstructured) -> Vec<u8> {
    let n = match pick(u, 12) {
        0 => 0,
        1 => 255,
        2 => 254,
        3..=8 => 1 + pick(u, 10),
        _ => pick(u, 256),
    };
    let fill = pick(u, 3);
    (0..n)
        .map(|_| match if fill == 0 { 0 } else { pick(u, 6) } {
            0 | 1 | 2 => pickb(u, b"abcdefghijklmnopqrstuvwxyzABCXYZ0123456789"),
            3 => pickb(u, b" \"();\\@$.#=,-_*'\t"),
            4 => pickb(u, b"\x00\n\r\x7f\x80\xff\x1f\xc3"),
            _ => byte(u),
        })
        .collect()
}

fn u8tok(u: &mut Unstructured) -> u8 {
    match pick(u, 4) {
        0 => [0u8, 1, 2, 3, 255, 8, 13, 100][pick(u, 8)],
        _ => byte(u),
    }
}
fn u16tok(u: &mut Unstructured) -> u16 {
    match pick(u, 4) {
        0 => [0u16, 1, 65535, 256, 10, 443][pick(u, 6)],
        _ => u16_(u),
    }
}
fn u32tok(u: &mut Unstructured) -> u32 {
    match pick(u, 4) {
        0 => [0u32, 1, 0xffff_ffff, 0x8000_0000, 0x7fff_ffff, 3600, 2020080302][pick(u, 7)],
        _ => u32_(u),
    }
}

/// Splits text into 1..=4 chunks; `even` keeps chunk lengths even.
fn chunks(u: &mut Unstructured, s: &str, even: bool) -> Vec<Tok> {
    if s.is_empty() {
        return vec![];
    }
    let want = 1 + pick(u, 4);
    let mut out = vec![];
    let mut rest = s;
    for _ in 1..want {
        if rest.len() < 4 {
            break;
        }
        let mut at = 1 + pick(u, rest.len() - 1);
        if even {
            at &= !1;
            if at == 0 {
                at = 2;
            }
        }
        if at >= rest.len() {
            break;
        }
        out.push(Tok::W(rest[..at].to_string()));
        rest = &rest[at..];
    }
    out.push(Tok::W(rest.to_string()));
    out
}

const BITMAP_TYPES: &[u16] = &[1, 2, 5, 6, 12, 15, 16, 28, 33, 43, 46, 47, 48, 50, 51, 257, 1234, 65280, 65535, 99, 255 + 3];

fn type_list(u: &mut Unstructured) -> (Vec<Tok>, Vec<u8>) {
    let n = pick(u, 7);
    let mut types: Vec<u16> = (0..n).map(|_| BITMAP_TYPES[pick(u, BITMAP_TYPES.len())]).collect();
    let wire = bitmap_of(&mut types);
    // presentation order is free; use the sorted order or its reverse
    if flag(u) {
        types.reverse();
    }
    (types.iter().map(|t| Tok::W(rr::mnemonic(*t))).collect(), wire)
}

fn pool_name(u: &mut Unstructured, pool: &[Labels]) -> Labels {
    pool[pick(u, pool.len())].clone()
}

fn ipv4(u: &mut Unstructured) -> ([u8; 4], String) {
    let a = [byte(u), byte(u), byte(u), byte(u)];
    (a, format!("{}.{}.{}.{}", a[0], a[1], a[2], a[3]))
}
fn ipv6(u: &mut Unstructured) -> (Vec<u8>, String) {
    let a: Vec<u8> = (0..16).map(|_| if chance(u, 100) { 0 } else { byte(u) }).collect();
    let s: Vec<String> = a.chunks(2).map(|c| format!("{:x}", (c[0] as u16) << 8 | c[1] as u16)).collect();
    (a, s.join(":"))
}

/// Record types the layout half draws from (zone types + generic form).
pub const LAYOUT_TYPES: &[u16] = &[
    rr::A, rr::AAAA, rr::NS, rr::CNAME, rr::PTR, rr::MB, rr::MD, rr::MF, rr::MG, rr::MR, rr::DNAME, rr::SOA, rr::MX,
    rr::TXT, rr::HINFO, rr::MINFO, rr::RP, rr::SRV, rr::NAPTR, rr::DS, rr::CDS, rr::DNSKEY, rr::CDNSKEY, rr::SSHFP,
    rr::TLSA, rr::ZONEMD, rr::OPENPGPKEY, rr::RRSIG, rr::NSEC, rr::NSEC3, rr::NSEC3PARAM, rr::IPSECKEY, rr::CAA,
    rr::SVCB, rr::HTTPS,
];

/// Generates record data of `rtype`: presentation tokens and the wire form
/// they denote. `generic` selects the RFC 3597 `\# len hex` form.
pub fn gen_rdata(u: &mut Unstructured, rtype: u16, generic: bool, pool: &[Labels]) -> (Vec<Tok>, Vec<u8>) {
    let mut t: Vec<Tok> = vec![];
    let mut w: Vec<u8> = vec![];
    macro_rules! n8 { () => {{ let x = u8tok(u); t.push(Tok::W(x.to_string())); w.push(x); x }}; }
    macro_rules! n16 { () => {{ let x = u16tok(u); t.push(Tok::W(x.to_string())); w.extend_from_slice(&x.to_be_bytes()); x }}; }
    macro_rules! n32 { () => {{ let x = u32tok(u); t.push(Tok::W(x.to_string())); w.extend_from_slice(&x.to_be_bytes()); x }}; }
    macro_rules! name { () => {{ let n = pool_name(u, pool); w.extend(gn::to_wire(&n)); t.push(Tok::N(n)); }}; }
    macro_rules! cstr { () => {{ let c = cs_content(u); w.push(c.len() as u8); w.extend_from_slice(&c); t.push(Tok::S(c)); }}; }
    // Hex fields of typed records (DS/CDS digest, TLSA, SSHFP, ZONEMD) allow
    // white space anywhere in the hexadecimal text (RFC 4034 section 5.3 and
    // friends): words may break inside an octet. Only the RFC 3597 generic
    // form below demands an even number of digits per word.
    macro_rules! hexrest { ($min:expr, $max:expr) => {{ let b = small_blob(u, $min, $max); let up = flag(u); let odd = hi(u, 110); t.extend(chunks(u, &hex(&b, up), !odd)); w.extend(b); }}; }
    macro_rules! b64rest { ($min:expr, $max:expr) => {{ let b = small_blob(u, $min, $max); t.extend(chunks(u, &base64(&b), false)); w.extend(b); }}; }

    if generic {
        let b = small_blob(u, 0, 40);
        t.push(Tok::W("\\#".into()));
        t.push(Tok::W(b.len().to_string()));
        let up = flag(u);
        t.extend(chunks(u, &hex(&b, up), true));
        return (t, b);
    }
    match rtype {
        rr::A => {
            let (a, s) = ipv4(u);
            t.push(Tok::W(s));
            w.extend(a);
        }
        rr::AAAA => {
            let (a, s) = ipv6(u);
            t.push(Tok::W(s));
            w.extend(a);
        }
        rr::NS | rr::CNAME | rr::PTR | rr::MB | rr::MD | rr::MF | rr::MG | rr::MR | rr::DNAME => name!(),
        rr::SOA => {
            name!();
            name!();
            for _ in 0..5 {
                n32!();
            }
        }
        rr::MX => {
            n16!();
            name!();
        }
        rr::TXT => {
            for _ in 0..1 + pick(u, 4) {
                cstr!();
            }
        }
        rr::HINFO => {
            cstr!();
            cstr!();
        }
        rr::MINFO | rr::RP => {
            name!();
            name!();
        }
        rr::SRV => {
            n16!();
            n16!();
            n16!();
            name!();
        }
        rr::NAPTR => {
            n16!();
            n16!();
            cstr!();
            cstr!();
            cstr!();
            name!();
        }
        rr::DS | rr::CDS => {
            n16!();
            n8!();
            n8!();
            hexrest!(1, 48);
        }
        rr::DNSKEY | rr::CDNSKEY => {
            n16!();
            n8!();
            n8!();
            b64rest!(1, 80);
        }
        rr::SSHFP => {
            n8!();
            n8!();
            hexrest!(1, 32);
        }
        rr::TLSA => {
            n8!();
            n8!();
            n8!();
            hexrest!(1, 64);
        }
        rr::ZONEMD => {
            n32!();
            n8!();
            n8!();
            hexrest!(12, 64);
        }
        rr::OPENPGPKEY => b64rest!(1, 100),
        rr::RRSIG => {
            let covered = if chance(u, 30) { 1234 } else { rr::ZONE_TYPES[pick(u, rr::ZONE_TYPES.len())] };
            t.push(Tok::W(rr::mnemonic(covered)));
            w.extend_from_slice(&covered.to_be_bytes());
            n8!();
            n8!();
            n32!();
            for _ in 0..2 {
                let x = u32tok(u);
                t.push(Tok::W(if flag(u) { timestamp14(x) } else { x.to_string() }));
                w.extend_from_slice(&x.to_be_bytes());
            }
            n16!();
            name!();
            b64rest!(1, 96);
        }
        rr::NSEC => {
            name!();
            let (tt, bm) = type_list(u);
            t.extend(tt);
            w.extend(bm);
        }
        rr::NSEC3 | rr::NSEC3PARAM => {
            n8!();
            n8!();
            n16!();
            let salt = small_blob(u, 0, 16);
            t.push(Tok::W(if salt.is_empty() { "-".into() } else { hex(&salt, flag(u)) }));
            w.push(salt.len() as u8);
            w.extend_from_slice(&salt);
            if rtype == rr::NSEC3 {
                let h = if chance(u, 180) { small_blob(u, 20, 20) } else { small_blob(u, 1, 40) };
                let mut s = base32hex(&h);
                if flag(u) {
                    s = s.to_ascii_lowercase();
                }
                t.push(Tok::W(s));
                w.push(h.len() as u8);
                w.extend_from_slice(&h);
                let (tt, bm) = type_list(u);
                t.extend(tt);
                w.extend(bm);
            }
        }
        rr::IPSECKEY => {
            n8!();
            let gw = pick(u, 4) as u8;
            t.push(Tok::W(gw.to_string()));
            w.push(gw);
            let alg = pick(u, 3) as u8;
            t.push(Tok::W(alg.to_string()));
            w.push(alg);
            match gw {
                0 => t.push(Tok::W(".".into())),
                1 => {
                    let (a, s) = ipv4(u);
                    t.push(Tok::W(s));
                    w.extend(a);
                }
                2 => {
                    let (a, s) = ipv6(u);
                    t.push(Tok::W(s));
                    w.extend(a);
                }
                _ => name!(),
            }
            if alg != 0 || flag(u) {
                b64rest!(1, 60);
            }
        }
        rr::CAA => {
            n8!();
            let n = 1 + pick(u, 10);
            let tag: Vec<u8> = (0..n).map(|_| pickb(u, b"abcdefghijklmnopqrstuvwxyz0123456789")).collect();
            w.push(n as u8);
            w.extend_from_slice(&tag);
            t.push(Tok::W(String::from_utf8(tag).unwrap()));
            let v = cs_content(u);
            w.extend_from_slice(&v);
            t.push(Tok::S(v));
        }
        rr::SVCB | rr::HTTPS => {
            n16!();
            name!();
            // a subset of RFC 9460 parameters in key order
            if flag(u) {
                let ids: Vec<&str> = (0..1 + pick(u, 3)).map(|_| ["h2", "h3", "http/1.1", "dot"][pick(u, 4)]).collect();
                let mut v = vec![];
                for id in &ids {
                    v.push(id.len() as u8);
                    v.extend_from_slice(id.as_bytes());
                }
                w.extend_from_slice(&1u16.to_be_bytes());
                w.extend_from_slice(&(v.len() as u16).to_be_bytes());
                w.extend(v);
                t.push(Tok::Kv("alpn".into(), ids.join(",")));
            }
            if flag(u) {
                let p = u16tok(u);
                w.extend_from_slice(&3u16.to_be_bytes());
                w.extend_from_slice(&2u16.to_be_bytes());
                w.extend_from_slice(&p.to_be_bytes());
                t.push(Tok::Kv("port".into(), p.to_string()));
            }
            if flag(u) {
                let mut v = vec![];
                let mut ss = vec![];
                for _ in 0..1 + pick(u, 3) {
                    let (a, s) = ipv4(u);
                    v.extend(a);
                    ss.push(s);
                }
                w.extend_from_slice(&4u16.to_be_bytes());
                w.extend_from_slice(&(v.len() as u16).to_be_bytes());
                w.extend(v);
                t.push(Tok::Kv("ipv4hint".into(), ss.join(",")));
            }
            if flag(u) {
                let mut v = vec![];
                let mut ss = vec![];
                for _ in 0..1 + pick(u, 2) {
                    let (a, s) = ipv6(u);
                    v.extend(a);
                    ss.push(s);
                }
                w.extend_from_slice(&6u16.to_be_bytes());
                w.extend_from_slice(&(v.len() as u16).to_be_bytes());
                w.extend(v);
                t.push(Tok::Kv("ipv6hint".into(), ss.join(",")));
            }
        }
        _ => unreachable!("type {rtype} has no presentation generator"),
    }
    (t, w)
}

pub const TTLS: &[u32] = &[3600, 300, 0, 86400, 1, 2147483647, 4294967295, 7200];

/// Decodes a logical zone file.
pub fn gen_logical(u: &mut Unstructured, max_items: usize) -> Logical {
    let npool = 3 + pick(u, 6);
    let pool = gn::pool(u, npool, true);
    let origin = match pick(u, 6) {
        2 => None,
        1 => Some(vec![]),
        _ => Some(pool[pick(u, pool.len().min(3))].clone()),
    };
    let class = [1u16, 1, 1, 3, 4][pick(u, 5)];
    let default_class = if chance(u, 90) { Some(class) } else { None };
    let n = 1 + pick(u, max_items);
    let mut items = vec![];
    let mut last_owner: Option<Labels> = None;
    let mut last_ttl = TTLS[0];
    for _ in 0..n {
        if hi(u, 14) {
            let plen = 1 + pick(u, 12);
            let path: Vec<u8> = (0..plen).map(|_| pickb(u, b"abcdefghijklmnopqrstuvwxyz0123456789./_-ABC ;(\"")).collect();
            let origin = if flag(u) { Some(pool_name(u, &pool)) } else { None };
            items.push(LItem::Include { path, origin });
            continue;
        }
        let owner = match (pick(u, 8), &last_owner, &origin) {
            (0..=2, Some(o), _) => o.clone(),
            (3, _, Some(o)) => o.clone(),
            _ => pool_name(u, &pool),
        };
        let ttl = match pick(u, 4) {
            0 | 1 => last_ttl,
            _ => TTLS[pick(u, TTLS.len())],
        };
        last_ttl = ttl;
        let (rtype, generic) = match pick(u, 16) {
            0 => ([1234u16, 65280, 99, 65534][pick(u, 4)], true),
            1 => (LAYOUT_TYPES[pick(u, LAYOUT_TYPES.len())], true),
            2..=4 => ([rr::A, rr::TXT, rr::NS, rr::MX, rr::SOA][pick(u, 5)], false),
            _ => (LAYOUT_TYPES[pick(u, LAYOUT_TYPES.len())], false),
        };
        let (toks, rdata) = gen_rdata(u, rtype, generic, &pool);
        last_owner = Some(owner.clone());
        items.push(LItem::Rec(LRec { owner, ttl, rtype, toks, rdata }));
    }
    Logical { origin, default_class, class, items, pool }
}

//------------ Rendering -----------------------------------------------------------

/// Layout dimensions (the rewrites the property statement lists).
pub const DIMS: &[&str] = &[
    "comment", "blank-line", "parens", "spacing", "crlf", "str-unquoted", "str-decimal", "name-escaped", "name-relative",
    "owner-at", "owner-omitted", "ttl-omitted", "ttl-omitted-last-stated", "dollar-ttl", "dollar-origin", "class-omitted", "class-before-ttl",
    "glued-quote", "trailing-space", "kv-quoted", "header-parens",
];
pub fn dim(name: &str) -> usize {
    DIMS.iter().position(|d| *d == name).expect("dimension")
}

pub struct Rendered {
    pub text: Vec<u8>,
    pub dims: Vec<u32>,
}

/// Like `chance` but an exhausted input (zeros) gives false.
fn hi(u: &mut Unstructured, n: u8) -> bool {
    byte(u) as u16 + n as u16 > 255
}

struct R<'a, 'b> {
    u: &'a mut Unstructured<'b>,
    out: Vec<u8>,
    dims: Vec<u32>,
    cur_origin: Option<Labels>,
    dollar_ttl: Option<u32>,
    last_ttl: Option<u32>,
    class_known: bool,
    last_owner: Option<Labels>,
    depth: usize,
    /// the last thing written is a closing double quote
    after_quote: bool,
    /// Layout intensity: 0 = canonical, plain layout.
    busy: bool,
}

fn class_mnemonic(c: u16) -> &'static str {
    match c {
        1 => "IN",
        3 => "CH",
        4 => "HS",
        _ => unreachable!(),
    }
}

fn ends_with(name: &Labels, suffix: &Labels) -> bool {
    name.len() >= suffix.len() && name[name.len() - suffix.len()..] == suffix[..]
}

impl R<'_, '_> {
    fn d(&mut self, name: &str) {
        self.dims[dim(name)] += 1;
    }
    /// true with probability about n/256; false once the input is used up
    /// (so that every loop ends and exhausted input means plain layout).
    fn ch(&mut self, n: u8) -> bool {
        self.busy && hi(self.u, n)
    }

    fn comment_text(&mut self) {
        self.out.push(b';');
        let n = pick(self.u, 12);
        for _ in 0..n {
            let b = match pick(self.u, 4) {
                0 => pickb(self.u, b"\"();\\ \t$@\r.\x00\xff\xc3("),
                1 => byte(self.u),
                _ => pickb(self.u, b"abc comment 123"),
            };
            if b != b'\n' {
                self.out.push(b);
            }
        }
        self.d("comment");
    }

    fn newline(&mut self) {
        if self.ch(60) {
            self.out.extend_from_slice(b"\r\n");
            self.d("crlf");
        } else {
            self.out.push(b'\n');
        }
    }

    fn ws(&mut self) {
        match if self.busy { pick(self.u, 5) } else { 0 } {
            0 | 1 => self.out.push(b' '),
            2 => {
                self.out.push(b'\t');
                self.d("spacing");
            }
            _ => {
                for _ in 0..2 + pick(self.u, 4) {
                    let b = pickb(self.u, b" \t ");
                    self.out.push(b);
                }
                self.d("spacing");
            }
        }
    }

    /// Blank and comment-only lines between entries.
    fn filler_lines(&mut self) {
        while self.ch(50) {
            match pick(self.u, 4) {
                0 => {
                    self.d("blank-line");
                }
                1 => {
                    self.ws();
                    self.d("blank-line");
                }
                2 => self.comment_text(),
                _ => {
                    self.ws();
                    self.comment_text();
                }
            }
            self.newline();
        }
    }

    /// End of a line inside parentheses: optional space, optional comment,
    /// newline, optional further comment/blank lines, optional indentation.
    fn continuation(&mut self) {
        loop {
            if self.ch(80) {
                self.ws();
            }
            if self.ch(80) {
                self.comment_text();
            }
            self.newline();
            if !self.ch(40) {
                break;
            }
        }
        if !self.ch(60) {
            self.ws();
        }
    }

    /// Separator before a token. `rdata`: parentheses may open/close here.
    /// `quote_next`: the next token starts with a double quote.
    fn sep(&mut self, rdata: bool, quote_next: bool) {
        let mut separated = false;
        if rdata && self.busy {
            // close
            while self.depth > 0 && hi(self.u, 40) {
                if hi(self.u, 128) {
                    self.ws();
                }
                if hi(self.u, 60) {
                    self.continuation();
                }
                self.out.push(b')');
                self.depth -= 1;
                separated = true;
            }
            // open
            while self.depth < 3 && hi(self.u, if self.depth == 0 { 50 } else { 25 }) {
                if hi(self.u, 128) {
                    self.ws();
                }
                self.out.push(b'(');
                self.depth += 1;
                self.d("parens");
                separated = true;
            }
            if self.depth > 0 && hi(self.u, 110) {
                self.continuation();
                separated = true;
            }
        }
        if separated && self.ch(128) {
            // a parenthesis or newline already separates the tokens
            let last = *self.out.last().unwrap();
            if last == b'(' || last == b')' || last == b'\n' {
                return;
            }
        }
        if !separated && (self.after_quote || quote_next) && self.ch(60) {
            // zero spacing next to a quoted token (the reader's own test
            // data uses `"foo""bar"`)
            self.d("glued-quote");
            return;
        }
        let last = *self.out.last().unwrap_or(&b' ');
        if !(separated && (last == b' ' || last == b'\t') && self.ch(128)) {
            self.ws();
        }
    }

    fn label_text(&mut self, l: &[u8]) {
        for &b in l {
            let plain = b.is_ascii_alphanumeric() || b == b'-' || b == b'_';
            if !plain {
                if b == b'.' || b == b'\\' {
                    self.out.push(b'\\');
                    self.out.push(b);
                } else {
                    self.out.extend_from_slice(format!("\\{b:03}").as_bytes());
                }
            } else if self.ch(10) {
                self.out.extend_from_slice(format!("\\{b:03}").as_bytes());
                self.d("name-escaped");
            } else if b.is_ascii_alphabetic() && self.ch(6) {
                self.out.push(b'\\');
                self.out.push(b);
                self.d("name-escaped");
            } else {
                self.out.push(b);
            }
        }
    }

    fn name_abs(&mut self, n: &Labels) {
        if n.is_empty() {
            self.out.push(b'.');
            return;
        }
        for l in n {
            self.label_text(l);
            self.out.push(b'.');
        }
    }

    /// A name token: relative to the current origin when possible and chosen.
    fn name(&mut self, n: &Labels) {
        if let Some(o) = self.cur_origin.clone() {
            if ends_with(n, &o) && n.len() > o.len() && self.ch(128) {
                let rel = &n[..n.len() - o.len()];
                for (i, l) in rel.iter().enumerate() {
                    if i > 0 {
                        self.out.push(b'.');
                    }
                    self.label_text(l);
                }
                self.d("name-relative");
                return;
            }
        }
        self.name_abs(n);
    }

    fn quoted(&mut self, s: &[u8]) {
        self.out.push(b'"');
        for &b in s {
            match b {
                b'"' | b'\\' => {
                    self.out.push(b'\\');
                    self.out.push(b);
                }
                0x20..=0x7e => {
                    if self.ch(6) {
                        self.out.extend_from_slice(format!("\\{b:03}").as_bytes());
                    } else {
                        self.out.push(b);
                    }
                }
                _ => self.out.extend_from_slice(format!("\\{b:03}").as_bytes()),
            }
        }
        self.out.push(b'"');
    }

    fn unquoted(&mut self, s: &[u8]) {
        for &b in s {
            match b {
                b'"' | b'\\' | b';' | b'(' | b')' | b' ' => {
                    if flag(self.u) {
                        self.out.push(b'\\');
                        self.out.push(b);
                    } else {
                        self.out.extend_from_slice(format!("\\{b:03}").as_bytes());
                    }
                }
                0x21..=0x7e => self.out.push(b),
                _ => self.out.extend_from_slice(format!("\\{b:03}").as_bytes()),
            }
        }
    }

    /// 0 quoted, 1 unquoted with escapes, 2 every octet as \DDD
    fn str_mode(&mut self, s: &[u8]) -> usize {
        if s.is_empty() || !self.busy {
            return 0;
        }
        match pick(self.u, 8) {
            0..=3 => 0,
            4 | 5 => 1,
            _ => 2,
        }
    }

    fn string(&mut self, s: &[u8], mode: usize) {
        match mode {
            0 => self.quoted(s),
            1 => {
                self.unquoted(s);
                self.d("str-unquoted");
            }
            _ => {
                for &b in s {
                    self.out.extend_from_slice(format!("\\{b:03}").as_bytes());
                }
                self.d("str-decimal");
            }
        }
    }

    fn tok(&mut self, t: &Tok, rdata: bool) {
        match t {
            Tok::W(w) => {
                self.sep(rdata, false);
                self.out.extend_from_slice(w.as_bytes());
                self.after_quote = false;
            }
            Tok::N(n) => {
                self.sep(rdata, false);
                self.name(n);
                self.after_quote = false;
            }
            Tok::S(s) => {
                let mode = self.str_mode(s);
                self.sep(rdata, mode == 0);
                self.string(s, mode);
                self.after_quote = mode == 0;
            }
            Tok::Kv(k, v) => {
                // never glued to a neighbouring quote
                self.after_quote = false;
                self.sep(rdata, false);
                self.out.extend_from_slice(k.as_bytes());
                self.out.push(b'=');
                if self.ch(90) {
                    self.out.push(b'"');
                    self.out.extend_from_slice(v.as_bytes());
                    self.out.push(b'"');
                    self.d("kv-quoted");
                    // a following token must be separated by real space
                    self.after_quote = false;
                } else {
                    self.out.extend_from_slice(v.as_bytes());
                }
            }
        }
    }

    fn end_of_entry(&mut self) {
        while self.depth > 0 {
            if self.ch(100) {
                self.ws();
            }
            if self.ch(50) {
                self.continuation();
            }
            self.out.push(b')');
            self.depth -= 1;
        }
        if self.ch(50) {
            self.ws();
            self.d("trailing-space");
        }
        if self.ch(50) {
            self.comment_text();
        }
        self.newline();
        self.after_quote = false;
    }

    fn directive_origin(&mut self, o: &Labels) {
        self.out.extend_from_slice(b"$ORIGIN");
        self.after_quote = false;
        self.ws();
        self.name(o);
        self.end_of_entry();
        self.cur_origin = Some(o.clone());
        self.d("dollar-origin");
    }

    fn maybe_dollar_origin(&mut self, target: &Labels, pool: &[Labels]) {
        if !self.ch(40) {
            return;
        }
        let o: Labels = match pick(self.u, 4) {
            0 => target.clone(),
            1 => {
                let k = pick(self.u, target.len() + 1);
                target[k..].to_vec()
            }
            2 => vec![],
            _ => pool[pick(self.u, pool.len())].clone(),
        };
        self.directive_origin(&o);
    }

    fn record(&mut self, r: &LRec, class: u16, pool: &[Labels]) {
        self.maybe_dollar_origin(&r.owner, pool);
        if self.ch(40) {
            let v = if hi(self.u, 200) { r.ttl } else { TTLS[pick(self.u, TTLS.len())] };
            self.out.extend_from_slice(b"$TTL");
            self.ws();
            self.out.extend_from_slice(v.to_string().as_bytes());
            self.end_of_entry();
            self.dollar_ttl = Some(v);
            self.d("dollar-ttl");
            self.filler_lines();
        }
        // owner
        self.after_quote = false;
        let mut owner_omitted = false;
        if self.last_owner.as_ref() == Some(&r.owner) && self.ch(150) {
            self.ws();
            self.d("owner-omitted");
            owner_omitted = true;
        } else if self.cur_origin.as_ref() == Some(&r.owner) && self.ch(150) {
            self.out.push(b'@');
            self.d("owner-at");
        } else {
            self.name(&r.owner);
        }
        self.last_owner = Some(r.owner.clone());
        // TTL and class
        let inherited = match self.dollar_ttl {
            Some(d) => Some(d),
            None => self.last_ttl,
        };
        let omit_ttl = inherited == Some(r.ttl) && self.ch(150);
        let omit_class = self.class_known && self.ch(150);
        if omit_ttl {
            self.d(if self.dollar_ttl.is_some() { "ttl-omitted" } else { "ttl-omitted-last-stated" });
        } else {
            self.last_ttl = Some(r.ttl);
        }
        if omit_class {
            self.d("class-omitted");
        }
        self.class_known = true;
        let ttl_tok = Tok::W(r.ttl.to_string());
        let class_tok = Tok::W(class_mnemonic(class).to_string());
        // RFC 1035 section 5.1: parentheses group data that crosses a line
        // boundary anywhere in an entry, not only inside the RDATA: in some
        // files they may open directly after the owner (also glued to it:
        // `@(`, `www(`) and span the TTL, class and type tokens.
        let hp = self.busy && !owner_omitted && self.ch(40);
        if hp {
            self.d("header-parens");
        }
        match (omit_ttl, omit_class) {
            (true, true) => {}
            (true, false) => self.tok(&class_tok, hp),
            (false, true) => self.tok(&ttl_tok, hp),
            (false, false) => {
                if self.ch(128) {
                    self.tok(&class_tok, hp);
                    self.tok(&ttl_tok, hp);
                    self.d("class-before-ttl");
                } else {
                    self.tok(&ttl_tok, hp);
                    self.tok(&class_tok, hp);
                }
            }
        }
        self.tok(&Tok::W(rr::mnemonic(r.rtype)), hp);
        for t in &r.toks {
            self.tok(t, true);
        }
        self.end_of_entry();
    }

    fn include(&mut self, path: &[u8], origin: &Option<Labels>) {
        self.out.extend_from_slice(b"$INCLUDE");
        self.after_quote = false;
        self.ws();
        // the path is a string token; decimal escapes are not used for it
        // (the reader's string type takes characters, not octets)
        let quoted = !self.busy || hi(self.u, 128);
        if quoted {
            self.out.push(b'"');
            for &b in path {
                if b == b'"' || b == b'\\' {
                    self.out.push(b'\\');
                }
                self.out.push(b);
            }
            self.out.push(b'"');
        } else {
            for &b in path {
                if b" ;()\"\\".contains(&b) {
                    self.out.push(b'\\');
                }
                self.out.push(b);
            }
            self.d("str-unquoted");
        }
        if let Some(o) = origin {
            self.ws();
            self.name(o);
        }
        self.end_of_entry();
    }
}

/// Renders the logical file. `busy = false` gives the canonical plain layout
/// (one space, absolute names, everything explicit, strings quoted).
pub fn render(lz: &Logical, u: &mut Unstructured, busy: bool) -> Rendered {
    let mut r = R {
        u,
        out: vec![],
        dims: vec![0; DIMS.len()],
        cur_origin: lz.origin.clone(),
        dollar_ttl: None,
        last_ttl: None,
        class_known: lz.default_class.is_some(),
        last_owner: None,
        depth: 0,
        after_quote: false,
        busy,
    };
    for it in &lz.items {
        r.filler_lines();
        match it {
            LItem::Rec(rec) => r.record(rec, lz.class, &lz.pool),
            LItem::Include { path, origin } => {
                if let Some(o) = origin {
                    r.maybe_dollar_origin(o, &lz.pool);
                }
                r.include(path, origin)
            }
        }
    }
    r.filler_lines();
    Rendered { text: r.out, dims: r.dims }
}
