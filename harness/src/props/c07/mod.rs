//! C07 — the zone-file reader is total and depends only on logical content.
//!
//! Sub-checks
//! * `total`      byte-level cases: fixture zone files, grammar output of the
//!                layout renderer and token soup, each after 0..6 byte-level
//!                mutations; or raw bytes. Reader options and feed mode are
//!                part of the case.
//! * `total_raw`  first octet = options, rest = the file content verbatim
//!                (entry point for the coverage-guided driver).
//! * `anchored`   see anchored.rs: parsed::Zonefile (try_from / insert) on owner
//!                collisions (CNAME, zone cuts), against a model of its rules.
//! * `layout`     metamorphic: one logical zone file rendered twice with
//!                independent layout choices; both readings must equal the
//!                logical entry list.
use crate::engine::*;
use crate::gen::name::{self as gn, Labels};
use crate::gen::*;
use crate::refimpl::rdata as rr;
use crate::{vensure, vfail};
use arbitrary::Unstructured;
use bytes::{BufMut, Bytes};
use domain::base::iana::Class;
use domain::base::name::{FlattenInto, ToLabelIter};
use domain::base::zonefile_fmt::{DisplayKind, ZonefileFmt};
use domain::base::{Name, Record};
use domain::rdata::ZoneRecordData;
use domain::zonefile::inplace::{Entry, ScannedRecord, Zonefile};
use std::collections::BTreeMap;

pub mod anchored;
pub mod logical;
use logical::{LItem, Logical};

//------------ Fixtures -------------------------------------------------------------

macro_rules! fx {
    ($n:literal) => {
        include_bytes!(concat!("../../../../fixtures/c07/", $n)) as &[u8]
    };
}

/// Zone files from /repo/test-data/zonefiles (the `zonefile:` block of the
/// YAML cases, and the *.zone / *.txt files).
pub const SEEDS: &[&[u8]] = &[
    fx!("yaml-basic.zone"),
    fx!("yaml-escape.zone"),
    fx!("yaml-unknown.zone"),
    fx!("yaml-unknown-zero-length.zone"),
    fx!("yaml-defaultclass.zone"),
    fx!("yaml-mixedclass.zone"),
    fx!("yaml-strlen.zone"),
    fx!("yaml-stroverflow.zone"),
    fx!("yaml-multiple_dollar_ttls_multiple_missing_ttls.zone"),
    fx!("yaml-multiple_dollar_ttls_no_missing_ttls.zone"),
    fx!("yaml-no_dollar_ttl_no_missing_ttls.zone"),
    fx!("yaml-no_dollar_ttl_one_missing_ttl.zone"),
    fx!("yaml-top_dollar_ttl_and_missing_ttl.zone"),
    fx!("yaml-top_dollar_ttl_no_missing_ttls.zone"),
    fx!("yaml-rfc_1035_class_ttl_type_rdata.zone"),
    fx!("yaml-rfc_1035_ttl_class_type_rdata.zone"),
    fx!("nsd-example.txt"),
    fx!("rfc1034-6-1-root.zone"),
    fx!("rfc1034-6-1-edu.zone"),
    fx!("rfc4035-appendix-A.zone"),
    fx!("rfc5155-appendix-A.zone"),
    fx!("example.com.head.txt"),
];

//------------ Reader options ---------------------------------------------------------

#[derive(Clone, Copy, Debug, PartialEq, Eq, Hash)]
pub enum Feed {
    /// `Zonefile::from(&[u8])`
    From,
    /// `Zonefile::load(reader)`
    Load,
    /// `new()` / `with_capacity` + `extend_from_slice` in pieces, all before reading
    Extend,
    /// `BufMut::put_slice` / `reserve` in pieces, all before reading
    BufMut,
    /// pieces are appended whenever the reader reports the end of the data
    Interleaved,
}

#[derive(Clone, Debug, PartialEq, Eq, Hash)]
pub struct ReadOpts {
    pub origin: Option<Labels>,
    pub default_class: Option<u16>,
    pub allow_invalid: bool,
    pub feed: Feed,
    /// piece size selector for the incremental feeds
    pub piece: usize,
}

const PIECES: [usize; 8] = [1, 2, 3, 7, 16, 61, 256, 4099];

fn opts_from_byte(b: u8) -> ReadOpts {
    let origin = match b & 3 {
        0 => None,
        1 => Some(vec![b"example".to_vec(), b"com".to_vec()]),
        2 => Some(vec![]),
        _ => Some(vec![vec![b'x'; 63], vec![b'y'; 63], vec![b'z'; 63], vec![b'w'; 40]]),
    };
    let default_class = match (b >> 2) & 3 {
        0 | 3 => None,
        1 => Some(1),
        _ => Some(3),
    };
    let feed = match b >> 5 {
        0 | 5 | 6 => Feed::From,
        1 => Feed::Load,
        2 => Feed::Extend,
        3 => Feed::BufMut,
        _ => Feed::Interleaved,
    };
    ReadOpts { origin, default_class, allow_invalid: b & 0x10 != 0, feed, piece: PIECES[(b as usize * 7 + 3) % 8] }
}

fn make_reader(content: &[u8], o: &ReadOpts) -> (Zonefile, Vec<Vec<u8>>) {
    let mut later: Vec<Vec<u8>> = vec![];
    let mut zf = match o.feed {
        Feed::From => Zonefile::from(content),
        Feed::Load => {
            let mut rd = content;
            Zonefile::load(&mut rd).expect("reading from a slice cannot fail")
        }
        Feed::Extend => {
            let mut z = if o.piece & 1 == 1 { Zonefile::new() } else { Zonefile::with_capacity(content.len() / 2) };
            for c in content.chunks(o.piece) {
                z.extend_from_slice(c);
            }
            z
        }
        Feed::BufMut => {
            let mut z = Zonefile::default();
            for c in content.chunks(o.piece) {
                z.reserve(c.len());
                z.put_slice(c);
            }
            z
        }
        Feed::Interleaved => {
            let mut it = content.chunks(o.piece.max(16));
            let mut z = Zonefile::new();
            if let Some(c) = it.next() {
                z.extend_from_slice(c);
            }
            later = it.map(|c| c.to_vec()).collect();
            later.reverse();
            z
        }
    };
    if o.allow_invalid {
        zf = zf.allow_invalid();
    }
    if let Some(l) = &o.origin {
        zf.set_origin(gn::to_name_bytes(l));
    }
    if let Some(c) = o.default_class {
        zf.set_default_class(Class::from_int(c));
    }
    (zf, later)
}

//------------ What the reader returned ------------------------------------------------

#[derive(Clone, Debug, PartialEq, Eq)]
pub enum Got {
    Rec { owner: Labels, rtype: u16, class: u16, ttl: u32, rdata: Vec<u8> },
    Include { path: Vec<u8>, origin: Option<Labels> },
}

#[derive(Debug)]
pub struct ReadOut {
    pub entries: Vec<Got>,
    /// None = end of file reached; Some = error text
    pub error: Option<String>,
    /// a panic was tolerated as a known finding; the entry list is incomplete
    pub tolerated_panic: bool,
    pub offset: usize,
    pub typed: BTreeMap<u16, u32>,
}

fn labels_checked<N: ToLabelIter>(what: &str, n: &N) -> Result<Labels, Violation> {
    let mut out: Labels = vec![];
    let mut len = 0usize;
    let mut saw_root = false;
    let mut steps = 0;
    for l in n.iter_labels() {
        steps += 1;
        vensure!(steps <= 130, format!("{what}:name-iteration-unbounded"), "more than 130 labels");
        vensure!(!saw_root, format!("{what}:name-invalid:label-after-root"), "labels after the root label: {out:?}");
        let s = l.as_slice();
        vensure!(s.len() <= 63, format!("{what}:name-invalid:label-too-long"), "label of {} octets in a returned name", s.len());
        len += s.len() + 1;
        if s.is_empty() {
            saw_root = true;
        } else {
            out.push(s.to_vec());
        }
    }
    vensure!(saw_root, format!("{what}:name-invalid:not-absolute"), "returned name does not end in the root label: {out:?}");
    vensure!(len <= 255, format!("{what}:name-invalid:too-long"), "returned name has {len} octets");
    Ok(out)
}

/// Uses a record the reader returned: owner valid, can be displayed,
/// flattened and composed; returns its fields taken from the composed form.
///
/// `oversize`: the file is larger than 65535 octets, so a field (which is
/// never longer than its text) may exceed what any record can hold. Whether
/// such a value can be composed is a matter of the record data types, not of
/// the reader, so only the names are checked then.
fn use_record(rec: &ScannedRecord, oversize: bool) -> Result<Got, Violation> {
    let owner = labels_checked("record-owner", rec.owner())?;
    if oversize {
        return Ok(Got::Rec { owner, rtype: rec.rtype().to_int(), class: rec.class().to_int(), ttl: rec.ttl().as_secs(), rdata: vec![] });
    }
    let mut wire: Vec<u8> = Vec::new();
    if rec.compose(&mut wire).is_err() {
        vfail!("record:compose-failed", "compose into Vec failed for {}", gn::show(&owner));
    }
    let ow = gn::to_wire(&owner);
    vensure!(wire.len() >= ow.len() + 10 && wire[..ow.len()] == ow[..], "record:composed-owner-differs", "composed record does not start with the owner name");
    let f = &wire[ow.len()..];
    let rtype = u16::from_be_bytes([f[0], f[1]]);
    let class = u16::from_be_bytes([f[2], f[3]]);
    let ttl = u32::from_be_bytes([f[4], f[5], f[6], f[7]]);
    let rdlen = u16::from_be_bytes([f[8], f[9]]) as usize;
    vensure!(f.len() == 10 + rdlen, "record:composed-rdlen-inconsistent", "RDLENGTH {rdlen} but {} octets of data follow", f.len() - 10);
    vensure!(rtype == rec.rtype().to_int() && class == rec.class().to_int() && ttl == rec.ttl().as_secs(), "record:composed-header-differs", "composed type/class/ttl differ from the accessors");
    let rdata = f[10..].to_vec();
    // names inside the data of typed records must be valid names
    if !matches!(rec.data(), ZoneRecordData::Unknown(_)) {
        if let Err(rr::WalkErr::BadName(why)) = rr::normal_rdata(rtype, &rdata, 0, rdata.len(), false) {
            vfail!("record-data:name-invalid", "type {} data holds an invalid name ({why})", rr::mnemonic(rtype));
        }
    }
    // the forms other parts of the library take the record in
    let _ = format!("{rec}");
    let _ = rec.display_zonefile(DisplayKind::Simple).to_string();
    let flat: Record<Name<Bytes>, ZoneRecordData<Bytes, Name<Bytes>>> = rec.clone().flatten_into();
    let mut wire2: Vec<u8> = Vec::new();
    let _ = flat.compose(&mut wire2);
    vensure!(wire2 == wire, "record:flattened-differs", "flatten_into changes the composed form of a returned record");
    Ok(Got::Rec { owner, rtype, class, ttl, rdata })
}

fn use_entry(e: &Entry, oversize: bool) -> Result<Got, Violation> {
    match e {
        Entry::Record(r) => use_record(r, oversize),
        Entry::Include { path, origin } => {
            let p: &[u8] = path.as_slice();
            vensure!(std::str::from_utf8(p).is_ok(), "include:path-not-utf8", "the Str returned as $INCLUDE path is not UTF-8: {p:?}");
            let _ = format!("{path}");
            let origin = match origin {
                Some(o) => Some(labels_checked("include-origin", o)?),
                None => None,
            };
            Ok(Got::Include { path: p.to_vec(), origin })
        }
    }
}

/// Drives the reader over `content` until the end, the first error or a
/// (tolerated) panic.
pub fn read_all(content: &[u8], o: &ReadOpts, ctx: &mut Ctx) -> Result<ReadOut, Violation> {
    let (mut zf, mut later) = guarded("construct", || make_reader(content, o))?;
    let mut out = ReadOut { entries: vec![], error: None, tolerated_panic: false, offset: 0, typed: BTreeMap::new() };
    let newlines = content.iter().filter(|b| **b == b'\n').count();
    loop {
        let step = guarded("next_entry", || zf.next_entry());
        let step = match step {
            Ok(s) => s,
            Err(v) => {
                // the reader is in an unknown state after a panic
                ctx.report(v)?;
                out.tolerated_panic = true;
                break;
            }
        };
        match step {
            Ok(Some(e)) => {
                match guarded("use-entry", || use_entry(&e, content.len() > 65535)) {
                    Ok(Ok(g)) => {
                        if let Got::Rec { rtype, .. } = &g {
                            *out.typed.entry(*rtype).or_default() += 1;
                        }
                        out.entries.push(g)
                    }
                    Ok(Err(v)) | Err(v) => {
                        ctx.report(v)?;
                        out.tolerated_panic = true;
                        break;
                    }
                }
                // progress: every entry consumes at least one octet
                vensure!(out.entries.len() <= content.len(), "next_entry:more-entries-than-octets", "{} entries from {} octets", out.entries.len(), content.len());
            }
            Ok(None) => {
                if let Some(more) = later.pop() {
                    zf.extend_from_slice(&more);
                    continue;
                }
                break;
            }
            Err(e) => {
                // stop at the first error as the API demands
                let text = e.to_string();
                let dbg = format!("{e:?}");
                vensure!(!dbg.is_empty(), "error:debug-empty", "empty Debug");
                let line: Option<usize> = text.split(':').next().and_then(|s| s.parse().ok());
                let col_ok = text.split(':').nth(1).map(|s| s.parse::<usize>().is_ok()).unwrap_or(false);
                vensure!(line.is_some() && col_ok, "error:no-position", "error text {text:?} does not start with line:col");
                let line = line.unwrap();
                // (+2: a reader may treat the end of input as an implicit line
                // terminator and report an error found there on the line after it)
                vensure!(line >= 1 && line <= newlines + 2, "error:line-out-of-range", "error {text:?} names line {line}; the input has {newlines} newlines");
                out.error = Some(text);
                break;
            }
        }
    }
    out.offset = zf.current_offset();
    vensure!(out.offset <= content.len() + 1, "current_offset:beyond-input", "current_offset {} for {} octets", out.offset, content.len());
    Ok(out)
}

/// Error text without position and context, digits removed: a class label.
fn err_kind(text: &str) -> String {
    let msg = text.splitn(3, ':').nth(2).unwrap_or(text).trim();
    let msg = msg.split(':').next().unwrap_or(msg);
    msg.chars().filter(|c| !c.is_ascii_digit()).take(40).collect()
}

//------------ Totality --------------------------------------------------------------

const DICT: &[&[u8]] = &[
    b"$ORIGIN", b"$TTL", b"$INCLUDE", b"$origin", b"$GENERATE", b"$", b"IN", b"CH", b"HS", b"CLASS1", b"CLASS65535", b"TYPE1", b"TYPE65535",
    b"TYPE65536", b"(", b")", b";", b"\"", b"\\", b"\\#", b"@", b"\\000", b"\\25", b"\\256", b"\\999", b"\\\n", b"\\\"", b"\\.", b".", b"..", b"-",
    b"=", b"key1=", b"alpn=", b"alpn=\"h2\"", b"mandatory=alpn", b"port=", b"no-default-alpn", b"ipv4hint=1.2.3.4", b"key65535=\"a b\"", b"\0",
    b"\r", b"\n", b"\t", b" ", b"\xff", b"\xc3\x28", b"\xc3\xa9", b"\xf0\x9f\x92\xa9", b"\xed\xa0\x80", b"\xf4\x90\x80\x80", b"4294967296", b"4294967295", b"256", b"255", b"259", b"65535", b"65536", b"65539",
    b"99999999999999999999", b"20240101000000", b"20241301000000", b"00000000000000", b"1.2.3.4", b"::1", b"1.2.3.256", b"example.com.", b"a.b",
    b"A", b"AAAA", b"NS", b"CNAME", b"SOA", b"MX", b"TXT", b"SRV", b"NAPTR", b"DS", b"DNSKEY", b"RRSIG", b"NSEC", b"NSEC3", b"NSEC3PARAM", b"TLSA",
    b"SSHFP", b"CAA", b"SVCB", b"HTTPS", b"IPSECKEY", b"OPENPGPKEY", b"ZONEMD", b"HINFO", b"MINFO", b"RP", b"PTR", b"DNAME", b"CDS", b"CDNSKEY", b"OPT",
    b"NULL", b"TSIG", b"ANY", b"AXFR", b"\"\"", b"\" \"", b"a\"b\"c", b"\\# 0", b"\\# 1 00", b"\\# 2 00", b"\\# 65535", b"00", b"0", b"AQID", b"AQ==", b"====",
    b"-", b"0123456789ABCDEFGHIJKLMNOPQRSTUV", b"issue", b"0 issue \"ca.example\"", b"1 0 0 -", b"1 1 1 aabb", b"( ; c\n )", b"\r\n", b"3600", b"0",
];

const SPECIAL_BYTES: &[u8] = b"\n\r\t \"();\\$@.#\0\x7f\x80\xff=-*09azAZ";

fn soup(u: &mut Unstructured) -> Vec<u8> {
    let mut out = vec![];
    let lines = 1 + pick(u, 8);
    for _ in 0..lines {
        if chance(u, 60) {
            out.push(b' ');
        }
        let toks = pick(u, 9);
        for _ in 0..toks {
            match pick(u, 8) {
                0..=3 => out.extend_from_slice(DICT[pick(u, DICT.len())]),
                4 => {
                    let l = gn::name(u, false);
                    out.extend_from_slice(gn::show(&l).as_bytes());
                }
                5 => {
                    out.push(b'"');
                    for _ in 0..pick(u, 10) {
                        out.push(pickb(u, SPECIAL_BYTES));
                    }
                    out.push(b'"');
                }
                6 => out.extend_from_slice(u32_(u).to_string().as_bytes()),
                _ => {
                    for _ in 0..1 + pick(u, 8) {
                        out.push(byte(u));
                    }
                }
            }
            match pick(u, 8) {
                0 => {}
                1 => out.push(b'\t'),
                2 => out.extend_from_slice(b" ( "),
                3 => out.extend_from_slice(b" ) "),
                _ => out.push(b' '),
            }
        }
        match pick(u, 8) {
            0 => out.extend_from_slice(b"\r\n"),
            1 => out.push(b'\r'),
            2 => out.extend_from_slice(b" ; c\n"),
            _ => out.push(b'\n'),
        }
    }
    if chance(u, 40) {
        out.pop();
    }
    out
}

const RUNS: [usize; 16] = [1, 2, 3, 62, 63, 64, 65, 127, 253, 254, 255, 256, 257, 300, 1000, 70_000];

fn mutate(u: &mut Unstructured, v: &mut Vec<u8>, ctx: &mut Ctx) {
    let pos = |u: &mut Unstructured, len: usize| -> usize {
        if len == 0 {
            0
        } else {
            (u16_(u) as usize * (len + 1)) >> 16
        }
    };
    let op = pick(u, 14);
    let label = match op {
        0 | 1 => {
            let at = pos(u, v.len());
            let t = DICT[pick(u, DICT.len())];
            let glue = pick(u, 3);
            let mut ins = vec![];
            if glue == 1 {
                ins.push(b' ');
            }
            ins.extend_from_slice(t);
            if glue >= 1 {
                ins.push(b' ');
            }
            v.splice(at..at, ins);
            "insert-token"
        }
        2 => {
            let a = pos(u, v.len());
            let n = 1 + pick(u, 40);
            let b = (a + n).min(v.len());
            v.drain(a..b);
            "delete"
        }
        3 => {
            let a = pos(u, v.len());
            v.truncate(a);
            "truncate"
        }
        4 | 5 => {
            if !v.is_empty() {
                let a = pos(u, v.len() - 1);
                v[a] = if flag(u) { pickb(u, SPECIAL_BYTES) } else { byte(u) };
            }
            "replace-byte"
        }
        6 => {
            let a = pos(u, v.len());
            let n = 1 + pick(u, 60);
            let b = (a + n).min(v.len());
            let chunk = v[a..b].to_vec();
            let at = pos(u, v.len());
            v.splice(at..at, chunk);
            "duplicate"
        }
        7 | 8 => {
            let at = pos(u, v.len());
            let b = match pick(u, 4) {
                0 => b'a',
                1 => pickb(u, b"0\\\"(. ;\n9"),
                2 => pickb(u, SPECIAL_BYTES),
                _ => byte(u),
            };
            let huge = chance(u, 8);
            let n = RUNS[pick(u, if huge { 16 } else { 15 })];
            v.splice(at..at, std::iter::repeat(b).take(n));
            "insert-run"
        }
        9 => {
            let with: &[u8] = if flag(u) { b"\r" } else { b"\r\n" };
            let mut o = Vec::with_capacity(v.len() + 16);
            for &b in v.iter() {
                if b == b'\n' {
                    o.extend_from_slice(with);
                } else {
                    o.push(b);
                }
            }
            *v = o;
            "line-ends"
        }
        10 => {
            while v.last() == Some(&b'\n') || v.last() == Some(&b'\r') {
                v.pop();
            }
            "no-final-newline"
        }
        11 => {
            let a = pos(u, v.len());
            let n = pick(u, 30);
            let b = (a + n).min(v.len());
            let (open, close): (&[u8], &[u8]) = match pick(u, 4) {
                0 => (b"\"", b"\""),
                1 => (b"(", b")"),
                2 => (b"( ", b"\n)"),
                _ => (b";", b"\n"),
            };
            v.splice(b..b, close.iter().copied());
            v.splice(a..a, open.iter().copied());
            "wrap"
        }
        12 => {
            // an escape sequence somewhere
            let at = pos(u, v.len());
            let e: Vec<u8> = match pick(u, 4) {
                0 => format!("\\{:03}", byte(u)).into_bytes(),
                1 => vec![b'\\', byte(u)],
                2 => format!("\\{}", u16_(u) % 1000).into_bytes(),
                _ => vec![b'\\'],
            };
            v.splice(at..at, e);
            "insert-escape"
        }
        _ => {
            // a whole line from the dictionary
            let mut line = vec![];
            for _ in 0..1 + pick(u, 4) {
                line.extend_from_slice(DICT[pick(u, DICT.len())]);
                line.push(b' ');
            }
            line.push(b'\n');
            // at a line start
            let mut at = pos(u, v.len());
            while at > 0 && v[at - 1] != b'\n' {
                at -= 1;
            }
            v.splice(at..at, line);
            "insert-line"
        }
    };
    ctx.class(format!("mut:{label}"));
}

/// The totality oracle on one file content.
fn total_core(content: &[u8], o: &ReadOpts, ctx: &mut Ctx) -> CaseResult {
    ctx.class(format!("feed:{:?}", o.feed));
    ctx.sample(|| {
        format!(
            "{} octets, {:?}, origin {:?}, default class {:?}, allow_invalid {}; file: {:?}",
            content.len(),
            o.feed,
            o.origin.as_ref().map(gn::show),
            o.default_class,
            o.allow_invalid,
            String::from_utf8_lossy(&content[..content.len().min(400)])
        )
    });
    let out = read_all(content, o, ctx)?;
    match &out.error {
        None if out.tolerated_panic => ctx.class("end:tolerated-known-finding"),
        None => ctx.class("end:eof"),
        Some(e) => {
            ctx.class("end:error");
            ctx.class(format!("err:{}", err_kind(e)));
        }
    }
    let recs = out.entries.iter().filter(|g| matches!(g, Got::Rec { .. })).count();
    if recs > 0 {
        ctx.class("returned:record");
    }
    if recs >= 5 {
        ctx.class("returned:5+records");
    }
    if out.entries.iter().any(|g| matches!(g, Got::Include { .. })) {
        ctx.class("returned:include");
    }
    for t in out.typed.keys() {
        ctx.class(format!("type:{}", rr::mnemonic(*t)));
    }
    if !out.entries.is_empty() || (out.error.is_some() && out.offset >= 2) {
        ctx.nontrivial(&(content, o));
    }
    // the anchored-file conversion on what was read (fresh reader: the
    // conversion consumes it)
    if o.feed != Feed::Interleaved {
        let conv = guarded("parsed::Zonefile::try_from", || {
            let (zf, _) = make_reader(content, o);
            domain::zonetree::parsed::Zonefile::try_from(zf).map(|z| (z.origin().is_some(), z.class().is_some()))
        });
        match conv {
            Ok(Ok(_)) => {
                ctx.class("parsed:ok");
                vensure!(out.error.is_none() || out.tolerated_panic, "parsed:accepts-what-next_entry-rejects", "parsed::Zonefile::try_from is Ok but next_entry reported {:?}", out.error);
            }
            Ok(Err(_)) => ctx.class("parsed:err"),
            Err(v) => ctx.report(v)?,
        }
    }
    Ok(())
}

/// Record / directive templates with holes; the holes get boundary values,
/// dictionary tokens and long runs (grammar-aware mutation).
const TEMPLATES: &[&str] = &[
    "a NSEC3 1 0 0 - {} A\n", "a NSEC3 1 0 0 {} 00 A\n", "a NSEC3 {} {} {} - 00\n", "a NSEC3PARAM 1 0 {} {}\n", "a DS {} {} {} {}\n", "a DS 1 1 1 {}\n",
    "a TXT {}\n", "a TXT {} {}\n", "a {} IN A 1.2.3.4\n", "a IN {} A 1.2.3.4\n", "a {} {} {}\n", "a CAA {} {} {}\n", "a CAA 0 issue {}\n",
    "a SVCB {} . {}\n", "a HTTPS 1 {} {} {}\n", "{} A 1.2.3.4\n", "{} {}\n", "a NSEC {} A\n", "a NSEC a. {}\n", "a NSEC a. {} {} {}\n",
    "a RRSIG A 8 2 3600 {} {} 1 a. AQID\n", "a RRSIG {} {} {} {} 1 1 {} {} {}\n", "a OPENPGPKEY {}\n", "a DNSKEY 256 3 {} {}\n", "a A {}\n",
    "a AAAA {}\n", "a NAPTR 1 1 {} {} {} .\n", "a HINFO {} {}\n", "$INCLUDE {}\n", "$INCLUDE {} {}\n", "$ORIGIN {}\n", "$TTL {}\n", "a \\# {} {}\n",
    "a TYPE{} \\# 0\n", "a CLASS{} A 1.2.3.4\n", "a SOA {} {} 1 2 3 4 {}\n", "a MX {} {}\n", "a SRV 1 2 {} {}\n", "a IPSECKEY 1 {} {} {} {}\n",
    "a TLSA {} {} {} {}\n", "a SSHFP {} {} {}\n", "a ZONEMD {} {} {} {}\n", "a NS {}\n", "  {} {} {}\n", "a ( {} ) A ( {} )\n", "{}\n",
    "a TXT ( {} ; c\n {} )\n", "a. 1 IN A 1.2.3.4\n{}\n",
];

fn hole(u: &mut Unstructured) -> Vec<u8> {
    let mut out = vec![];
    let quote = pick(u, 6) == 5;
    if quote {
        out.push(b'"');
    }
    match pick(u, 8) {
        0 | 1 => out.extend_from_slice(DICT[pick(u, DICT.len())]),
        2 => {
            let b = pickb(u, b"0aAV=/+.\\\"9-");
            let n = RUNS[pick(u, 15)].min(2000) + pick(u, 3);
            out.extend(std::iter::repeat(b).take(n));
        }
        3 => {
            // Base-N text around the 255-octet and 64 KiB boundaries is made
            // of runs; lengths chosen so that the decoded size straddles 255
            let n = [406, 408, 409, 410, 416, 508, 510, 512, 340, 344][pick(u, 10)];
            let b = pickb(u, b"0AVa");
            out.extend(std::iter::repeat(b).take(n));
        }
        4 => out.extend_from_slice([&b"0"[..], b"1", b"255", b"256", b"65535", b"65536", b"4294967295", b"4294967296", b"2147483648", b"00000000001"][pick(u, 10)]),
        5 => out.extend_from_slice(gn::show(&gn::name(u, false)).as_bytes()),
        6 => {
            for _ in 0..1 + pick(u, 6) {
                out.push(pickb(u, SPECIAL_BYTES));
            }
        }
        _ => out.extend_from_slice(&logical::base64(&[byte(u), byte(u), byte(u), byte(u)]).as_bytes()[..4 + pick(u, 5)]),
    }
    if quote && pick(u, 8) != 0 {
        out.push(b'"');
    }
    out
}

fn template(u: &mut Unstructured) -> Vec<u8> {
    let mut out = vec![];
    for _ in 0..1 + pick(u, 3) {
        let t = TEMPLATES[pick(u, TEMPLATES.len())];
        let mut parts = t.split("{}");
        out.extend_from_slice(parts.next().unwrap().as_bytes());
        for p in parts {
            out.extend(hole(u));
            out.extend_from_slice(p.as_bytes());
        }
    }
    out
}

fn run_total(data: &[u8], ctx: &mut Ctx) -> CaseResult {
    let mut u = Unstructured::new(data);
    let mut o = opts_from_byte(byte(&mut u));
    let src = pick(&mut u, 16);
    let nmut = match pick(&mut u, 8) {
        0 | 1 => 0,
        2..=4 => 1,
        5 | 6 => 2,
        _ => 3 + pick(&mut u, 4),
    };
    // the parameters of the mutations come first so that a long base file
    // does not starve them
    let mparams: Vec<Vec<u8>> = (0..nmut).map(|_| u.bytes(8.min(u.len())).map(|b| b.to_vec()).unwrap_or_default()).collect();
    let mut content: Vec<u8> = match src {
        0..=3 => {
            ctx.class("src:fixture");
            SEEDS[pick(&mut u, SEEDS.len())].to_vec()
        }
        4..=8 => {
            ctx.class("src:grammar");
            let lz = logical::gen_logical(&mut u, 6);
            if !chance(&mut u, 40) {
                // the context the file was written for
                o.origin = lz.origin.clone();
                o.default_class = lz.default_class;
            }
            logical::render(&lz, &mut u, true).text
        }
        9..=11 => {
            ctx.class("src:template");
            template(&mut u)
        }
        12..=14 => {
            ctx.class("src:soup");
            soup(&mut u)
        }
        _ => {
            ctx.class("src:raw");
            u.take_rest().to_vec()
        }
    };
    if src < 15 {
        for m in &mparams {
            mutate(&mut Unstructured::new(m), &mut content, ctx);
        }
        ctx.class(if nmut == 0 { "mutations:0" } else { "mutations:1+" });
    }
    total_core(&content, &o, ctx)
}

fn run_total_raw(data: &[u8], ctx: &mut Ctx) -> CaseResult {
    let (o, content) = match data.split_first() {
        Some((b, rest)) => (opts_from_byte(*b), rest),
        None => (opts_from_byte(0), data),
    };
    total_core(content, &o, ctx)
}

//------------ Layout ----------------------------------------------------------------

fn show_got(g: &Got) -> String {
    match g {
        Got::Rec { owner, rtype, class, ttl, rdata } => {
            format!("{} {ttl} CLASS{class} {} \\# {} {}", gn::show(owner), rr::mnemonic(*rtype), rdata.len(), logical::hex(rdata, false))
        }
        Got::Include { path, origin } => format!("$INCLUDE {:?} {:?}", String::from_utf8_lossy(path), origin.as_ref().map(gn::show)),
    }
}

fn expected(lz: &Logical) -> Vec<Got> {
    lz.items
        .iter()
        .map(|it| match it {
            LItem::Rec(r) => Got::Rec { owner: r.owner.clone(), rtype: r.rtype, class: lz.class, ttl: r.ttl, rdata: r.rdata.clone() },
            LItem::Include { path, origin } => Got::Include { path: path.clone(), origin: origin.clone() },
        })
        .collect()
}

fn compare(which: &str, want: &[Got], out: &ReadOut, text: &[u8], lz: &Logical) -> CaseResult {
    let shown = || format!("rendering {which}:\n{}\n-- as bytes: {:?}", String::from_utf8_lossy(text), String::from_utf8_lossy(text));
    if let Some(e) = &out.error {
        vfail!(format!("layout:valid-file-rejected:{}", err_kind(e)), "the reader rejects a well-formed file with {e:?} after {} of {} entries\n{}", out.entries.len(), want.len(), shown());
    }
    if out.tolerated_panic {
        return Ok(());
    }
    for (i, (w, g)) in want.iter().zip(out.entries.iter()).enumerate() {
        if w == g {
            continue;
        }
        let field = match (w, g) {
            (Got::Rec { owner: o1, rtype: t1, class: c1, ttl: l1, rdata: d1 }, Got::Rec { owner: o2, rtype: t2, class: c2, ttl: l2, rdata: d2 }) => {
                if t1 != t2 {
                    "type".to_string()
                } else if o1 != o2 {
                    "owner".into()
                } else if c1 != c2 {
                    "class".into()
                } else if l1 != l2 {
                    "ttl".into()
                } else {
                    let _ = (d1, d2);
                    format!("rdata:{}", rr::mnemonic(*t1))
                }
            }
            (Got::Include { path: p1, .. }, Got::Include { path: p2, .. }) => {
                if p1 != p2 {
                    "include-path".into()
                } else {
                    "include-origin".into()
                }
            }
            _ => "entry-kind".into(),
        };
        let _ = lz;
        vfail!(format!("layout:entry-differs:{field}"), "entry {i} of rendering {which}: logical {} but read {}\n{}", show_got(w), show_got(g), shown());
    }
    vensure!(want.len() == out.entries.len(), "layout:entry-count-differs", "{} logical entries, {} read\n{}", want.len(), out.entries.len(), shown());
    Ok(())
}

fn run_layout(data: &[u8], ctx: &mut Ctx) -> CaseResult {
    // 2/5 of the input decodes the logical file, the rest is split between
    // the two renderings (so that neither starves the other).
    let (dl, rest) = data.split_at(data.len() * 2 / 5);
    let mut u = Unstructured::new(dl);
    let feed_a = [Feed::From, Feed::Load, Feed::Extend, Feed::BufMut][pick(&mut u, 4)];
    let feed_b = [Feed::From, Feed::Load, Feed::Extend, Feed::BufMut][pick(&mut u, 4)];
    let piece = PIECES[pick(&mut u, 8)];
    // (not tied to the tier: a replay file must decode the same everywhere)
    let max_items = 8;
    let lz = logical::gen_logical(&mut u, max_items);
    let (ba, bb) = rest.split_at(rest.len() / 2);
    let a = logical::render(&lz, &mut Unstructured::new(ba), true);
    let b = logical::render(&lz, &mut Unstructured::new(bb), true);
    let plain = logical::render(&lz, &mut Unstructured::new(&[]), false);
    let want = expected(&lz);
    let nrec = lz.items.iter().filter(|i| matches!(i, LItem::Rec(_))).count();

    let differing: Vec<&str> = logical::DIMS.iter().enumerate().filter(|(i, _)| a.dims[*i] != b.dims[*i]).map(|(_, d)| *d).collect();
    for (i, d) in logical::DIMS.iter().enumerate() {
        if a.dims[i] > 0 || b.dims[i] > 0 {
            ctx.class(format!("dim:{d}"));
        }
    }
    for it in &lz.items {
        match it {
            LItem::Rec(r) => {
                ctx.class(format!("type:{}", rr::mnemonic(r.rtype)));
                if matches!(r.toks.first(), Some(logical::Tok::W(w)) if w == "\\#") {
                    ctx.class("generic-rdata");
                }
                if r.owner.iter().any(|l| l.len() == 63) {
                    ctx.class("label-63");
                }
            }
            LItem::Include { .. } => ctx.class("include"),
        }
    }
    ctx.class(match &lz.origin {
        None => "origin:none",
        Some(o) if o.is_empty() => "origin:root",
        _ => "origin:name",
    });
    if lz.default_class.is_some() {
        ctx.class("default-class");
    }
    if differing.len() >= 3 && nrec >= 2 && a.text != b.text {
        ctx.class("nontrivial");
        ctx.nontrivial(&(&lz, &a.text, &b.text));
    }
    ctx.sample(|| format!("differ in {differing:?}\n--- A\n{}\n--- B\n{}", String::from_utf8_lossy(&a.text), String::from_utf8_lossy(&b.text)));

    let mut anchored: Vec<Option<(bool, Option<Labels>, Option<u16>)>> = vec![];
    for (which, r, feed) in [("plain", &plain, Feed::From), ("A", &a, feed_a), ("B", &b, feed_b)] {
        let o = ReadOpts { origin: lz.origin.clone(), default_class: lz.default_class, allow_invalid: false, feed, piece };
        let out = read_all(&r.text, &o, ctx)?;
        compare(which, &want, &out, &r.text, &lz)?;
        // the anchored-file conversion of what was read: acceptance, apex
        // and class depend on the record sequence only
        let conv = guarded("parsed::Zonefile::try_from", || {
            let (zf, _) = make_reader(&r.text, &o);
            match domain::zonetree::parsed::Zonefile::try_from(zf) {
                Ok(z) => (true, z.origin().map(gn::from_name), z.class().map(|c| c.to_int())),
                Err(_) => (false, None, None),
            }
        });
        match conv {
            Ok(x) => anchored.push(Some(x)),
            Err(v) => {
                ctx.report(v)?;
                anchored.push(None);
            }
        }
    }
    if let [Some(p), Some(x), Some(y)] = &anchored[..] {
        vensure!(p == x && p == y, "layout:parsed-zonefile-differs", "parsed::Zonefile::try_from gives {p:?} for the plain layout, {x:?} for A and {y:?} for B\n--- A\n{}\n--- B\n{}", String::from_utf8_lossy(&a.text), String::from_utf8_lossy(&b.text));
        ctx.class(if p.0 { "layout-parsed:ok" } else { "layout-parsed:err" });
    }
    Ok(())
}

//------------ Registration ------------------------------------------------------------

fn health(classes: &BTreeMap<String, u64>, _thorough: bool) -> Result<(), String> {
    let need = [
        "end:eof", "end:error", "returned:record", "returned:5+records", "returned:include", "src:fixture", "src:grammar", "src:template", "src:soup", "src:raw",
        "feed:From", "feed:Load", "feed:Extend", "feed:BufMut", "feed:Interleaved", "parsed:ok", "parsed:err", "mutations:0", "mutations:1+",
        "nontrivial", "layout-parsed:ok", "layout-parsed:err", "hist:cname-rejected-cname", "hist:cut-rejected-cname", "anchored:accepted", "anchored:error-set", "direct:preset-apex", "direct:apex-from-soa", "verdict:IllegalRecord", "verdict:IllegalCname", "verdict:MultipleCnames", "verdict:IllegalZoneCut", "verdict:MissingSoa", "verdict:ClassMismatch", "include", "generic-rdata", "label-63", "origin:none", "origin:root", "origin:name", "default-class",
    ];
    let mut missing: Vec<String> = vec![];
    for n in need {
        if classes.get(n).copied().unwrap_or(0) == 0 {
            missing.push(n.to_string());
        }
    }
    if classes.keys().any(|k| k.starts_with("dim:")) {
        for d in logical::DIMS {
            if classes.get(&format!("dim:{d}")).copied().unwrap_or(0) < 20 {
                missing.push(format!("dim:{d}"));
            }
        }
        for t in logical::LAYOUT_TYPES {
            if classes.get(&format!("type:{}", rr::mnemonic(*t))).copied().unwrap_or(0) < 5 {
                missing.push(format!("type:{}", rr::mnemonic(*t)));
            }
        }
    }
    if missing.is_empty() {
        Ok(())
    } else {
        Err(format!("starved classes: {missing:?}"))
    }
}

pub fn prop() -> Option<Prop> {
    Some(Prop {
        id: "C07",
        rule: "total/total_raw: case = file octets + reader options (origin, default class, allow_invalid, feed mode); non-trivial = the reader returned at least one entry or failed after consuming input beyond the first token position; distinct by (octets, options). layout: case = logical zone file + two renderings; non-trivial = at least 2 records and the renderings differ in at least 3 layout dimensions; distinct by (logical file, both texts). anchored: case = 3-9 records over 7 owners; non-trivial = at least 4 records, at least one rejected and two accepted by the documented rules",
        assumptions: &[
            "the harness's own presentation writer (logical.rs) is the reference for what a layout rewrite is",
            "iteration stops at the first Err, as the API documents; nothing is demanded of a reader after an error",
            "a hang is decided by the engine's isolated watchdog, not by this module",
            "anchored: the reference for which inserts are rejected is a model of the rules parsed.rs documents (SOA first, one class, CNAME exclusivity/singleton, cuts only over glue, only glue at a cut)",
        ],
        subchecks: vec![
            SubCheck::new("total", run_total, 500_000, 10_000_000, 1500),
            SubCheck::new("total_raw", run_total_raw, 20_000, 400_000, 600),
            SubCheck::new("layout", run_layout, 120_000, 2_400_000, 3000),
            SubCheck::new("anchored", anchored::run, 100_000, 2_000_000, 120),
        ],
        health: Some(health),
        extra: None,
    })
}
