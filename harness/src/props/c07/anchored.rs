//! Sub-check `anchored`: the anchored-file layer `zonetree::parsed::Zonefile`
//! (`TryFrom<inplace::Zonefile>` and the public `insert`) on generated zone
//! files whose records collide at a few owners: CNAME next to other data,
//! records at zone cuts, repeated CNAMEs, a record after a rejected one.
//!
//! Oracle: no panic; the conversion returns the anchored file or the error
//! set; the errors are exactly those of a small model of the rules the
//! module documents (SOA first, one class, CNAME exclusivity and singleton,
//! a zone cut only where all existing data is glue, only glue next to a
//! cut); `insert` called directly with the records the reader returned gives
//! the same verdict record by record.
use crate::engine::*;
use crate::gen::*;
use crate::{vensure, vfail};
use arbitrary::Unstructured;
use bytes::Bytes;
use domain::base::iana::Class;
use domain::base::name::FlattenInto;
use domain::base::{Name, Record, ToName};
use domain::rdata::ZoneRecordData;
use domain::zonefile::inplace::{Entry, Zonefile};
use domain::zonetree::error::RecordError;
use domain::zonetree::parsed;
use std::collections::{BTreeMap, BTreeSet};
use std::str::FromStr;

type Stored = Record<Name<Bytes>, ZoneRecordData<Bytes, Name<Bytes>>>;

/// Owners: the apex, two ordinary names (one also in another case), a name
/// that tends to become a cut, names below it, and one outside the zone.
const OWNERS: &[&str] = &["example.com.", "www.example.com.", "sub.example.com.", "a.sub.example.com.", "WWW.example.com.", "mail.example.com.", "other.org."];

#[derive(Clone, Copy, Debug, PartialEq, Eq, Hash, PartialOrd, Ord)]
enum T {
    Soa,
    Cname,
    Ns,
    Ds,
    A,
    Aaaa,
    Txt,
    Mx,
    Dname,
}
/// weighted type pool
const TYPES: &[T] = &[T::Cname, T::A, T::Ns, T::Txt, T::Cname, T::Ds, T::Mx, T::A, T::Ns, T::Cname, T::Txt, T::Dname, T::Aaaa, T::Cname, T::Mx, T::Ds, T::Soa];

impl T {
    fn text(self, k: usize) -> String {
        match self {
            T::Soa => "SOA ns.example.com. host.example.com. 1 7200 3600 1209600 3600".into(),
            T::Cname => format!("CNAME t{k}.example.com."),
            T::Ns => format!("NS ns{k}.sub.example.com."),
            T::Ds => format!("DS {k} 8 2 00AA{k:02X}"),
            T::A => format!("A 192.0.2.{k}"),
            T::Aaaa => format!("AAAA 2001:db8::{k:x}"),
            T::Txt => format!("TXT \"t{k}\""),
            T::Mx => format!("MX {k} mail.example.com."),
            T::Dname => format!("DNAME d{k}.example.org."),
        }
    }
    fn glue(self) -> bool {
        matches!(self, T::A | T::Aaaa)
    }
}

#[derive(Clone, Debug, PartialEq, Eq, Hash)]
struct Rec {
    owner: usize,
    ty: T,
    chaos: bool,
    ttl: u32,
}

#[derive(Clone, Copy, Debug, PartialEq, Eq, PartialOrd, Ord)]
enum Verdict {
    Ok,
    MissingSoa,
    ClassMismatch,
    IllegalZoneCut,
    IllegalRecord,
    IllegalCname,
    MultipleCnames,
}

fn kind(e: &RecordError) -> Option<Verdict> {
    Some(match e {
        RecordError::ClassMismatch(..) => Verdict::ClassMismatch,
        RecordError::IllegalZoneCut(..) => Verdict::IllegalZoneCut,
        RecordError::IllegalRecord(..) => Verdict::IllegalRecord,
        RecordError::IllegalCname(..) => Verdict::IllegalCname,
        RecordError::MultipleCnames(..) => Verdict::MultipleCnames,
        RecordError::MissingSoa(..) => Verdict::MissingSoa,
        RecordError::MalformedRecord(..) | RecordError::InvalidRecord(..) => return None,
    })
}

/// The rules `parsed::Zonefile` documents, over lower-cased owner text.
#[derive(Default)]
struct Model {
    apex: Option<String>,
    chaos: bool,
    normal: BTreeMap<String, BTreeSet<T>>,
    cuts: BTreeSet<String>,
    cnames: BTreeSet<String>,
}

fn in_zone(owner: &str, apex: &str) -> bool {
    owner == apex || owner.ends_with(&format!(".{apex}"))
}

impl Model {
    fn insert(&mut self, r: &Rec) -> Verdict {
        let owner = OWNERS[r.owner].to_ascii_lowercase();
        if self.apex.is_none() {
            if r.ty != T::Soa {
                return Verdict::MissingSoa;
            }
            self.apex = Some(owner.clone());
            self.chaos = r.chaos;
        }
        let apex = self.apex.clone().unwrap();
        if r.chaos != self.chaos {
            return Verdict::ClassMismatch;
        }
        if !in_zone(&owner, &apex) {
            return Verdict::Ok;
        }
        match r.ty {
            T::Ns | T::Ds if owner != apex => {
                if self.normal.get(&owner).map(|s| s.iter().any(|t| !t.glue())).unwrap_or(false) || self.cnames.contains(&owner) {
                    Verdict::IllegalZoneCut
                } else {
                    self.cuts.insert(owner);
                    Verdict::Ok
                }
            }
            T::Cname => {
                if self.normal.contains_key(&owner) || self.cuts.contains(&owner) {
                    Verdict::IllegalCname
                } else if self.cnames.contains(&owner) {
                    Verdict::MultipleCnames
                } else {
                    self.cnames.insert(owner);
                    Verdict::Ok
                }
            }
            t => {
                if (!t.glue() && self.cuts.contains(&owner)) || self.cnames.contains(&owner) {
                    Verdict::IllegalRecord
                } else {
                    self.normal.entry(owner).or_default().insert(t);
                    Verdict::Ok
                }
            }
        }
    }
}

pub fn run(data: &[u8], ctx: &mut Ctx) -> CaseResult {
    let mut u = Unstructured::new(data);
    let with_soa = pick(&mut u, 10) != 9;
    let preset = pick(&mut u, 4) == 3; // direct path: Zonefile::new(apex, class)
    let n = 3 + pick(&mut u, 6);
    let mut recs: Vec<Rec> = vec![];
    if with_soa {
        recs.push(Rec { owner: 0, ty: T::Soa, chaos: false, ttl: 3600 });
    }
    let mut last = 1 + pick(&mut u, 3);
    for k in 0..n {
        let owner = match pick(&mut u, 10) {
            0..=5 => last,
            6 => 0,
            _ => pick(&mut u, OWNERS.len()),
        };
        // "www" and "WWW" are one owner
        last = owner;
        let ty = TYPES[pick(&mut u, TYPES.len())];
        let chaos = pick(&mut u, 24) == 23;
        let ttl = [3600u32, 300][pick(&mut u, 2)];
        let _ = k;
        recs.push(Rec { owner, ty, chaos, ttl });
    }

    // the zone file text (plain layout; the layout half covers the rest)
    let mut text = String::new();
    for (k, r) in recs.iter().enumerate() {
        text.push_str(&format!("{} {} {} {}\n", OWNERS[r.owner], r.ttl, if r.chaos { "CH" } else { "IN" }, r.ty.text(k + 1)));
    }
    let mixed = recs.iter().any(|r| r.chaos);

    // model verdicts
    let mut model = Model::default();
    let want: Vec<Verdict> = recs.iter().map(|r| model.insert(r)).collect();
    let mut want_errs: Vec<(String, Verdict)> =
        recs.iter().zip(&want).filter(|(_, v)| **v != Verdict::Ok).map(|(r, v)| (OWNERS[r.owner].trim_end_matches('.').to_ascii_lowercase(), *v)).collect();
    want_errs.sort();

    // history classes: what happened earlier at the owner of a CNAME
    {
        let mut hist: BTreeMap<String, Vec<(T, Verdict)>> = BTreeMap::new();
        for (r, v) in recs.iter().zip(&want) {
            let o = OWNERS[r.owner].to_ascii_lowercase();
            let h = hist.entry(o).or_default();
            if r.ty == T::Cname && h.iter().any(|(_, v)| *v == Verdict::IllegalRecord) {
                let first_cname = h.iter().position(|(t, v)| *t == T::Cname && *v == Verdict::Ok);
                let first_cut = h.iter().position(|(t, v)| matches!(t, T::Ns | T::Ds) && *v == Verdict::Ok);
                let rejected = h.iter().position(|(_, v)| *v == Verdict::IllegalRecord).unwrap();
                if first_cname.map(|i| i < rejected).unwrap_or(false) {
                    ctx.class("hist:cname-rejected-cname");
                }
                if first_cut.map(|i| i < rejected).unwrap_or(false) {
                    ctx.class("hist:cut-rejected-cname");
                }
            }
            h.push((r.ty, *v));
        }
    }
    for v in &want {
        ctx.class(format!("verdict:{v:?}"));
    }
    ctx.class(if want_errs.is_empty() { "anchored:accepted" } else { "anchored:error-set" });
    ctx.sample(|| format!("preset={preset}\n{text}model: {want:?}"));
    if recs.len() >= 4 && want.iter().any(|v| *v != Verdict::Ok) && want.iter().filter(|v| **v == Verdict::Ok).count() >= 2 {
        ctx.nontrivial(&(&recs, preset));
    }

    let reader = |text: &str| {
        let mut z = Zonefile::from(text);
        if mixed {
            // let the anchored layer, not the reader, judge the class
            z = z.allow_invalid();
        }
        z
    };

    // path 1: TryFrom<inplace::Zonefile>
    let conv = guarded("parsed::Zonefile::try_from", || {
        parsed::Zonefile::try_from(reader(&text)).map(|z| (z.origin().map(|n| n.to_string().to_ascii_lowercase()), z.class())).map_err(|errs| {
            let mut v: Vec<(String, Option<Verdict>)> = errs.into_iter().map(|(name, e)| (name.to_string().trim_end_matches('.').to_ascii_lowercase(), kind(&e))).collect();
            v.sort();
            v
        })
    });
    match conv {
        Err(v) => ctx.report(v)?,
        Ok(Ok((origin, class))) => {
            vensure!(want_errs.is_empty(), "anchored:try_from-accepts-what-the-rules-reject", "try_from is Ok; the documented rules reject {want_errs:?}\n{text}");
            if with_soa {
                vensure!(origin.as_deref().map(|s| s.trim_end_matches('.')) == Some("example.com") && class == Some(Class::IN), "anchored:apex-or-class-wrong", "origin {origin:?} class {class:?}\n{text}");
            }
        }
        Ok(Err(got)) => {
            vensure!(got.iter().all(|(_, k)| k.is_some()), "anchored:well-formed-file-reported-malformed", "errors {got:?}\n{text}");
            let got: Vec<(String, Verdict)> = got.into_iter().map(|(n, k)| (n, k.unwrap())).collect();
            if got != want_errs {
                let sig = if want_errs.is_empty() { "anchored:try_from-rejects-what-the-rules-accept" } else { "anchored:error-set-differs" };
                vfail!(sig, "try_from reports {got:?}, the documented rules give {want_errs:?}\n{text}");
            }
        }
    }

    // path 2: the records the reader returns, inserted one by one
    let mut stored: Vec<Stored> = vec![];
    let mut z = reader(&text);
    loop {
        match guarded("next_entry", || z.next_entry())? {
            Ok(Some(Entry::Record(r))) => stored.push(r.flatten_into()),
            Ok(Some(_)) => {}
            Ok(None) => break,
            Err(e) => vfail!("anchored:generated-file-rejected", "reader error {e} on\n{text}"),
        }
    }
    vensure!(stored.len() == recs.len(), "anchored:generated-file-entry-count", "{} records written, {} read", recs.len(), stored.len());
    let direct = guarded("parsed::Zonefile::insert", || {
        let mut pz = if preset { parsed::Zonefile::new(Name::from_str("example.com.").unwrap(), Class::IN) } else { parsed::Zonefile::default() };
        let res: Vec<Option<Verdict>> = stored
            .into_iter()
            .map(|r| match pz.insert(r) {
                Ok(()) => Some(Verdict::Ok),
                Err(e) => kind(&e),
            })
            .collect();
        let _ = (pz.origin().map(|n| n.to_name::<Vec<u8>>()), pz.class());
        res
    });
    match direct {
        Err(v) => ctx.report(v)?,
        Ok(got) => {
            // with a preset apex and class there is no SOA requirement
            let mut m = Model::default();
            if preset {
                m.apex = Some("example.com.".into());
            }
            let want: Vec<Option<Verdict>> = recs.iter().map(|r| Some(m.insert(r))).collect();
            if got != want {
                let i = got.iter().zip(&want).position(|(a, b)| a != b).unwrap_or(0);
                vfail!(format!("anchored:insert-verdict-differs:{:?}", want[i].unwrap()), "record {i}: insert gives {:?}, the documented rules give {:?} (preset={preset})\n{text}", got[i], want[i]);
            }
            ctx.class(if preset { "direct:preset-apex" } else { "direct:apex-from-soa" });
        }
    }
    Ok(())
}
