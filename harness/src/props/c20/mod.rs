//! C20 — the client cache serves only what upstream said, aged, never stale.
//!
//! Histories of queries and clock advances are run against
//! `net::client::cache::Connection` sitting on a mock upstream (module
//! `upstream`) under tokio's paused clock. Oracle = history invariant: every
//! response the cache returns must be explained by one logged upstream
//! response for the same question and compatible flags, aged correctly and
//! inside every bound (function `explain`).
mod case;
mod upstream;

use crate::engine::*;
use crate::refimpl::rdata as rr;
use crate::refimpl::wire;
use crate::vfail;
use case::*;
use domain::base::Message;
use domain::net::client::cache;
use domain::net::client::request::{ComposeRequest, RequestMessage, SendRequest};
use std::collections::BTreeMap;
use std::time::Duration;
use tokio::time::Instant;
use upstream::*;

pub fn prop() -> Option<Prop> {
    Some(Prop {
        id: "C20",
        rule: "the history contains at least one response served from the cache (no upstream call) and either virtual time passed between the fill and that hit or the hitting query's RD/AD/DO flags differ from those of the filling query",
        assumptions: &[
            "time is tokio's paused clock (cache.rs reads only tokio::time::Instant); moka's capacity eviction is exercised only in sub-check `evict`, where just the safety invariant is checked",
            "upstream is well-behaved unless the case is in class `sloppy-upstream`: it echoes the question, sends RRSIG/NSEC/NSEC3/DS-in-referral only to DO queries and AD only to AD/DO queries, TTLs < 2^31, RDATA valid for its type (also for the records it sends with a CLASS other than the question's); it echoes the whole question section and the opcode",
            "\"the same question\" = opcode plus every entry of the question section (names case-insensitively); requests have at least one question (RequestMessage::new rejects a QUERY without one)",
            "queries are issued one after the other (no two get_response calls in flight)",
        ],
        subchecks: vec![
            SubCheck::new("history", run_history, 40_000, 800_000, 420),
            SubCheck::new("long", run_history, 5_000, 100_000, 1400),
            SubCheck::new("evict", run_evict, 4_000, 60_000, 300),
        ],
        health: Some(health),
        extra: None,
    })
}

fn health(c: &BTreeMap<String, u64>, _thorough: bool) -> Result<(), String> {
    let need = [
        "hit",
        "hit:after-advance",
        "edge:rd-down",
        "edge:do-down",
        "edge:ad-down",
        "hit:dnssec-stripped",
        "hit:ad-cleared",
        "hit:negative-nxdomain",
        "hit:negative-nodata",
        "hit:rcode-error",
        "hit:transport-error",
        "hit:referral",
        "hit:cname",
        "hit:case-variant",
        "miss:expired-refetch",
        "miss:fresh-after-change",
        "miss:cd-partition",
        "hit:bare-ds-stripped:referral",
        "hit:bare-ds-stripped:answer",
        "hit:bare-ds-stripped:negative",
        "hit:ext-rcode",
        "hit:ext-rcode:low-nibble-0-with-answer",
        "hit:ext-rcode:low-nibble-3",
        "hit:ext-rcode:low-nibble-other",
        "miss:ext-rcode-refetched-after-misc-bound",
        "hit:foreign-class:aged",
        "hit:foreign-class:answer",
        "hit:foreign-class:authority",
        "hit:foreign-class:additional",
        "shape:multi-question-while-first-question-live",
        "shape:plain-query-after-live-multi-question-fetch",
        "shape:non-query-opcode-while-question-live",
        "shape:plain-query-after-live-non-query-fetch",
        "cfg:extreme",
        "cfg:default-ctor",
    ];
    for n in need {
        if c.get(n).copied().unwrap_or(0) == 0 {
            return Err(format!("class `{n}` was never produced (hits={})", c.get("hit").copied().unwrap_or(0)));
        }
    }
    Ok(())
}

//------------ independent view of a message ---------------------------------

#[derive(Clone, Debug, PartialEq, Eq, PartialOrd, Ord)]
struct PRec {
    sec: u8,
    owner: Vec<u8>,
    rtype: u16,
    class: u16,
    rdata: Vec<u8>,
    ttl: u32,
}

#[derive(Clone, Debug)]
struct PMsg {
    flags: u16,
    rcode: u16,
    qname: Vec<u8>,
    qtype: u16,
    qclass: u16,
    /// opcode + whole question section, names in lower case
    qkey: Vec<u8>,
    n_questions: usize,
    recs: Vec<PRec>,
}

impl PMsg {
    fn opcode(&self) -> u8 {
        ((self.flags >> 11) & 0xf) as u8
    }
    fn ad(&self) -> bool {
        self.flags & 0x20 != 0
    }
    fn tc(&self) -> bool {
        self.flags & 0x200 != 0
    }
}

fn lower_wire(n: &[Vec<u8>]) -> Vec<u8> {
    let mut o = vec![];
    for l in n {
        o.push(l.len() as u8);
        o.extend(l.iter().map(|b| b.to_ascii_lowercase()));
    }
    o.push(0);
    o
}

fn parse(bytes: &[u8]) -> Result<PMsg, String> {
    let w = wire::walk(bytes).ok_or("shorter than a header")?;
    if let Some(e) = &w.error {
        return Err(format!("walk error {e:?}"));
    }
    if w.end != bytes.len() {
        return Err("trailing octets".into());
    }
    if w.questions.is_empty() {
        return Err("no question".into());
    }
    let q = &w.questions[0];
    let mut rcode = w.header.rcode() as u16;
    let mut recs = vec![];
    for r in &w.records {
        if r.rtype == T_OPT && r.section == 3 {
            rcode |= ((r.ttl >> 24) as u16) << 4;
            continue;
        }
        let owner = r.owner.clone().map_err(|e| format!("owner {e:?}"))?;
        let (rdata, _) = wire::rdata_normal(bytes, r).map_err(|e| format!("rdata of type {} {e:?}", r.rtype))?;
        // names inside RDATA: compare case-insensitively (compression may
        // redirect a name to an occurrence with other case)
        let rdata = match rr::normal_rdata(r.rtype, bytes, r.rd_start, r.rd_end, true) {
            Ok((x, _)) => x,
            Err(_) => rdata,
        };
        recs.push(PRec { sec: r.section, owner: lower_wire(&owner), rtype: r.rtype, class: r.class, rdata, ttl: r.ttl });
    }
    let qkey = upstream::qkey(w.header.opcode(), w.questions.iter().map(|q| (q.name.as_slice(), q.qtype, q.qclass)));
    Ok(PMsg { flags: w.header.flags, rcode, qname: lower_wire(&q.name), qtype: q.qtype, qclass: q.qclass, qkey, n_questions: w.questions.len(), recs })
}

fn is_dnssec_extra(r: &PRec) -> bool {
    // record types a DO-clear query does not ask for (unless it is the
    // query type): signatures and denial records anywhere, DS outside the
    // answer section (it is there only as part of a signed referral)
    r.rtype == T_RRSIG || r.rtype == T_NSEC || r.rtype == T_NSEC3 || (r.rtype == T_DS && r.sec != 1)
}

//------------ the oracle -------------------------------------------------------

#[derive(Clone, Copy, Debug, PartialEq, Eq)]
enum Bound {
    Answer,
    NoData,
    NxDomain,
    Delegation,
    Misc,
    Transport,
}

/// RFC 2308 §2 classification, from the upstream message alone.
fn bound_kind(u: &PMsg) -> Bound {
    bound_kind_c(u, false)
}

/// `same_class`: only records of the question's class count as answer / SOA /
/// NS. Whether a record of another class makes a response "an answer" or "a
/// NODATA" is not settled by the statement, so a retention bound is enforced
/// only as far as both readings agree (`retention_limit`).
fn bound_kind_c(u: &PMsg, same_class: bool) -> Bound {
    let cls = |r: &PRec| !same_class || r.class == u.qclass;
    match u.rcode {
        0 => {
            if u.recs.iter().any(|r| r.sec == 1 && (r.rtype == u.qtype || u.qtype == 255) && cls(r)) {
                Bound::Answer
            } else if u.recs.iter().any(|r| r.sec == 2 && r.rtype == 6 && cls(r)) {
                Bound::NoData
            } else if u.recs.iter().any(|r| r.sec == 2 && r.rtype == 2 && cls(r)) {
                Bound::Delegation
            } else {
                Bound::NoData
            }
        }
        3 => Bound::NxDomain,
        _ => Bound::Misc,
    }
}

fn limit_of(b: Bound, eff: &Eff) -> (u64, &'static str) {
    match b {
        Bound::NxDomain => (eff.nx_ms, "nxdomain"),
        Bound::NoData => (eff.nodata_ms, "nodata"),
        Bound::Misc => (eff.misc_ms, "misc-error"),
        Bound::Delegation => (eff.deleg_ms, "delegation"),
        _ => (u64::MAX, ""),
    }
}

/// The configured retention bound for `u` (the more generous one when the
/// class-blind and the class-aware classification differ; they only differ
/// for responses with records of a foreign class).
fn retention_limit(u: &PMsg, eff: &Eff) -> (u64, &'static str) {
    let a = limit_of(bound_kind_c(u, false), eff);
    let b = limit_of(bound_kind_c(u, true), eff);
    if b.0 > a.0 {
        b
    } else {
        a
    }
}

#[derive(Debug, Default, Clone)]
struct Info {
    rd_down: bool,
    do_down: bool,
    ad_down: bool,
    stripped: bool,
    stripped_bare_ds: bool,
    ad_cleared: bool,
    exact_expiry: bool,
    bound: Option<Bound>,
    cname: bool,
    tc: bool,
    /// full rcode of the source when it is an extended one (>= 16)
    ext_rcode: Option<(u16, bool)>,
    /// sections (bit 1 << sec) in which a record of a class other than the
    /// question's was served
    foreign_secs: u8,
    src: usize,
    elapsed_ms: u64,
}

struct Fail {
    rank: u8,
    sig: String,
    detail: String,
}

fn fail(rank: u8, sig: impl Into<String>, detail: String) -> Result<Info, Fail> {
    Err(Fail { rank, sig: sig.into(), detail })
}

struct Entry {
    log: LogEntry,
    parsed: Option<PMsg>,
}

/// Can `r`, returned to `q` at `now_ms`, be explained by upstream response
/// `e`? `hit` = no upstream call was made for this query.
#[allow(clippy::too_many_arguments)]
fn explain(
    q: &Query,
    r: &Result<PMsg, String>,
    e: &Entry,
    idx: usize,
    now_ms: u64,
    eff: &Eff,
    sloppy: bool,
    hit: bool,
) -> Result<Info, Fail> {
    let p = if hit { "hit" } else { "miss" };
    let u = &e.log.req;
    // same question (the caller filtered on it already)
    // flag compatibility, from the module comment of cache.rs
    let flag_fail = if u.cd != q.cd {
        Some((format!("{p}:crosses-cd-partition"), format!("source U{idx} was fetched with cd={} but the query has cd={}", u.cd, q.cd)))
    } else if q.rd && !u.rd {
        Some((format!("{p}:rd-query-served-from-rd-clear-response"), format!("source U{idx} was fetched with RD clear")))
    } else if q.dok && !u.dok {
        Some((format!("{p}:do-query-served-from-do-clear-response"), format!("source U{idx} was fetched with DO clear")))
    } else if q.adeff() && !u.adeff() {
        Some((format!("{p}:ad-query-served-from-plain-response"), format!("source U{idx} was fetched with AD and DO clear")))
    } else {
        None
    };
    if let Some((sig, detail)) = flag_fail {
        // If the content identifies this response as the source (its
        // records carry the serial number of the fetch), the flag
        // incompatibility is the best description of what went wrong.
        let content = explain_content(q, r, e, idx, now_ms, eff, true, hit);
        let has_records = matches!(r, Ok(m) if !m.recs.is_empty());
        let rank = match content {
            Ok(_) if has_records => 9,
            Err(f) if f.rank >= 5 && has_records => 9,
            _ => 1,
        };
        return fail(rank, sig, detail);
    }
    explain_content(q, r, e, idx, now_ms, eff, sloppy, hit)
}

#[allow(clippy::too_many_arguments)]
fn explain_content(
    q: &Query,
    r: &Result<PMsg, String>,
    e: &Entry,
    idx: usize,
    now_ms: u64,
    eff: &Eff,
    sloppy: bool,
    hit: bool,
) -> Result<Info, Fail> {
    let p = if hit { "hit" } else { "miss" };
    let u = &e.log.req;
    let mut info = Info { src: idx, ..Default::default() };
    info.rd_down = u.rd && !q.rd;
    info.do_down = u.dok && !q.dok;
    info.ad_down = u.adeff() && !q.adeff();
    let elapsed = now_ms.saturating_sub(e.log.t_ms);
    info.elapsed_ms = elapsed;
    // failure vs message
    let (rm, um) = match (r, &e.log.resp) {
        (Err(re), Err(ue)) => {
            if re != ue {
                return fail(2, format!("{p}:different-error"), format!("returned {re}, U{idx} failed with {ue}"));
            }
            if elapsed > eff.transport_ms {
                return fail(
                    5,
                    format!("{p}:transport-failure-retained-too-long"),
                    format!("failure U{idx} {ue} served {elapsed} ms after it happened; transport_failure_duration = {} ms", eff.transport_ms),
                );
            }
            if elapsed > eff.max_validity_ms {
                return fail(5, format!("{p}:served-after-max-validity"), format!("{elapsed} ms > {}", eff.max_validity_ms));
            }
            info.bound = Some(Bound::Transport);
            return Ok(info);
        }
        (Err(re), Ok(_)) => return fail(2, format!("{p}:error-for-message"), format!("returned error {re}, U{idx} was a message")),
        (Ok(_), Err(ue)) => return fail(2, format!("{p}:message-for-error"), format!("returned a message, U{idx} was the failure {ue}")),
        (Ok(rm), Ok(_)) => (rm, e.parsed.as_ref().expect("parsed upstream message")),
    };
    // header
    if rm.rcode != um.rcode {
        return fail(3, format!("{p}:rcode-differs"), format!("returned rcode {} but U{idx} had {}", rm.rcode, um.rcode));
    }
    if rm.flags & 0x8000 == 0 || rm.opcode() != q.opcode {
        // QR set and the opcode of the request (RFC 1035 §4.1.1: copied into
        // the response)
        return fail(3, format!("{p}:not-a-query-response"), format!("flags {:#06x}, request opcode {}", rm.flags, q.opcode));
    }
    if rm.tc() != um.tc() {
        return fail(3, format!("{p}:tc-differs"), format!("returned tc={} U{idx} tc={}", rm.tc(), um.tc()));
    }
    info.tc = um.tc();
    if um.rcode >= 16 {
        info.ext_rcode = Some((um.rcode, um.recs.iter().any(|x| x.sec == 1 && x.rtype == um.qtype)));
    }
    // records: everything that is not a DNSSEC extra must be there exactly;
    // DNSSEC extras must be a sub-multiset, and complete for a DO query
    let mut rsorted: Vec<&PRec> = rm.recs.iter().collect();
    let mut usorted: Vec<&PRec> = um.recs.iter().collect();
    rsorted.sort();
    usorted.sort();
    let key = |a: &PRec| (a.sec, a.owner.clone(), a.rtype, a.class, a.rdata.clone());
    let mut pairs: Vec<(&PRec, &PRec)> = vec![];
    let mut ui = 0usize;
    let mut dropped: Vec<&PRec> = vec![];
    for rrec in &rsorted {
        loop {
            let Some(urec) = usorted.get(ui) else {
                return fail(4, format!("{p}:records-differ"), format!("returned record {} is not in U{idx}\nreturned: {}\nupstream: {}", show_rec(rrec), show_recs(&rm.recs), show_recs(&um.recs)));
            };
            ui += 1;
            if key(urec) == key(rrec) {
                pairs.push((rrec, urec));
                break;
            }
            dropped.push(urec);
        }
    }
    dropped.extend(usorted[ui..].iter());
    for d in &dropped {
        // (an ANY query without DO may or may not get them: RFC 4035 §3
        // lets a server treat them as any other RRset, the cache strips them)
        let asked = d.rtype == q.qtype && d.sec == 1;
        if !is_dnssec_extra(d) || q.dok || asked {
            return fail(4, format!("{p}:records-differ"), format!("U{idx}'s record {} is missing\nreturned: {}\nupstream: {}", show_rec(d), show_recs(&rm.recs), show_recs(&um.recs)));
        }
    }
    info.stripped = !dropped.is_empty();
    // the only DNSSEC-ish records of U were DS outside the answer section
    info.stripped_bare_ds = !dropped.is_empty()
        && dropped.iter().all(|d| d.rtype == T_DS)
        && !um.recs.iter().any(|x| x.rtype == T_RRSIG || x.rtype == T_NSEC || x.rtype == T_NSEC3);
    info.cname = um.recs.iter().any(|x| x.sec == 1 && x.rtype == 5);
    // AD: never added; kept for a query that asked
    if rm.ad() && !um.ad() {
        return fail(5, format!("{p}:ad-set-but-upstream-had-it-clear"), format!("U{idx} had AD clear"));
    }
    if q.adeff() && rm.ad() != um.ad() {
        return fail(5, format!("{p}:ad-lost-for-ad-query"), format!("U{idx} had AD set, the query asked for it (ad={} do={})", q.ad, q.dok));
    }
    info.ad_cleared = um.ad() && !rm.ad();
    // exposure (the statement's last clause). Not checkable against a sloppy
    // upstream that itself exposes them.
    if !sloppy {
        if !q.adeff() && rm.ad() {
            return fail(5, format!("{p}:ad-exposed-to-plain-query"), format!("query had AD and DO clear; source U{idx} fetched with [{}]", u.flags_str()));
        }
        if !q.dok {
            for x in &rm.recs {
                let asked = (x.rtype == q.qtype || q.qtype == 255) && x.sec == 1;
                if is_dnssec_extra(x) && !asked {
                    return fail(
                        5,
                        format!("{p}:dnssec-exposed-to-do-clear-query:{}", rr::mnemonic(x.rtype)),
                        format!("record {} returned to a query without DO; source U{idx} fetched with [{}]", show_rec(x), u.flags_str()),
                    );
                }
            }
        }
    }
    // TTLs: reduced by the time in the cache (1 s tolerance), never increased
    let mut min_ttl: Option<u32> = None;
    for (a, b) in &pairs {
        if a.class != rm.qclass {
            info.foreign_secs |= 1 << a.sec;
        }
        if a.ttl > b.ttl {
            return fail(6, format!("{p}:ttl-increased"), format!("{} has TTL {} but upstream said {} ({} ms earlier)", show_rec(a), a.ttl, b.ttl, elapsed));
        }
        let want_ms = (b.ttl as i128) * 1000 - elapsed as i128;
        let got_ms = (a.ttl as i128) * 1000;
        if (got_ms - want_ms).abs() > 1000 {
            return fail(
                6,
                format!("{p}:ttl-not-reduced-by-time-in-cache"),
                format!("{} has TTL {}, upstream said {} and {} ms have passed", show_rec(a), a.ttl, b.ttl, elapsed),
            );
        }
        min_ttl = Some(min_ttl.map_or(b.ttl, |m| m.min(b.ttl)));
    }
    if hit {
        // nothing is served once the smallest TTL / a configured bound has
        // elapsed. Boundary: at exactly elapsed == bound the entry may still
        // be served (closed interval), except that TTL 0 is never cacheable.
        if let Some(m) = min_ttl {
            if m == 0 {
                return fail(7, "hit:zero-ttl-response-served-from-cache", format!("U{idx} has a record with TTL 0 and was served from the cache"));
            }
            if elapsed > m as u64 * 1000 {
                return fail(7, "hit:served-after-smallest-ttl", format!("smallest TTL of the served records was {m} s, served {elapsed} ms after the fetch"));
            }
            info.exact_expiry = elapsed == m as u64 * 1000;
        }
        if elapsed > eff.max_validity_ms {
            return fail(7, "hit:served-after-max-validity", format!("served {elapsed} ms after the fetch, max_validity = {} ms", eff.max_validity_ms));
        }
        let b = bound_kind(um);
        let (lim, what) = retention_limit(um, eff);
        if elapsed > lim {
            return fail(7, format!("hit:{what}-retained-too-long"), format!("{what} response U{idx} served {elapsed} ms after the fetch; configured bound {lim} ms"));
        }
        if um.tc() && !eff.trunc {
            return fail(7, "hit:truncated-response-cached-while-disabled", format!("U{idx} had TC set and cache_truncated is off"));
        }
        info.bound = Some(b);
    }
    Ok(info)
}

/// How long the oracle would allow `e` to be served (evidence only).
fn validity_ms(e: &Entry, eff: &Eff) -> u64 {
    match &e.parsed {
        None => eff.transport_ms.min(eff.max_validity_ms),
        Some(p) => {
            let mut v = eff.max_validity_ms;
            for r in &p.recs {
                v = v.min(r.ttl as u64 * 1000);
            }
            v.min(retention_limit(p, eff).0)
        }
    }
}

fn show_rec(r: &PRec) -> String {
    format!("[s{} {} {} ttl={} {}]", r.sec, show_name(&r.owner), rr::mnemonic(r.rtype), r.ttl, hex(&r.rdata))
}
fn show_recs(r: &[PRec]) -> String {
    r.iter().map(show_rec).collect::<Vec<_>>().join(" ")
}
fn show_name(w: &[u8]) -> String {
    let mut s = String::new();
    let mut i = 0;
    while i < w.len() && w[i] != 0 {
        let n = w[i] as usize;
        s.push_str(&String::from_utf8_lossy(&w[i + 1..(i + 1 + n).min(w.len())]));
        s.push('.');
        i += 1 + n;
    }
    if s.is_empty() {
        s.push('.');
    }
    s
}
fn hex(b: &[u8]) -> String {
    let mut s = String::new();
    for x in b.iter().take(24) {
        s.push_str(&format!("{x:02x}"));
    }
    if b.len() > 24 {
        s.push('…');
    }
    s
}

//------------ running a history ---------------------------------------------------

fn run_history(data: &[u8], ctx: &mut Ctx) -> CaseResult {
    run_mode(data, ctx, false)
}
fn run_evict(data: &[u8], ctx: &mut Ctx) -> CaseResult {
    run_mode(data, ctx, true)
}

fn build_config(c: &Cfg) -> cache::Config {
    let mut cfg = cache::Config::new();
    let ms = Duration::from_millis;
    if let Some(v) = c.entries {
        cfg.set_max_cache_entries(v);
    }
    if let Some(v) = c.max_validity {
        cfg.set_max_validity(ms(v));
    }
    if let Some(v) = c.transport {
        cfg.set_transport_failure_duration(ms(v));
    }
    if let Some(v) = c.misc {
        cfg.set_misc_error_duration(ms(v));
    }
    if let Some(v) = c.nx {
        cfg.set_max_nxdomain_validity(ms(v));
    }
    if let Some(v) = c.nodata {
        cfg.set_max_nodata_validity(ms(v));
    }
    if let Some(v) = c.deleg {
        cfg.set_max_delegation_validity(ms(v));
    }
    if let Some(v) = c.trunc {
        cfg.set_cache_truncated(v);
    }
    cfg
}

fn build_request(q: &Query, id: u16) -> Result<RequestMessage<Vec<u8>>, String> {
    let flags: u16 = (q.opcode as u16) << 11 | (q.rd as u16) << 8 | (q.ad as u16) << 5 | (q.cd as u16) << 4;
    let mut a = wire::Asm::new(id, flags);
    a.question(&q.labels_sent(), q.qtype, q.qclass);
    for (n, t) in q.extra_questions() {
        a.question(&q.labels_sent_of(n), t, q.qclass);
    }
    let msg = Message::from_octets(a.buf).map_err(|e| format!("{e:?}"))?;
    let mut req = RequestMessage::new(msg).map_err(|e| format!("{e:?}"))?;
    if q.dok {
        req.set_dnssec_ok(true);
    } else if q.opt {
        req.set_udp_payload_size(1232);
    }
    Ok(req)
}

#[derive(Default)]
struct Stats {
    classes: Vec<&'static str>,
    hits: u32,
    misses: u32,
    nontrivial: bool,
}

fn run_mode(data: &[u8], ctx: &mut Ctx, evict: bool) -> CaseResult {
    let case = decode(data, evict);
    let eff = case.cfg.eff();
    let mut trace: Vec<String> = vec![];
    let mut stats = Stats::default();
    let res = block_on_paused(run_async(&case, &eff, &mut trace, &mut stats));
    if evict {
        // eviction timing is moka's business and not deterministic across
        // processes: report nothing that depends on hit or miss
        ctx.class("evict-mode");
    } else {
        for c in &stats.classes {
            ctx.class(*c);
        }
        if case.sloppy {
            ctx.class("sloppy-upstream");
        }
        if case.cfg.default_ctor {
            ctx.class("cfg:default-ctor");
        } else if case.cfg.is_extreme() {
            ctx.class("cfg:extreme");
        }
        ctx.class(match stats.hits {
            0 => "hit-rate:0",
            1..=3 => "hit-rate:1-3",
            _ => "hit-rate:4+",
        });
        if stats.nontrivial {
            ctx.nontrivial(&case);
        }
    }
    ctx.sample(|| format!("cfg {:?} | {}", eff, trace.join(" ; ")));
    match res {
        Ok(()) => Ok(()),
        Err(mut v) => {
            v.detail = format!(
                "{}\nconfig: {:?} (raw {:?})\nsloppy upstream: {}\nhistory:\n  {}",
                v.detail,
                eff,
                case.cfg,
                case.sloppy,
                trace.join("\n  ")
            );
            Err(v)
        }
    }
}

async fn run_async(case: &Case, eff: &Eff, trace: &mut Vec<String>, stats: &mut Stats) -> CaseResult {
    let mock = Mock::new(case.templates.clone(), case.sloppy);
    let start = mock.st.lock().unwrap().start;
    let conn = if case.cfg.default_ctor { cache::Connection::new(mock.clone()) } else { cache::Connection::with_config(mock.clone(), build_config(&case.cfg)) };
    let now_ms = || (Instant::now() - start).as_millis() as u64;
    let mut entries: Vec<Entry> = vec![];
    let cls = |s: &'static str, stats: &mut Stats| {
        if !stats.classes.contains(&s) {
            stats.classes.push(s);
        }
    };
    for (si, step) in case.steps.iter().enumerate() {
        match step {
            Step::Advance(a) => {
                let dt = match a {
                    Adv::Fixed(ms) => *ms,
                    Adv::Rel { back, sel, off_ms } => {
                        // aim at a boundary of an earlier upstream response
                        if entries.is_empty() {
                            1000
                        } else {
                            let e = &entries[entries.len() - 1 - (*back as usize).min(entries.len() - 1)];
                            let mut bounds: Vec<u64> = vec![];
                            if let Some(p) = &e.parsed {
                                for r in &p.recs {
                                    bounds.push(r.ttl as u64 * 1000);
                                }
                                bounds.push(match bound_kind(p) {
                                    Bound::NxDomain => eff.nx_ms,
                                    Bound::NoData => eff.nodata_ms,
                                    Bound::Misc => eff.misc_ms,
                                    Bound::Delegation => eff.deleg_ms,
                                    _ => eff.max_validity_ms,
                                });
                            } else {
                                bounds.push(eff.transport_ms);
                            }
                            bounds.push(eff.max_validity_ms);
                            bounds.sort();
                            bounds.dedup();
                            let b = bounds[*sel as usize % bounds.len()];
                            // half of the time: go half way only
                            let target = e.log.t_ms as i128 + if *sel >= 128 { b as i128 / 2 } else { b as i128 + *off_ms as i128 };
                            (target - now_ms() as i128).max(0) as u64
                        }
                    }
                };
                tokio::time::advance(Duration::from_millis(dt)).await;
                trace.push(format!("+{}ms", dt));
            }
            Step::Query(q) => {
                let req = match build_request(q, si as u16 + 1) {
                    Ok(r) => r,
                    Err(e) => vfail!("harness:request-build", "{e}"),
                };
                let before = mock.st.lock().unwrap().log.len();
                let t0 = now_ms();
                let mut handle = conn.send_request(req);
                let got = handle.get_response().await;
                drop(handle);
                let t1 = now_ms();
                // pick up what the upstream logged
                {
                    let g = mock.st.lock().unwrap();
                    if let Some(b) = &g.bad {
                        vfail!("harness:mock", "{b}");
                    }
                    for l in g.log[entries.len()..].iter() {
                        let parsed = match &l.resp {
                            Ok(b) => match parse(b) {
                                Ok(p) => Some(p),
                                Err(e) => vfail!("harness:mock-response-unparseable", "{e}"),
                            },
                            Err(_) => None,
                        };
                        entries.push(Entry { log: l.clone(), parsed });
                    }
                }
                let hit = entries.len() == before;
                let r: Result<PMsg, String> = match &got {
                    Ok(m) => match parse(m.as_slice()) {
                        Ok(p) => Ok(p),
                        Err(e) => vfail!(
                            format!("{}:response-unparseable", if hit { "hit" } else { "miss" }),
                            "step {si} {}: returned message does not parse ({e}): {:02x?}",
                            q.render(),
                            m.as_slice()
                        ),
                    },
                    Err(e) => Err(format!("{e:?}")),
                };
                let p = if hit { "hit" } else { "miss" };
                let qn = lower_wire(&q.labels_lower());
                let qall = q.all_questions_lower();
                let qk = upstream::qkey(q.opcode, qall.iter().map(|(n, t, c)| (n.as_slice(), *t, *c)));
                // the question section of the returned message is the query's
                // (every entry of it)
                if let Ok(rm) = &r {
                    if rm.qname != qn || rm.qtype != q.qtype || rm.qclass != q.qclass || (rm.qkey[1..] != qk[1..]) {
                        vfail!(
                            format!("{p}:question-differs"),
                            "step {si} {}: returned question section has {} entries, first: {} type {} class {}",
                            q.render(),
                            rm.n_questions,
                            show_name(&rm.qname),
                            rm.qtype,
                            rm.qclass
                        );
                    }
                }
                // candidates: upstream responses for the same question. For a
                // miss the explanation has to be the call just made.
                let cands: Vec<usize> = if hit {
                    (0..entries.len()).collect()
                } else {
                    vec![entries.len() - 1]
                };
                let mut best: Option<Fail> = None;
                let mut ok: Option<Info> = None;
                for &i in cands.iter().rev() {
                    let e = &entries[i];
                    if e.log.req.qkey() != qk {
                        continue;
                    }
                    match explain(q, &r, e, i, t1, eff, case.sloppy, hit) {
                        Ok(info) => {
                            ok = Some(info);
                            break;
                        }
                        Err(f) => {
                            if best.as_ref().map_or(true, |b| f.rank > b.rank) {
                                best = Some(f);
                            }
                        }
                    }
                }
                let outcome = match (&ok, &r) {
                    (Some(i), Ok(_)) => format!("{} U{} age {}ms", if hit { "HIT" } else { "miss" }, i.src, i.elapsed_ms),
                    (Some(i), Err(e)) => format!("{} U{} age {}ms {e}", if hit { "HIT" } else { "miss" }, i.src, i.elapsed_ms),
                    _ => "UNEXPLAINED".into(),
                };
                trace.push(format!("@{t0}ms {} -> {outcome}", q.render()));
                let Some(info) = ok else {
                    let shown = match &r {
                        Ok(rm) => format!("flags {:#06x} rcode {} records {}", rm.flags, rm.rcode, show_recs(&rm.recs)),
                        Err(e) => format!("error {e}"),
                    };
                    let ups: Vec<String> = entries
                        .iter()
                        .enumerate()
                        .filter(|(_, e)| lower_wire(&e.log.req.name_lower) == qn && e.log.req.qtype == q.qtype)
                        .map(|(i, e)| {
                            format!(
                                "U{i} @{}ms [{}{}] {}",
                                e.log.t_ms,
                                e.log.req.flags_str(),
                                if e.log.req.questions.len() != 1 || e.log.req.opcode != 0 {
                                    format!("questions={} opcode={}", e.log.req.questions.len(), e.log.req.opcode)
                                } else {
                                    String::new()
                                },
                                match (&e.parsed, &e.log.resp) {
                                    (Some(p), _) => format!("flags {:#06x} rcode {} {}", p.flags, p.rcode, show_recs(&p.recs)),
                                    (_, Err(x)) => x.clone(),
                                    _ => String::new(),
                                }
                            )
                        })
                        .collect();
                    match best {
                        Some(f) => vfail!(
                            f.sig,
                            "step {si} at {t1} ms, query {}: the returned response is not explained by any upstream response.\nclosest: {}\nreturned: {shown}\nupstream responses for this question:\n  {}",
                            q.render(),
                            f.detail,
                            ups.join("\n  ")
                        ),
                        None => vfail!(
                            format!("{p}:no-upstream-response-for-question"),
                            "step {si} at {t1} ms, query {}: served without an upstream call, and upstream never answered this question.\nreturned: {shown}",
                            q.render()
                        ),
                    }
                };
                // evidence: request shapes the cache has to forward uncached
                // (more than one question, opcode other than QUERY) meeting
                // live entries of the ordinary shape for the same first
                // question, and the other way round
                {
                    let upto = if hit { entries.len() } else { entries.len() - 1 };
                    for e in entries[..upto].iter() {
                        let u = &e.log.req;
                        if lower_wire(&u.name_lower) != qn || u.qtype != q.qtype || u.qclass != q.qclass || q.qclass != 1 {
                            continue;
                        }
                        let compatible = u.cd == q.cd && (u.rd || !q.rd) && (u.dok || !q.dok) && (u.adeff() || !q.adeff());
                        let v = validity_ms(e, eff);
                        let tc_blocked = e.parsed.as_ref().is_some_and(|p| p.tc()) && !eff.trunc;
                        if !compatible || v == 0 || tc_blocked || t0.saturating_sub(e.log.t_ms) > v {
                            continue;
                        }
                        let u_plain = u.questions.len() == 1 && u.opcode == 0;
                        if u_plain && q.n_extra > 0 {
                            cls("shape:multi-question-while-first-question-live", stats);
                        }
                        if u_plain && q.opcode != 0 {
                            cls("shape:non-query-opcode-while-question-live", stats);
                        }
                        if q.is_plain() && u.questions.len() > 1 && u.opcode == 0 {
                            cls("shape:plain-query-after-live-multi-question-fetch", stats);
                        }
                        if q.is_plain() && u.opcode != 0 {
                            cls("shape:plain-query-after-live-non-query-fetch", stats);
                        }
                    }
                    if q.n_extra > 0 {
                        cls("shape:multi-question", stats);
                    }
                    if q.opcode != 0 {
                        cls("shape:non-query-opcode", stats);
                    }
                }
                if hit {
                    stats.hits += 1;
                    cls("hit", stats);
                    if info.foreign_secs != 0 {
                        cls("hit:foreign-class", stats);
                        if info.elapsed_ms >= 2000 {
                            cls("hit:foreign-class:aged", stats);
                        }
                        if info.foreign_secs & 2 != 0 {
                            cls("hit:foreign-class:answer", stats);
                        }
                        if info.foreign_secs & 4 != 0 {
                            cls("hit:foreign-class:authority", stats);
                        }
                        if info.foreign_secs & 8 != 0 {
                            cls("hit:foreign-class:additional", stats);
                        }
                    }
                    let src = &entries[info.src].log.req;
                    let flagdiff = info.rd_down || info.do_down || info.ad_down;
                    if info.elapsed_ms > 0 {
                        cls("hit:after-advance", stats);
                    }
                    if info.elapsed_ms > 0 || flagdiff {
                        stats.nontrivial = true;
                    }
                    if !flagdiff {
                        cls("edge:exact-flags", stats);
                    }
                    if info.rd_down {
                        cls("edge:rd-down", stats);
                    }
                    if info.do_down {
                        cls("edge:do-down", stats);
                    }
                    if info.ad_down {
                        cls("edge:ad-down", stats);
                    }
                    if info.stripped {
                        cls("hit:dnssec-stripped", stats);
                    }
                    if info.stripped_bare_ds {
                        cls("hit:bare-ds-stripped", stats);
                        match entries[info.src].parsed.as_ref().map(bound_kind) {
                            Some(Bound::Delegation) => cls("hit:bare-ds-stripped:referral", stats),
                            Some(Bound::Answer) => cls("hit:bare-ds-stripped:answer", stats),
                            Some(Bound::NoData) | Some(Bound::NxDomain) => cls("hit:bare-ds-stripped:negative", stats),
                            _ => {}
                        }
                    }
                    if info.ad_cleared {
                        cls("hit:ad-cleared", stats);
                    }
                    if info.exact_expiry {
                        cls("hit:at-exact-expiry-instant", stats);
                    }
                    if info.cname {
                        cls("hit:cname", stats);
                    }
                    if info.tc {
                        cls("hit:truncated", stats);
                    }
                    if src.name_sent != q.labels_sent() {
                        cls("hit:case-variant", stats);
                    }
                    match info.bound {
                        Some(Bound::NxDomain) => cls("hit:negative-nxdomain", stats),
                        Some(Bound::NoData) => cls("hit:negative-nodata", stats),
                        Some(Bound::Misc) => cls("hit:rcode-error", stats),
                        Some(Bound::Transport) => cls("hit:transport-error", stats),
                        Some(Bound::Delegation) => cls("hit:referral", stats),
                        Some(Bound::Answer) => cls("hit:answer", stats),
                        None => {}
                    }
                    if q.dok {
                        cls("hit:do-query", stats);
                    }
                    if let Some((rc, with_answer)) = info.ext_rcode {
                        cls("hit:ext-rcode", stats);
                        match rc & 0xf {
                            0 if with_answer => cls("hit:ext-rcode:low-nibble-0-with-answer", stats),
                            0 => cls("hit:ext-rcode:low-nibble-0", stats),
                            3 => cls("hit:ext-rcode:low-nibble-3", stats),
                            _ => cls("hit:ext-rcode:low-nibble-other", stats),
                        }
                    }
                } else {
                    stats.misses += 1;
                    cls("miss", stats);
                    // why was it a miss? (evidence only)
                    let me = entries.len() - 1;
                    let mut earlier_same = false;
                    let mut earlier_other_cd = false;
                    let mut changed = false;
                    let mut earlier_live = false;
                    for e in entries[..me].iter() {
                        if e.log.req.qkey() != qk {
                            continue;
                        }
                        let u = &e.log.req;
                        if u.cd != q.cd {
                            earlier_other_cd = true;
                            continue;
                        }
                        if (u.rd || !q.rd) && (u.dok || !q.dok) && (u.adeff() || !q.adeff()) {
                            if t0.saturating_sub(e.log.t_ms) > validity_ms(e, eff) {
                                if let Some(pm) = &e.parsed {
                                    // expired only because of misc_error_duration: a cache that
                                    // classified by the header nibble would still serve it
                                    let age = t0.saturating_sub(e.log.t_ms);
                                    let mut other = eff.max_validity_ms;
                                    for r in &pm.recs {
                                        other = other.min(r.ttl as u64 * 1000);
                                    }
                                    if pm.rcode & 0xf == 3 {
                                        other = other.min(eff.nx_ms);
                                    }
                                    let nib = pm.rcode & 0xf;
                                    let cacheable_by_nibble = nib != 0 || pm.recs.iter().any(|x| x.sec == 1 && x.rtype == pm.qtype);
                                    if pm.rcode >= 16 && age <= other && cacheable_by_nibble && (nib == 0 || nib == 3) && (!pm.tc() || eff.trunc) {
                                        cls("miss:ext-rcode-refetched-after-misc-bound", stats);
                                    }
                                }
                                earlier_same = true;
                                if e.log.resp != entries[me].log.resp {
                                    changed = true;
                                }
                            } else {
                                earlier_live = true;
                            }
                        }
                    }
                    if earlier_same {
                        cls("miss:expired-refetch", stats);
                        if changed {
                            cls("miss:fresh-after-change", stats);
                        }
                    } else if earlier_live {
                        cls("miss:not-cached-or-not-reused", stats);
                    } else if earlier_other_cd {
                        cls("miss:cd-partition", stats);
                    }
                    if q.qclass != 1 {
                        cls("miss:non-in-class", stats);
                    }
                    if entries[me].log.t_ms > t0 {
                        cls("miss:upstream-latency", stats);
                    }
                }
            }
        }
    }
    let _ = stats.misses;
    Ok(())
}
