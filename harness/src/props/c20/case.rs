//! C20 — decoded case: cache configuration, upstream response templates and
//! the history (queries and clock advances). Everything is decoded from the
//! byte vector; indices map monotonically so that zero bytes give the
//! simplest alternative.
use crate::gen::*;
use arbitrary::Unstructured;

/// Query name pool (lower case). Zone of a name = its last two labels.
pub const NAMES: [&[&str]; 4] =
    [&["example", "com"], &["www", "example", "com"], &["sub", "example", "com"], &["x", "y", "example", "org"]];

/// Query types: A AAAA TXT MX NS DS DNSKEY RRSIG NSEC ANY TYPE65280
pub const QTYPES: [u16; 11] = [1, 28, 16, 15, 2, 43, 48, 46, 47, 255, 65280];

pub const MAX_STEPS: usize = 120;

/// STATUS, NOTIFY, UPDATE
pub const NON_QUERY_OPCODES: [u8; 3] = [2, 4, 5];

#[derive(Clone, Debug, Hash, PartialEq, Eq)]
pub struct Query {
    pub name: u8,
    /// 0 lower, 1 upper, 2 alternating
    pub case: u8,
    pub qtype: u16,
    pub qclass: u16,
    pub rd: bool,
    pub cd: bool,
    pub ad: bool,
    pub dok: bool,
    /// request carries an OPT record without DO (only meaningful if !dok)
    pub opt: bool,
    /// number of additional entries in the question section (0 = the usual
    /// single-question request). What they are follows from `case`, see
    /// `extra_questions`.
    pub n_extra: u8,
    /// opcode of the request (0 = QUERY; 2 STATUS, 4 NOTIFY, 5 UPDATE)
    pub opcode: u8,
}

impl Query {
    pub fn labels_lower(&self) -> Vec<Vec<u8>> {
        NAMES[self.name as usize].iter().map(|l| l.as_bytes().to_vec()).collect()
    }
    pub fn labels_sent(&self) -> Vec<Vec<u8>> {
        self.labels_sent_of(self.name)
    }
    /// Entries of the question section after the first one, as (name index,
    /// qtype); class is the query's class. `case` 0: copies of the first
    /// question; 1: other names, same type; 2: same name, other types.
    pub fn extra_questions(&self) -> Vec<(u8, u16)> {
        let ti = QTYPES.iter().position(|t| *t == self.qtype).unwrap_or(0);
        (1..=self.n_extra as usize)
            .map(|j| match self.case {
                0 => (self.name, self.qtype),
                1 => (((self.name as usize + j) % NAMES.len()) as u8, self.qtype),
                // stay inside the ordinary data types A AAAA TXT MX NS
                _ => (self.name, QTYPES[(ti + j) % 5]),
            })
            .collect()
    }
    /// The whole question section in lower case: the identity of "the
    /// question" of a request (plus opcode).
    pub fn all_questions_lower(&self) -> Vec<(Vec<Vec<u8>>, u16, u16)> {
        let mut v = vec![(self.labels_lower(), self.qtype, self.qclass)];
        for (n, t) in self.extra_questions() {
            v.push((NAMES[n as usize].iter().map(|l| l.as_bytes().to_vec()).collect(), t, self.qclass));
        }
        v
    }
    pub fn is_plain(&self) -> bool {
        self.n_extra == 0 && self.opcode == 0
    }
    pub fn labels_sent_of(&self, name: u8) -> Vec<Vec<u8>> {
        NAMES[name as usize]
            .iter()
            .enumerate()
            .map(|(li, l)| {
                l.bytes()
                    .enumerate()
                    .map(|(i, b)| match self.case {
                        0 => b,
                        1 => b.to_ascii_uppercase(),
                        _ => {
                            if (i + li) % 2 == 0 {
                                b.to_ascii_uppercase()
                            } else {
                                b
                            }
                        }
                    })
                    .collect()
            })
            .collect()
    }
    /// AD as the cache's documentation treats it: DO implies AD.
    pub fn adeff(&self) -> bool {
        self.ad || self.dok
    }
    pub fn render(&self) -> String {
        let n: Vec<String> = self.labels_sent().iter().map(|l| String::from_utf8_lossy(l).into_owned()).collect();
        let mut extra = String::new();
        for (n, t) in self.extra_questions() {
            extra.push_str(&format!(" +q[{} {}]", NAMES[n as usize].join("."), crate::refimpl::rdata::mnemonic(t)));
        }
        if self.opcode != 0 {
            extra.push_str(&format!(" opcode={}", self.opcode));
        }
        format!(
            "{} {}{}{}{}{}{}{}{}",
            n.join("."),
            crate::refimpl::rdata::mnemonic(self.qtype),
            if self.qclass != 1 { " CH" } else { "" },
            if self.rd { " rd" } else { "" },
            if self.cd { " cd" } else { "" },
            if self.ad { " ad" } else { "" },
            if self.dok { " do" } else { "" },
            if self.opt && !self.dok { " opt" } else { "" },
            extra,
        )
    }
}

#[derive(Clone, Debug, Hash)]
pub enum Adv {
    /// milliseconds
    Fixed(u64),
    /// advance to (time of the `back`-th last upstream fetch) + (one of that
    /// response's TTLs or a configured bound, selected by `sel`) + offset
    Rel { back: u8, sel: u8, off_ms: i64 },
}

#[derive(Clone, Debug, Hash)]
pub enum Step {
    Query(Query),
    Advance(Adv),
}

/// Raw values handed to the setters, in milliseconds; None = setter not
/// called (library default applies).
#[derive(Clone, Debug, Hash, Default)]
pub struct Cfg {
    pub default_ctor: bool,
    pub max_validity: Option<u64>,
    pub transport: Option<u64>,
    pub misc: Option<u64>,
    pub nx: Option<u64>,
    pub nodata: Option<u64>,
    pub deleg: Option<u64>,
    pub trunc: Option<bool>,
    pub entries: Option<u64>,
}

/// Effective values by the documented ranges (set_* docs in cache.rs):
/// (default, min, max) in seconds.
pub const R_MAX_VALIDITY: (u64, u64, u64) = (604_800, 60, 6_048_000);
pub const R_TRANSPORT: (u64, u64, u64) = (30, 1, 300);
pub const R_MISC: (u64, u64, u64) = (30, 1, 300);
pub const R_NX: (u64, u64, u64) = (3_600, 60, 86_400);
pub const R_NODATA: (u64, u64, u64) = (3_600, 60, 86_400);
pub const R_DELEG: (u64, u64, u64) = (1_000_000, 60, 1_000_000_000);

#[derive(Clone, Debug)]
pub struct Eff {
    pub max_validity_ms: u64,
    pub transport_ms: u64,
    pub misc_ms: u64,
    pub nx_ms: u64,
    pub nodata_ms: u64,
    pub deleg_ms: u64,
    pub trunc: bool,
}

fn eff1(raw: Option<u64>, r: (u64, u64, u64), ignore: bool) -> u64 {
    match raw {
        Some(v) if !ignore => v.clamp(r.1 * 1000, r.2 * 1000),
        _ => r.0 * 1000,
    }
}

impl Cfg {
    pub fn eff(&self) -> Eff {
        let d = self.default_ctor;
        Eff {
            max_validity_ms: eff1(self.max_validity, R_MAX_VALIDITY, d),
            transport_ms: eff1(self.transport, R_TRANSPORT, d),
            misc_ms: eff1(self.misc, R_MISC, d),
            nx_ms: eff1(self.nx, R_NX, d),
            nodata_ms: eff1(self.nodata, R_NODATA, d),
            deleg_ms: eff1(self.deleg, R_DELEG, d),
            trunc: if d { false } else { self.trunc.unwrap_or(false) },
        }
    }
    pub fn is_extreme(&self) -> bool {
        let ex = |v: Option<u64>, r: (u64, u64, u64)| matches!(v, Some(x) if x <= r.1 * 1000 || x >= r.2 * 1000);
        !self.default_ctor
            && (ex(self.max_validity, R_MAX_VALIDITY)
                || ex(self.transport, R_TRANSPORT)
                || ex(self.misc, R_MISC)
                || ex(self.nx, R_NX)
                || ex(self.nodata, R_NODATA)
                || ex(self.deleg, R_DELEG))
    }
}

#[derive(Clone, Debug, Hash, PartialEq, Eq)]
pub enum Kind {
    Positive,
    NoDataSoa,
    NxSoa,
    Cname { len: u8, dangling: bool },
    Referral,
    Rcode(u8),
    Transport(u8),
    NxNoSoa,
    NoDataBare,
}

#[derive(Clone, Debug, Hash)]
pub struct RespSpec {
    pub kind: Kind,
    /// upper 8 bits of an extended rcode (0 = plain rcode); only sent when
    /// the request carried an OPT record
    pub ext_hi: u8,
    pub tc: bool,
    pub aa: bool,
    pub ad: bool,
    pub ra: bool,
    /// zone is signed: DNSSEC records are added when the request has DO
    pub signed: bool,
    /// NSEC3 instead of NSEC; for referrals: insecure (NSEC) instead of DS
    pub alt: bool,
    pub with_opt: bool,
    pub auth_ns: bool,
    pub glue: bool,
    pub n_ans: u8,
    pub ttl_ans: [u32; 3],
    pub ttl_auth: u32,
    pub ttl_add: u32,
    pub ttl_sig: u32,
    pub ttl_neg: u32,
    pub soa_min: u32,
    pub latency_ms: u64,
    /// records whose CLASS differs from the question's: 0 none, 1 one of the
    /// response's records, 2 one extra record (a CH TXT "version.bind"
    /// style rider) appended to one of the sections, 3 all records / one
    /// record (alternating with the fetch number). Which record and which
    /// class follows from the serial number of the fetch (see upstream.rs).
    pub foreign: u8,
}

#[derive(Clone, Debug, Hash)]
pub struct Case {
    pub sloppy: bool,
    pub cfg: Cfg,
    pub templates: Vec<RespSpec>,
    pub steps: Vec<Step>,
}

fn opt_ms(u: &mut Unstructured, r: (u64, u64, u64), mids: &[u64]) -> Option<u64> {
    // 0 = leave default; then min, max, below min, above max, min+1 s,
    // max-1 s, fractional, mids
    let n = 8 + mids.len();
    let i = pick(u, n);
    Some(match i {
        0 => return None,
        1 => r.1 * 1000,
        2 => r.2 * 1000,
        3 => 0,
        4 => r.2 * 1000 * 3 + 7,
        5 => (r.1 + 1) * 1000,
        6 => (r.2 - 1) * 1000,
        7 => r.1 * 1000 + 500,
        _ => mids[i - 8] * 1000,
    })
}

fn decode_cfg(u: &mut Unstructured, evict: bool) -> Cfg {
    let default_ctor = !evict && chance(u, 32);
    let mut c = Cfg { default_ctor, ..Default::default() };
    c.max_validity = opt_ms(u, R_MAX_VALIDITY, &[120, 300, 3600, 86_400]);
    c.transport = opt_ms(u, R_TRANSPORT, &[5, 10, 60]);
    c.misc = opt_ms(u, R_MISC, &[5, 10, 60]);
    c.nx = opt_ms(u, R_NX, &[120, 300, 900]);
    c.nodata = opt_ms(u, R_NODATA, &[120, 300, 900]);
    c.deleg = opt_ms(u, R_DELEG, &[120, 300, 3600, 1_000_000]);
    c.trunc = match pick(u, 3) {
        0 => None,
        1 => Some(true),
        _ => Some(false),
    };
    c.entries = if evict {
        Some([1u64, 2, 3, 5, 0][pick(u, 5)])
    } else {
        // never small: capacity eviction must not trigger in this mode
        match pick(u, 5) {
            0 => None,
            1 => Some(10_000),
            2 => Some(1_000_000_000),
            3 => Some(u64::MAX),
            _ => Some(1_000),
        }
    };
    c
}

fn ttl_pool(cfg: &Cfg) -> Vec<u32> {
    let mut p: Vec<u32> = vec![
        300, 3600, 60, 10, 5, 2, 1, 0, 30, 59, 61, 120, 299, 301, 3601, 86_400, 86_401, 604_800, 604_801, 6_048_000, 6_048_001,
        1_000_001, 0x7fff_ffff,
    ];
    let e = cfg.eff();
    for b in [e.max_validity_ms, e.transport_ms, e.misc_ms, e.nx_ms, e.nodata_ms, e.deleg_ms] {
        let s = (b / 1000) as u32;
        for v in [s.saturating_sub(1), s, s + 1] {
            if !p.contains(&v) && v <= 0x7fff_ffff {
                p.push(v);
            }
        }
    }
    p
}

fn decode_spec(u: &mut Unstructured, pool: &[u32]) -> RespSpec {
    let mut ext_hi = 0u8;
    let kind = match pick(u, 12) {
        0 | 1 => Kind::Positive,
        2 => Kind::NoDataSoa,
        3 => Kind::NxSoa,
        4 => Kind::Cname { len: 1, dangling: false },
        5 => Kind::Referral,
        6 => Kind::Rcode(pick(u, 7) as u8),
        7 => Kind::Transport(pick(u, 5) as u8),
        8 => Kind::NxNoSoa,
        9 => Kind::NoDataBare,
        10 => Kind::Cname { len: 1 + pick(u, 3) as u8, dangling: flag(u) },
        _ => {
            // failure signalled with an EXTENDED rcode (upper 8 bits in the
            // OPT TTL, RFC 6891 §6.1.3) on top of any message shape, so that
            // every low nibble occurs: 0 with answer records (16 BADVERS, 32,
            // 4080), 3 (19 BADMODE, 35, 4083), 2/5/1/4/6/9 (18, 21, ...)
            ext_hi = [1u8, 2, 255, 17][pick(u, 4)];
            match pick(u, 8) {
                0 => Kind::Positive,
                1 => Kind::NxNoSoa,
                2 => Kind::NxSoa,
                3 => Kind::Rcode(pick(u, 6) as u8),
                4 => Kind::NoDataSoa,
                5 => Kind::Referral,
                6 => Kind::Cname { len: 1, dangling: false },
                _ => Kind::Positive,
            }
        }
    };
    let f = byte(u);
    let g = byte(u);
    let t = |u: &mut Unstructured| pool[pick(u, pool.len())];
    let n_ans = 1 + pick(u, 3) as u8;
    let a0 = t(u);
    // TTLs within the RRset: equal to the first by default
    let a1 = if g & 0x10 != 0 { t(u) } else { a0 };
    let a2 = if g & 0x20 != 0 { t(u) } else { a0 };
    let same = g & 0x40 == 0;
    let ttl_auth = if same { a0 } else { t(u) };
    let ttl_add = if same { a0 } else { t(u) };
    let ttl_sig = if same { a0 } else { t(u) };
    let ttl_neg = if same { a0 } else { t(u) };
    // The latency pick has five alternatives that all mean "no latency";
    // three of them double as the selector of the foreign-class dimension (no
    // extra octets are consumed: the decoding of everything else is as before).
    let li = pick(u, 9);
    RespSpec {
        kind,
        ext_hi,
        signed: f & 1 != 0,
        ad: f & 2 != 0,
        aa: f & 4 != 0,
        ra: f & 8 == 0,
        with_opt: f & 0x10 == 0,
        auth_ns: f & 0x20 != 0,
        glue: f & 0x40 != 0,
        alt: f & 0x80 != 0,
        tc: g & 0x0f == 0x0f,
        n_ans,
        ttl_ans: [a0, a1, a2],
        ttl_auth,
        ttl_add,
        ttl_sig,
        ttl_neg,
        soa_min: [3600u32, 0, 1, 60, 86_400][(g as usize >> 7) * (1 + (f as usize & 3))],
        latency_ms: [0u64, 0, 0, 0, 0, 1, 500, 2000, 10_000][li],
        foreign: match li {
            1 => 1,
            2 => 2,
            3 => 3,
            _ => 0,
        },
    }
}

const FIXED_ADV: [u64; 16] =
    [1000, 0, 1, 500, 999, 1001, 2000, 5000, 30_000, 59_000, 60_000, 61_000, 3_600_000, 86_400_000, 10_000_000_000, 2_000_000_000_000];
const OFFS: [i64; 5] = [0, -1, 1, -1000, 1000];

/// `pick(u, 3)` plus the position of the octet inside the picked bucket
/// (0..=85 for the first, 0..=84 for the other two).
fn pick3_rem(u: &mut Unstructured) -> (u8, usize) {
    let b = byte(u) as usize;
    let i = (b * 3) >> 8;
    (i as u8, b - (i * 256 + 2) / 3)
}

fn decode_flags(q: &mut Query, f: u8) {
    q.rd = f & 1 == 0;
    q.cd = f & 2 != 0;
    q.ad = f & 4 != 0;
    q.dok = f & 8 != 0;
    q.opt = f & 16 != 0;
}

pub fn decode(data: &[u8], evict: bool) -> Case {
    let mut u = Unstructured::new(data);
    let u = &mut u;
    let sloppy = chance(u, 20);
    let cfg = decode_cfg(u, evict);
    let pool = ttl_pool(&cfg);
    let nt = 1 + pick(u, 5);
    let templates: Vec<RespSpec> = (0..nt).map(|_| decode_spec(u, &pool)).collect();
    let mut steps: Vec<Step> = vec![];
    let mut queries: Vec<Query> = vec![];
    let max_steps = if evict { 60 } else { MAX_STEPS };
    loop {
        if steps.len() >= max_steps || (u.is_empty() && !steps.is_empty()) {
            break;
        }
        let k = pick(u, 10);
        match k {
            0..=2 | 6..=9 => {
                let q = if k <= 2 && !queries.is_empty() {
                    // repeat an earlier question, possibly with fewer/other flags
                    let i = queries.len() - 1 - pick(u, queries.len().min(6));
                    let mut q = queries[i].clone();
                    match pick(u, 11) {
                        0 => {}
                        1 => q.rd = false,
                        2 => q.dok = false,
                        3 => q.ad = false,
                        4 => {
                            q.dok = false;
                            q.ad = false;
                        }
                        5 => {
                            q.rd = false;
                            q.dok = false;
                            q.ad = false;
                        }
                        6 => q.cd = !q.cd,
                        7 => q.dok = true,
                        8 => q.rd = true,
                        9 => {
                            q.dok = false;
                            q.ad = true;
                        }
                        _ => {
                            let f = byte(u);
                            decode_flags(&mut q, f);
                        }
                    }
                    // The octet that selects the case variant also says (by its
                    // position inside the variant's bucket, 0..=84) whether the
                    // repeat keeps the shape of the request or changes it:
                    // back to a plain single-question QUERY, a second entry in
                    // the question section, or another opcode. Zero = keep.
                    let (case, rem) = pick3_rem(u);
                    q.case = case;
                    match rem {
                        0..=69 => {}
                        70..=74 => {
                            q.n_extra = 0;
                            q.opcode = 0;
                        }
                        75..=80 => {
                            q.n_extra = 1;
                            q.opcode = 0;
                        }
                        _ => {
                            q.n_extra = 0;
                            q.opcode = NON_QUERY_OPCODES[rem % 3];
                        }
                    }
                    q
                } else {
                    let name = pick(u, NAMES.len()) as u8;
                    // the octet that selects the case variant also selects (by
                    // its position inside the variant's bucket) the rarer
                    // request shapes the cache must forward without caching
                    let (case, rem) = pick3_rem(u);
                    let (n_extra, opcode) = match rem {
                        0..=73 => (0, 0),
                        74..=79 => (1, 0),
                        80..=81 => (2, 0),
                        _ => (0, NON_QUERY_OPCODES[rem % 3]),
                    };
                    let mut q = Query {
                        name,
                        case,
                        qtype: QTYPES[pick(u, QTYPES.len())],
                        qclass: 1,
                        rd: true,
                        cd: false,
                        ad: false,
                        dok: false,
                        opt: false,
                        n_extra,
                        opcode,
                    };
                    let f = byte(u);
                    decode_flags(&mut q, f);
                    if f >= 0xf8 {
                        q.qclass = 3; // CH: never cached
                    }
                    q
                };
                queries.push(q.clone());
                steps.push(Step::Query(q));
            }
            _ => {
                let a = if flag(u) {
                    Adv::Fixed(FIXED_ADV[pick(u, FIXED_ADV.len())])
                } else {
                    Adv::Rel { back: pick(u, 4) as u8, sel: byte(u), off_ms: OFFS[pick(u, OFFS.len())] }
                };
                steps.push(Step::Advance(a));
            }
        }
    }
    Case { sloppy, cfg, templates, steps }
}
