//! C20 — mock upstream transport. Implements `SendRequest` for the cache to
//! sit on; logs every request with the virtual time at which its response is
//! delivered; builds responses with the independent assembler
//! (`refimpl::wire::Asm`), not with the library's message builder.
use super::case::*;
use crate::refimpl::wire::{self, Asm};
use bytes::Bytes;
use domain::base::Message;
use domain::net::client::request::{ComposeRequest, Error, GetResponse, RequestMessage, SendRequest};
use std::collections::BTreeMap;
use std::future::Future;
use std::pin::Pin;
use std::sync::{Arc, Mutex};
use std::time::Duration;
use tokio::time::Instant;

pub const T_OPT: u16 = 41;
pub const T_DS: u16 = 43;
pub const T_RRSIG: u16 = 46;
pub const T_NSEC: u16 = 47;
pub const T_NSEC3: u16 = 50;

/// What the mock saw in a request (parsed with the independent walker).
#[derive(Clone, Debug)]
pub struct ReqSeen {
    pub name_sent: Vec<Vec<u8>>,
    pub name_lower: Vec<Vec<u8>>,
    pub qtype: u16,
    pub qclass: u16,
    pub rd: bool,
    pub cd: bool,
    pub ad: bool,
    pub dok: bool,
    pub has_opt: bool,
    pub opcode: u8,
    /// the whole question section as sent (first entry = name_sent/qtype/qclass)
    pub questions: Vec<(Vec<Vec<u8>>, u16, u16)>,
}

impl ReqSeen {
    /// Identity of "the question" of the request: opcode and every entry of
    /// the question section, names in lower case.
    pub fn qkey(&self) -> Vec<u8> {
        qkey(self.opcode, self.questions.iter().map(|(n, t, c)| (n.as_slice(), *t, *c)))
    }
    pub fn adeff(&self) -> bool {
        self.ad || self.dok
    }
    pub fn flags_str(&self) -> String {
        format!(
            "{}{}{}{}",
            if self.rd { "rd " } else { "" },
            if self.cd { "cd " } else { "" },
            if self.ad { "ad " } else { "" },
            if self.dok { "do " } else { "" }
        )
    }
}

pub fn qkey<'a>(opcode: u8, questions: impl Iterator<Item = (&'a [Vec<u8>], u16, u16)>) -> Vec<u8> {
    let mut k = vec![opcode];
    for (n, t, c) in questions {
        for l in n {
            k.push(l.len() as u8);
            k.extend(l.iter().map(|b| b.to_ascii_lowercase()));
        }
        k.push(0);
        k.extend_from_slice(&t.to_be_bytes());
        k.extend_from_slice(&c.to_be_bytes());
    }
    k
}

#[derive(Clone, Debug)]
#[allow(dead_code)]
pub struct LogEntry {
    /// virtual time (ms since the start of the history) at which the
    /// response was delivered to the cache
    pub t_ms: u64,
    pub serial: u16,
    pub template: usize,
    pub req: ReqSeen,
    pub resp: Result<Vec<u8>, String>,
}

pub struct State {
    pub templates: Vec<RespSpec>,
    pub sloppy: bool,
    pub start: Instant,
    pub log: Vec<LogEntry>,
    pub counts: BTreeMap<Vec<u8>, usize>,
    pub calls: usize,
    pub bad: Option<String>,
}

#[derive(Clone)]
pub struct Mock {
    pub st: Arc<Mutex<State>>,
}

impl Mock {
    pub fn new(templates: Vec<RespSpec>, sloppy: bool) -> Self {
        Mock {
            st: Arc::new(Mutex::new(State {
                templates,
                sloppy,
                start: Instant::now(),
                log: vec![],
                counts: BTreeMap::new(),
                calls: 0,
                bad: None,
            })),
        }
    }
}

#[derive(Debug)]
pub struct MockReq {
    st: Arc<Mutex<State>>,
    req: RequestMessage<Vec<u8>>,
}

impl std::fmt::Debug for State {
    fn fmt(&self, f: &mut std::fmt::Formatter<'_>) -> std::fmt::Result {
        write!(f, "State")
    }
}

impl SendRequest<RequestMessage<Vec<u8>>> for Mock {
    fn send_request(&self, request_msg: RequestMessage<Vec<u8>>) -> Box<dyn GetResponse + Send + Sync> {
        Box::new(MockReq { st: self.st.clone(), req: request_msg })
    }
}

fn parse_request(bytes: &[u8]) -> Result<ReqSeen, String> {
    let w = wire::walk(bytes).ok_or("short request")?;
    if let Some(e) = &w.error {
        return Err(format!("request does not parse: {e:?}"));
    }
    if w.questions.is_empty() {
        return Err("request without question".into());
    }
    let q = &w.questions[0];
    let mut dok = false;
    let mut has_opt = false;
    for r in &w.records {
        if r.rtype == T_OPT {
            has_opt = true;
            dok = r.ttl & 0x8000 != 0;
        }
    }
    Ok(ReqSeen {
        name_sent: q.name.clone(),
        name_lower: q.name.iter().map(|l| l.to_ascii_lowercase()).collect(),
        qtype: q.qtype,
        qclass: q.qclass,
        rd: w.header.rd(),
        cd: w.header.cd(),
        ad: w.header.ad(),
        dok,
        has_opt,
        opcode: w.header.opcode(),
        questions: w.questions.iter().map(|q| (q.name.clone(), q.qtype, q.qclass)).collect(),
    })
}

pub fn transport_error(sel: u8) -> Error {
    match sel {
        0 => Error::StreamReadTimeout,
        1 => Error::ConnectionClosed,
        2 => Error::NoTransportAvailable,
        3 => Error::StreamUnexpectedEndOfData,
        _ => Error::WrongReplyForQuery,
    }
}

impl GetResponse for MockReq {
    fn get_response(&mut self) -> Pin<Box<dyn Future<Output = Result<Message<Bytes>, Error>> + Send + Sync + '_>> {
        let st = self.st.clone();
        let req = self.req.clone();
        Box::pin(async move {
            // decide the response now, deliver it after the latency
            let (latency, seen, serial, tix, out) = {
                let mut g = st.lock().unwrap();
                g.calls += 1;
                let bytes = match req.to_vec() {
                    Ok(b) => b,
                    Err(e) => {
                        g.bad = Some(format!("request to_vec failed: {e:?}"));
                        return Err(Error::FormError);
                    }
                };
                let seen = match parse_request(&bytes) {
                    Ok(s) => s,
                    Err(e) => {
                        g.bad = Some(e);
                        return Err(Error::FormError);
                    }
                };
                let key = seen.qkey();
                let n = {
                    let c = g.counts.entry(key).or_insert(0);
                    let n = *c;
                    *c += 1;
                    n
                };
                let slot: usize =
                    seen.name_lower.iter().map(|l| l.len()).sum::<usize>() + seen.name_lower.len() + seen.qtype as usize;
                let tix = (slot + n) % g.templates.len();
                let serial = (g.calls & 0xffff) as u16;
                let spec = g.templates[tix].clone();
                let out = build_response(&spec, &seen, serial, g.sloppy);
                (spec.latency_ms, seen, serial, tix, out)
            };
            if latency > 0 {
                tokio::time::sleep(Duration::from_millis(latency)).await;
            }
            let mut g = st.lock().unwrap();
            let t_ms = (Instant::now() - g.start).as_millis() as u64;
            match out {
                Ok(bytes) => {
                    g.log.push(LogEntry { t_ms, serial, template: tix, req: seen, resp: Ok(bytes.clone()) });
                    match Message::from_octets(Bytes::from(bytes)) {
                        Ok(m) => Ok(m),
                        Err(_) => {
                            g.bad = Some("mock built a message the library rejects".into());
                            Err(Error::ShortMessage)
                        }
                    }
                }
                Err(sel) => {
                    let e = transport_error(sel);
                    g.log.push(LogEntry { t_ms, serial, template: tix, req: seen, resp: Err(format!("{e:?}")) });
                    Err(e)
                }
            }
        })
    }
}

//------------ response construction ------------------------------------------

fn lab(s: &str) -> Vec<u8> {
    s.as_bytes().to_vec()
}
fn wname(n: &[Vec<u8>]) -> Vec<u8> {
    let mut o = vec![];
    for l in n {
        o.push(l.len() as u8);
        o.extend_from_slice(l);
    }
    o.push(0);
    o
}
fn sub(first: String, zone: &[Vec<u8>]) -> Vec<Vec<u8>> {
    let mut v = vec![lab(&first)];
    v.extend_from_slice(zone);
    v
}

struct Rec {
    sec: usize,
    owner: Vec<Vec<u8>>,
    rtype: u16,
    ttl: u32,
    rdata: Vec<u8>,
}

/// Classes for records that are not of the question's class: CH, HS, NONE,
/// ANY, CS, a private-use value, the reserved value 0.
pub const FOREIGN_CLASSES: [u16; 7] = [3, 4, 254, 255, 2, 0xff00, 0];

fn ans_rdata(qtype: u16, i: u8, s: u16, zone: &[Vec<u8>]) -> (u16, Vec<u8>) {
    let (hi, lo) = ((s >> 8) as u8, s as u8);
    match qtype {
        1 => (1, vec![10, hi, lo, i]),
        28 => (28, vec![0x20, 0x01, 0x0d, 0xb8, 0, 0, 0, 0, 0, 0, 0, 0, hi, lo, 0, i]),
        16 => {
            let t = format!("v{s}-{i}");
            let mut r = vec![t.len() as u8];
            r.extend_from_slice(t.as_bytes());
            (16, r)
        }
        15 => {
            let mut r = vec![0, i];
            r.extend(wname(&sub(format!("mx{i}-{s}"), zone)));
            (15, r)
        }
        2 => (2, wname(&sub(format!("ns{i}-{s}"), zone))),
        43 => {
            let mut r = vec![hi, lo, 8, 2];
            r.extend(std::iter::repeat(i).take(32));
            (43, r)
        }
        48 => {
            let mut r = vec![1, 1, 3, 8, hi, lo, i];
            r.extend_from_slice(&[9, 8, 7, 6, 5, 4, 3, 2, 1]);
            (48, r)
        }
        46 => (46, rrsig_rdata(1, 300, s, i, zone)),
        47 => {
            let mut r = wname(&sub(format!("z{i}-{s}"), zone));
            r.extend_from_slice(&[0, 1, 0x40]);
            (47, r)
        }
        255 => {
            if i % 2 == 0 {
                ans_rdata(1, i, s, zone)
            } else {
                ans_rdata(16, i, s, zone)
            }
        }
        t => (t, vec![hi, lo, i, 0xde, 0xad]),
    }
}

fn rrsig_rdata(covered: u16, orig_ttl: u32, s: u16, i: u8, zone: &[Vec<u8>]) -> Vec<u8> {
    let mut r = vec![];
    r.extend_from_slice(&covered.to_be_bytes());
    r.push(8);
    r.push(zone.len() as u8);
    r.extend_from_slice(&orig_ttl.to_be_bytes());
    r.extend_from_slice(&0x7000_0000u32.to_be_bytes());
    r.extend_from_slice(&0x6000_0000u32.to_be_bytes());
    r.extend_from_slice(&s.to_be_bytes());
    r.extend(wname(zone));
    r.extend_from_slice(&[i, (covered >> 8) as u8, covered as u8, 3, 4, 5, 6, 7]);
    r
}

fn soa_rdata(s: u16, min: u32, zone: &[Vec<u8>]) -> Vec<u8> {
    let mut r = wname(&sub("ns".into(), zone));
    r.extend(wname(&sub(format!("h{s}"), zone)));
    r.extend_from_slice(&(s as u32).to_be_bytes());
    r.extend_from_slice(&3600u32.to_be_bytes());
    r.extend_from_slice(&600u32.to_be_bytes());
    r.extend_from_slice(&86400u32.to_be_bytes());
    r.extend_from_slice(&min.to_be_bytes());
    r
}

fn nsec3_rdata(s: u16) -> Vec<u8> {
    let mut r = vec![1, 0, 0, 0, 0, 20];
    r.extend_from_slice(&s.to_be_bytes());
    r.extend(std::iter::repeat(0x5a).take(18));
    r.extend_from_slice(&[0, 1, 0x40]);
    r
}

/// Builds the response the upstream gives. Err(sel) = transport failure.
///
/// A well-behaved upstream (default): DNSSEC records (RRSIG, NSEC, NSEC3, DS
/// in referrals) only when the request had DO, AD only when the request had
/// AD or DO (RFC 3225 §3, RFC 4035 §3.1.4/§3.2.3, RFC 6840 §5.7). `sloppy`
/// drops both restrictions.
pub fn build_response(spec: &RespSpec, q: &ReqSeen, s: u16, sloppy: bool) -> Result<Vec<u8>, u8> {
    if let Kind::Transport(sel) = spec.kind {
        return Err(sel);
    }
    let zone: Vec<Vec<u8>> = q.name_lower[q.name_lower.len().saturating_sub(2)..].to_vec();
    let owner = q.name_lower.clone();
    let dnssec = spec.signed && (q.dok || sloppy);
    let ad = spec.ad && (q.ad || q.dok || sloppy);
    let mut recs: Vec<Rec> = vec![];
    let mut rcode: u16 = 0;
    // extended rcode: upper 8 bits travel in the OPT TTL, the header keeps
    // the low nibble of whatever the message shape dictates
    let mut ext: u32 = if q.has_opt { spec.ext_hi as u32 } else { 0 };
    let push_sig = |recs: &mut Vec<Rec>, sec: usize, owner: &Vec<Vec<u8>>, covered: u16, orig: u32, i: u8| {
        if dnssec {
            recs.push(Rec { sec, owner: owner.clone(), rtype: T_RRSIG, ttl: spec.ttl_sig, rdata: rrsig_rdata(covered, orig, s, i, &zone) });
        }
    };
    let negative = |recs: &mut Vec<Rec>, with_soa: bool| {
        if with_soa {
            recs.push(Rec { sec: 2, owner: zone.clone(), rtype: 6, ttl: spec.ttl_auth, rdata: soa_rdata(s, spec.soa_min, &zone) });
            push_sig(recs, 2, &zone, 6, spec.ttl_auth, 0);
        }
        if dnssec {
            if spec.alt {
                let o = sub("0p9mhaveqvm6t7vbl5lop2u3t2rp3tom".into(), &zone);
                recs.push(Rec { sec: 2, owner: o.clone(), rtype: T_NSEC3, ttl: spec.ttl_neg, rdata: nsec3_rdata(s) });
                push_sig(recs, 2, &o, T_NSEC3, spec.ttl_neg, 1);
            } else {
                let mut r = wname(&sub(format!("zz{s}"), &zone));
                r.extend_from_slice(&[0, 1, 0x40]);
                recs.push(Rec { sec: 2, owner: owner.clone(), rtype: T_NSEC, ttl: spec.ttl_neg, rdata: r });
                push_sig(recs, 2, &owner, T_NSEC, spec.ttl_neg, 1);
            }
        }
    };
    let answers = |recs: &mut Vec<Rec>, at: &Vec<Vec<u8>>| {
        let mut covered = q.qtype;
        for i in 0..spec.n_ans {
            let (t, rd) = ans_rdata(q.qtype, i, s, &zone);
            covered = t;
            recs.push(Rec { sec: 1, owner: at.clone(), rtype: t, ttl: spec.ttl_ans[i as usize % 3], rdata: rd });
        }
        push_sig(recs, 1, at, covered, spec.ttl_ans[0], 2);
    };
    match &spec.kind {
        Kind::Positive => {
            answers(&mut recs, &owner);
            if spec.auth_ns {
                recs.push(Rec { sec: 2, owner: zone.clone(), rtype: 2, ttl: spec.ttl_auth, rdata: wname(&sub(format!("ns0-{s}"), &zone)) });
                push_sig(&mut recs, 2, &zone, 2, spec.ttl_auth, 3);
            }
        }
        Kind::Cname { len, dangling } => {
            let mut at = owner.clone();
            for k in 0..*len {
                let target = sub(format!("c{k}-{s}"), &zone);
                recs.push(Rec { sec: 1, owner: at.clone(), rtype: 5, ttl: spec.ttl_ans[k as usize % 3], rdata: wname(&target) });
                push_sig(&mut recs, 1, &at, 5, spec.ttl_ans[k as usize % 3], 4 + k);
                at = target;
            }
            if *dangling {
                negative(&mut recs, true);
            } else {
                answers(&mut recs, &at);
            }
        }
        Kind::NoDataSoa => negative(&mut recs, true),
        Kind::NoDataBare => negative(&mut recs, false),
        Kind::NxSoa => {
            rcode = 3;
            negative(&mut recs, true);
        }
        Kind::NxNoSoa => {
            rcode = 3;
            negative(&mut recs, false);
        }
        Kind::Referral => {
            for i in 0..spec.n_ans {
                recs.push(Rec {
                    sec: 2,
                    owner: owner.clone(),
                    rtype: 2,
                    ttl: spec.ttl_ans[i as usize % 3],
                    rdata: wname(&sub(format!("ns{i}-{s}"), &owner)),
                });
            }
            if dnssec {
                if spec.alt {
                    let mut r = wname(&sub(format!("zz{s}"), &zone));
                    r.extend_from_slice(&[0, 1, 0x20]);
                    recs.push(Rec { sec: 2, owner: owner.clone(), rtype: T_NSEC, ttl: spec.ttl_neg, rdata: r });
                    push_sig(&mut recs, 2, &owner, T_NSEC, spec.ttl_neg, 1);
                } else {
                    let (_, rd) = ans_rdata(T_DS, 7, s, &zone);
                    recs.push(Rec { sec: 2, owner: owner.clone(), rtype: T_DS, ttl: spec.ttl_neg, rdata: rd });
                    push_sig(&mut recs, 2, &owner, T_DS, spec.ttl_neg, 1);
                }
            }
        }
        Kind::Rcode(sel) => {
            // SERVFAIL REFUSED FORMERR NOTIMP YXDOMAIN NOTAUTH BADVERS
            let code: u16 = [2, 5, 1, 4, 6, 9, 16][*sel as usize % 7];
            if code == 16 {
                if q.has_opt {
                    ext = 1;
                } else {
                    rcode = 2;
                }
            } else {
                rcode = code;
            }
        }
        Kind::Transport(_) => unreachable!(),
    }
    // A zone that is not signed as far as this response shows, but whose
    // response to a DO query still carries a DS (delegation point data) and
    // not a single RRSIG/NSEC/NSEC3: the DS is the only DNSSEC record. Uses
    // the `alt` bit, which has no other meaning for unsigned templates.
    if !spec.signed && spec.alt && (q.dok || sloppy) {
        let (_, rd) = ans_rdata(T_DS, 8, s, &zone);
        let sec = if spec.glue && !matches!(spec.kind, Kind::Referral) { 3 } else { 2 };
        recs.push(Rec { sec, owner: owner.clone(), rtype: T_DS, ttl: spec.ttl_neg, rdata: rd });
    }
    if spec.glue {
        let o = sub(format!("ns0-{s}"), &zone);
        recs.push(Rec { sec: 3, owner: o.clone(), rtype: 1, ttl: spec.ttl_add, rdata: vec![192, 0, 2, (s & 0xff) as u8] });
        push_sig(&mut recs, 3, &o, 1, spec.ttl_add, 9);
    }
    // Records whose CLASS is not the question's (RDATA stays valid for the
    // type). Which records and which class is a function of the template and
    // of the serial number of the fetch, so it varies from fetch to fetch.
    let mut fclass = FOREIGN_CLASSES[(s as usize + spec.n_ans as usize) % FOREIGN_CLASSES.len()];
    if fclass == q.qclass {
        fclass = if q.qclass == 1 { 3 } else { 1 };
    }
    let mut class_of: Vec<u16> = vec![q.qclass; recs.len()];
    let one = |class_of: &mut Vec<u16>, k: usize| {
        if !class_of.is_empty() {
            let n = class_of.len();
            class_of[k % n] = fclass;
        }
    };
    match spec.foreign {
        1 => one(&mut class_of, s as usize / 7 + spec.n_ans as usize),
        2 => {
            let t = format!("fc-{s}");
            let mut rd = vec![t.len() as u8];
            rd.extend_from_slice(t.as_bytes());
            let sec = 1 + (s as usize / 7 + spec.n_ans as usize) % 3;
            let ttl = [spec.ttl_add, spec.ttl_ans[0], spec.ttl_neg][s as usize % 3];
            recs.push(Rec { sec, owner: vec![lab("version"), lab("bind")], rtype: 16, ttl, rdata: rd });
            class_of.push(fclass);
        }
        3 => {
            if s % 2 == 0 {
                class_of.iter_mut().for_each(|c| *c = fclass);
            } else {
                one(&mut class_of, s as usize / 2);
            }
        }
        _ => {}
    }
    let flags: u16 = 0x8000
        | (q.opcode as u16) << 11
        | (spec.aa as u16) << 10
        | (spec.tc as u16) << 9
        | (q.rd as u16) << 8
        | (spec.ra as u16) << 7
        | (ad as u16) << 5
        | (q.cd as u16) << 4
        | rcode;
    let mut a = Asm::new(s, flags);
    for (n, t, c) in &q.questions {
        a.question(n, *t, *c);
    }
    // records must be emitted in section order
    for sec in 1..=3 {
        for (r, class) in recs.iter().zip(class_of.iter()).filter(|(r, _)| r.sec == sec) {
            a.record(sec, &r.owner, r.rtype, *class, r.ttl, &r.rdata);
        }
    }
    if q.has_opt && (spec.with_opt || ext != 0) {
        let ttl = ext << 24 | if q.dok { 0x8000 } else { 0 };
        a.record(3, &[], T_OPT, 1232, ttl, &[]);
    }
    Ok(a.buf)
}
