use crate::engine::Prop;

pub mod c17;

pub fn all() -> Vec<Prop> {
    vec![c17::prop()]
}
