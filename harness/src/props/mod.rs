use crate::engine::Prop;

pub mod c01;
pub mod c02;
pub mod c03;
pub mod c04;
pub mod c05;
pub mod c06;
pub mod c07;
pub mod c08;
pub mod c09;
pub mod c10;
pub mod c11;
pub mod c12;
pub mod c13;
pub mod c14;
pub mod c15;
pub mod c16;
pub mod c17;
pub mod c18;
pub mod c19;
pub mod c20;

pub fn all() -> Vec<Prop> {
    let v: Vec<Option<Prop>> = vec![
        c01::prop().into(),
        c02::prop().into(),
        c03::prop().into(),
        c04::prop().into(),
        c05::prop().into(),
        c06::prop().into(),
        c07::prop().into(),
        c08::prop().into(),
        c09::prop().into(),
        c10::prop().into(),
        c11::prop().into(),
        c12::prop().into(),
        c13::prop().into(),
        c14::prop().into(),
        c15::prop().into(),
        c16::prop().into(),
        c17::prop().into(),
        c18::prop().into(),
        c19::prop().into(),
        c20::prop().into(),
    ];
    v.into_iter().flatten().collect()
}
