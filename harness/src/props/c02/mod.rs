//! C02 — built messages parse back to exactly what was pushed, under every
//! compressor and on every target.
//!
//! Stateful op-sequence PBT. A case is (target kind, compressor kind, op
//! list), decoded from bytes. The interpreter drives the real builder types
//! (`MessageBuilder` … `AdditionalBuilder`, `OptBuilder`) and a model (header
//! + list of the pushes that returned `Ok`). After every op the cheap
//! invariants are checked (failed push leaves octets unchanged, header and
//! counts equal the model, stream length prefix); on `Check` ops, while the
//! message is small, and at the end the octets are parsed by the independent
//! walker (`refimpl::wire`) and by the library's own reader and compared
//! with the model item by item.
use crate::engine::*;
use crate::gen::message as gm;
use crate::gen::name::{self as gn, Labels};
use crate::gen::rdata as grd;
use crate::gen::*;
use crate::refimpl::rdata as rr;
use crate::refimpl::wire;
use crate::{vensure, vfail};
use arbitrary::Unstructured;
use bytes::{Bytes, BytesMut};
use domain::base::iana::{Class, Opcode, OptRcode, OptionCode, Rcode, Rtype};
use domain::base::message::Message;
use domain::base::message_builder::{
    AdditionalBuilder, AnswerBuilder, AuthorityBuilder, HashCompressor, MessageBuilder, PushError, QuestionBuilder,
    RecordSectionBuilder, StaticCompressor, StreamTarget, TreeCompressor,
};
use domain::base::name::{Chain, FlattenInto, Name, ParsedName, RelativeName, ToName};
use domain::base::opt::{AllOptData, ComposeOptData, Opt, OptData, OptRecord};
use domain::base::question::ComposeQuestion;
use domain::base::rdata::{ComposeRecordData, UnknownRecordData};
use domain::base::record::ComposeRecord;
use domain::base::wire::Composer;
use domain::base::{Question, Record, Ttl};
use domain::rdata::AllRecordData;
use octseq::array::Array;
use octseq::builder::{OctetsBuilder, ShortBuf, Truncate};
use std::collections::BTreeMap;

//============ Targets =========================================================

/// Innermost target: a plain buffer or a `StreamTarget` around one.
trait Base: Composer + Clone {
    fn fresh(tk: u8) -> Self;
    fn is_stream(&self) -> bool;
    /// Largest message (without the stream prefix) the buffer can hold.
    fn cap(&self) -> Option<usize>;
    /// The complete stream slice (with prefix) for stream targets.
    fn stream_slice(&self) -> Option<&[u8]>;
    /// The message octets as the finished target exposes them.
    fn final_octets(&self) -> &[u8];
}

impl Base for Vec<u8> {
    fn fresh(_: u8) -> Self { Vec::new() }
    fn is_stream(&self) -> bool { false }
    fn cap(&self) -> Option<usize> { None }
    fn stream_slice(&self) -> Option<&[u8]> { None }
    fn final_octets(&self) -> &[u8] { self.as_ref() }
}
impl Base for BytesMut {
    fn fresh(_: u8) -> Self { BytesMut::new() }
    fn is_stream(&self) -> bool { false }
    fn cap(&self) -> Option<usize> { None }
    fn stream_slice(&self) -> Option<&[u8]> { None }
    fn final_octets(&self) -> &[u8] { self.as_ref() }
}
impl<const N: usize> Base for Array<N> {
    fn fresh(_: u8) -> Self { Array::new() }
    fn is_stream(&self) -> bool { false }
    fn cap(&self) -> Option<usize> { Some(N) }
    fn stream_slice(&self) -> Option<&[u8]> { None }
    fn final_octets(&self) -> &[u8] { self.as_slice() }
}
impl Base for StreamTarget<Vec<u8>> {
    fn fresh(_: u8) -> Self { StreamTarget::new_vec() }
    fn is_stream(&self) -> bool { true }
    fn cap(&self) -> Option<usize> { None }
    fn stream_slice(&self) -> Option<&[u8]> { Some(self.as_stream_slice()) }
    fn final_octets(&self) -> &[u8] { self.as_dgram_slice() }
}
impl Base for StreamTarget<BytesMut> {
    fn fresh(_: u8) -> Self { StreamTarget::new_bytes() }
    fn is_stream(&self) -> bool { true }
    fn cap(&self) -> Option<usize> { None }
    fn stream_slice(&self) -> Option<&[u8]> { Some(self.as_stream_slice()) }
    fn final_octets(&self) -> &[u8] { self.as_dgram_slice() }
}
impl<const N: usize> Base for StreamTarget<Array<N>> {
    fn fresh(_: u8) -> Self { StreamTarget::new(Array::new()).expect("array holds the length prefix") }
    fn is_stream(&self) -> bool { true }
    fn cap(&self) -> Option<usize> { Some(N - 2) }
    fn stream_slice(&self) -> Option<&[u8]> { Some(self.as_stream_slice()) }
    fn final_octets(&self) -> &[u8] { self.as_dgram_slice() }
}

/// All sixteen buffers behind one type. Instantiating the interpreter (and
/// with it the composition code of every record type) for 16 buffers x 4
/// compressors takes minutes to build, so most cells are reached through
/// this enum. It only forwards the five operations a target offers
/// (`append_slice`, `truncate`, `as_ref`, `as_mut`, `append_compressed_name`
/// / `can_compress`) to the real buffer or `StreamTarget`; the compressors
/// wrap it exactly as they would wrap the buffer itself. A handful of cells
/// is instantiated directly as well (see `run_dispatch`).
#[derive(Clone)]
enum DynBase {
    V(Vec<u8>),
    B(BytesMut),
    A512(Array<512>),
    SV(StreamTarget<Vec<u8>>),
    SB(StreamTarget<BytesMut>),
    SA512(StreamTarget<Array<512>>),
    A64(Array<64>),
    A1232(Array<1232>),
    A4096(Box<Array<4096>>),
    A20000(Box<Array<20000>>),
    A70000(Box<Array<70000>>),
    SA64(StreamTarget<Array<64>>),
    SA1232(StreamTarget<Array<1232>>),
    SA4096(Box<StreamTarget<Array<4096>>>),
    SA20000(Box<StreamTarget<Array<20000>>>),
    SA70000(Box<StreamTarget<Array<70000>>>),
}

/// `$x` is bound to `&mut`/`&` of the real target (boxes are dereferenced).
macro_rules! each_base {
    ($self:expr, $x:ident => $e:expr) => {
        match $self {
            DynBase::V($x) => $e,
            DynBase::B($x) => $e,
            DynBase::A512($x) => $e,
            DynBase::SV($x) => $e,
            DynBase::SB($x) => $e,
            DynBase::SA512($x) => $e,
            DynBase::A64($x) => $e,
            DynBase::A1232($x) => $e,
            DynBase::A4096($x) => { let $x = &mut **$x; $e }
            DynBase::A20000($x) => { let $x = &mut **$x; $e }
            DynBase::A70000($x) => { let $x = &mut **$x; $e }
            DynBase::SA64($x) => $e,
            DynBase::SA1232($x) => $e,
            DynBase::SA4096($x) => { let $x = &mut **$x; $e }
            DynBase::SA20000($x) => { let $x = &mut **$x; $e }
            DynBase::SA70000($x) => { let $x = &mut **$x; $e }
        }
    };
    (ref $self:expr, $x:ident => $e:expr) => {
        match $self {
            DynBase::V($x) => $e,
            DynBase::B($x) => $e,
            DynBase::A512($x) => $e,
            DynBase::SV($x) => $e,
            DynBase::SB($x) => $e,
            DynBase::SA512($x) => $e,
            DynBase::A64($x) => $e,
            DynBase::A1232($x) => $e,
            DynBase::A4096($x) => { let $x = &**$x; $e }
            DynBase::A20000($x) => { let $x = &**$x; $e }
            DynBase::A70000($x) => { let $x = &**$x; $e }
            DynBase::SA64($x) => $e,
            DynBase::SA1232($x) => $e,
            DynBase::SA4096($x) => { let $x = &**$x; $e }
            DynBase::SA20000($x) => { let $x = &**$x; $e }
            DynBase::SA70000($x) => { let $x = &**$x; $e }
        }
    };
}

impl OctetsBuilder for DynBase {
    type AppendError = ShortBuf;
    fn append_slice(&mut self, slice: &[u8]) -> Result<(), ShortBuf> {
        each_base!(self, x => x.append_slice(slice).map_err(Into::into))
    }
}
impl Truncate for DynBase {
    fn truncate(&mut self, len: usize) {
        each_base!(self, x => x.truncate(len))
    }
}
impl AsRef<[u8]> for DynBase {
    fn as_ref(&self) -> &[u8] {
        each_base!(ref self, x => AsRef::<[u8]>::as_ref(x))
    }
}
impl AsMut<[u8]> for DynBase {
    fn as_mut(&mut self) -> &mut [u8] {
        each_base!(self, x => AsMut::<[u8]>::as_mut(x))
    }
}
impl Composer for DynBase {
    fn append_compressed_name<N: ToName + ?Sized>(&mut self, name: &N) -> Result<(), ShortBuf> {
        each_base!(self, x => x.append_compressed_name(name).map_err(Into::into))
    }
    fn can_compress(&self) -> bool {
        each_base!(ref self, x => x.can_compress())
    }
}
impl Base for DynBase {
    fn fresh(tk: u8) -> Self {
        match tk {
            0 => DynBase::V(Base::fresh(tk)),
            1 => DynBase::B(Base::fresh(tk)),
            2 => DynBase::A512(Base::fresh(tk)),
            3 => DynBase::SV(Base::fresh(tk)),
            4 => DynBase::SB(Base::fresh(tk)),
            5 => DynBase::SA512(Base::fresh(tk)),
            6 => DynBase::A64(Base::fresh(tk)),
            7 => DynBase::A1232(Base::fresh(tk)),
            8 => DynBase::A4096(Box::new(Base::fresh(tk))),
            9 => DynBase::A20000(Box::new(Base::fresh(tk))),
            10 => DynBase::A70000(Box::new(Base::fresh(tk))),
            11 => DynBase::SA64(Base::fresh(tk)),
            12 => DynBase::SA1232(Base::fresh(tk)),
            13 => DynBase::SA4096(Box::new(Base::fresh(tk))),
            14 => DynBase::SA20000(Box::new(Base::fresh(tk))),
            _ => DynBase::SA70000(Box::new(Base::fresh(tk))),
        }
    }
    fn is_stream(&self) -> bool { each_base!(ref self, x => x.is_stream()) }
    fn cap(&self) -> Option<usize> { each_base!(ref self, x => x.cap()) }
    fn stream_slice(&self) -> Option<&[u8]> { each_base!(ref self, x => x.stream_slice()) }
    fn final_octets(&self) -> &[u8] { each_base!(ref self, x => x.final_octets()) }
}

/// What the message builder sits on: a base, possibly inside a compressor.
trait Top: Composer + Clone {
    type B: Base;
    fn wrap(b: Self::B) -> Self;
    fn base(&self) -> &Self::B;
    fn into_base(self) -> Self::B;
    /// `into_message()` where the target can be frozen (directly
    /// instantiated non-stream targets).
    fn into_message_octets(b: Bld<Self>) -> Option<Vec<u8>>;
}

macro_rules! into_msg_arm {
    (freeze, $b:ident) => {
        Some(match $b {
            Bld::M(x) => x.into_message().as_slice().to_vec(),
            Bld::Q(x) => x.into_message().as_slice().to_vec(),
            Bld::An(x) => x.into_message().as_slice().to_vec(),
            Bld::Au(x) => x.into_message().as_slice().to_vec(),
            Bld::Ad(x) => x.into_message().as_slice().to_vec(),
        })
    };
    (nofreeze, $b:ident) => {{
        let _ = $b;
        None
    }};
}

macro_rules! impl_top {
    ($mode:ident; $t:ty; $b:ty; $wrap:expr; $base:expr; $into:expr) => {
        impl Top for $t {
            type B = $b;
            fn wrap(b: $b) -> Self { $wrap(b) }
            fn base(&self) -> &$b { $base(self) }
            fn into_base(self) -> $b { $into(self) }
            fn into_message_octets(b: Bld<Self>) -> Option<Vec<u8>> { into_msg_arm!($mode, b) }
        }
    };
}
macro_rules! impl_top_all {
    ($mode:ident; $b:ty) => {
        impl_top!($mode; $b; $b; |b| b; |s| s; |s| s);
        impl_top!($mode; StaticCompressor<$b>; $b; StaticCompressor::new; StaticCompressor::as_target; StaticCompressor::into_target);
        impl_top!($mode; TreeCompressor<$b>; $b; TreeCompressor::new; TreeCompressor::as_target; TreeCompressor::into_target);
        impl_top!($mode; HashCompressor<$b>; $b; HashCompressor::new; HashCompressor::as_target; HashCompressor::into_target);
    };
}
impl_top_all!(nofreeze; DynBase);
impl_top_all!(freeze; Vec<u8>);
impl_top!(freeze; BytesMut; BytesMut; |b| b; |s| s; |s| s);
impl_top!(freeze; HashCompressor<BytesMut>; BytesMut; HashCompressor::new; HashCompressor::as_target; HashCompressor::into_target);
impl_top!(freeze; Array<512>; Array<512>; |b| b; |s| s; |s| s);
impl_top!(freeze; StaticCompressor<Array<512>>; Array<512>; StaticCompressor::new; StaticCompressor::as_target; StaticCompressor::into_target);
impl_top!(nofreeze; StreamTarget<Vec<u8>>; StreamTarget<Vec<u8>>; |b| b; |s| s; |s| s);
impl_top!(nofreeze; StaticCompressor<StreamTarget<Vec<u8>>>; StreamTarget<Vec<u8>>; StaticCompressor::new; StaticCompressor::as_target; StaticCompressor::into_target);
impl_top!(nofreeze; TreeCompressor<StreamTarget<Vec<u8>>>; StreamTarget<Vec<u8>>; TreeCompressor::new; TreeCompressor::as_target; TreeCompressor::into_target);

const KINDS: [(&str, &str); 16] = [
    ("Vec", "Vec"),
    ("BytesMut", "BytesMut"),
    ("Array", "Array<512>"),
    ("StreamVec", "Stream<Vec>"),
    ("StreamBytesMut", "Stream<BytesMut>"),
    ("StreamArray", "Stream<Array<512>>"),
    ("Array", "Array<64>"),
    ("Array", "Array<1232>"),
    ("Array", "Array<4096>"),
    ("Array", "Array<20000>"),
    ("Array", "Array<70000>"),
    ("StreamArray", "Stream<Array<64>>"),
    ("StreamArray", "Stream<Array<1232>>"),
    ("StreamArray", "Stream<Array<4096>>"),
    ("StreamArray", "Stream<Array<20000>>"),
    ("StreamArray", "Stream<Array<70000>>"),
];
/// Kinds able to hold more than 0x4000 octets (for the boundary family).
const BIG_KINDS: [u8; 8] = [0, 1, 3, 4, 9, 10, 14, 15];
const COMPS: [&str; 4] = ["none", "Static", "Tree", "Hash"];

/// Runs the script on the cell (tk, ck). `direct` asks for the directly
/// instantiated type where there is one.
fn run_dispatch(case: &Case, tk: u8, ck: u8, direct: bool) -> Result<(Out, bool), Violation> {
    if direct {
        let r = match (tk, ck) {
            (0, 0) => Some(run_script::<Vec<u8>>(case, tk)),
            (0, 1) => Some(run_script::<StaticCompressor<Vec<u8>>>(case, tk)),
            (0, 2) => Some(run_script::<TreeCompressor<Vec<u8>>>(case, tk)),
            (0, 3) => Some(run_script::<HashCompressor<Vec<u8>>>(case, tk)),
            (1, 0) => Some(run_script::<BytesMut>(case, tk)),
            (1, 3) => Some(run_script::<HashCompressor<BytesMut>>(case, tk)),
            (2, 0) => Some(run_script::<Array<512>>(case, tk)),
            (2, 1) => Some(run_script::<StaticCompressor<Array<512>>>(case, tk)),
            (3, 0) => Some(run_script::<StreamTarget<Vec<u8>>>(case, tk)),
            (3, 1) => Some(run_script::<StaticCompressor<StreamTarget<Vec<u8>>>>(case, tk)),
            (3, 2) => Some(run_script::<TreeCompressor<StreamTarget<Vec<u8>>>>(case, tk)),
            _ => None,
        };
        if let Some(r) = r {
            return r.map(|o| (o, true));
        }
    }
    match ck {
        0 => run_script::<DynBase>(case, tk),
        1 => run_script::<StaticCompressor<DynBase>>(case, tk),
        2 => run_script::<TreeCompressor<DynBase>>(case, tk),
        _ => run_script::<HashCompressor<DynBase>>(case, tk),
    }
    .map(|o| (o, false))
}

//============ The builder in all its type states ==============================

enum Bld<T> {
    M(MessageBuilder<T>),
    Q(QuestionBuilder<T>),
    An(AnswerBuilder<T>),
    Au(AuthorityBuilder<T>),
    Ad(AdditionalBuilder<T>),
}

macro_rules! go {
    ($b:expr, $dst:expr, $via:expr) => {
        match $dst {
            0 => Bld::M(if $via { $b.into() } else { $b.builder() }),
            1 => Bld::Q(if $via { $b.into() } else { $b.question() }),
            2 => Bld::An(if $via { $b.into() } else { $b.answer() }),
            3 => Bld::Au(if $via { $b.into() } else { $b.authority() }),
            _ => Bld::Ad(if $via { $b.into() } else { $b.additional() }),
        }
    };
}

impl<T: Top> Bld<T> {
    fn sec(&self) -> u8 {
        match self {
            Bld::M(_) => 0,
            Bld::Q(_) => 1,
            Bld::An(_) => 2,
            Bld::Au(_) => 3,
            Bld::Ad(_) => 4,
        }
    }
    fn mb(&self) -> &MessageBuilder<T> {
        match self {
            Bld::M(b) => b,
            Bld::Q(b) => b.as_builder(),
            Bld::An(b) => b.as_builder(),
            Bld::Au(b) => b.as_builder(),
            Bld::Ad(b) => b.as_builder(),
        }
    }
    fn mb_mut(&mut self) -> &mut MessageBuilder<T> {
        match self {
            Bld::M(b) => b,
            Bld::Q(b) => b.as_builder_mut(),
            Bld::An(b) => b.as_builder_mut(),
            Bld::Au(b) => b.as_builder_mut(),
            Bld::Ad(b) => b.as_builder_mut(),
        }
    }
    fn goto(self, dst: u8, via: bool) -> Self {
        match self {
            Bld::M(b) => go!(b, dst, via),
            Bld::Q(b) => go!(b, dst, via),
            Bld::An(b) => go!(b, dst, via),
            Bld::Au(b) => go!(b, dst, via),
            Bld::Ad(b) => go!(b, dst, via),
        }
    }
    /// false if there is nothing to rewind in this state
    fn rewind(&mut self) -> bool {
        match self {
            Bld::M(_) => return false,
            Bld::Q(b) => b.rewind(),
            Bld::An(b) => b.rewind(),
            Bld::Au(b) => b.rewind(),
            Bld::Ad(b) => b.rewind(),
        }
        true
    }
    fn push_q(&mut self, q: impl ComposeQuestion, by_ref: bool) -> Result<(), PushError> {
        match self {
            Bld::Q(b) => {
                if by_ref {
                    b.push(&q)
                } else {
                    b.push(q)
                }
            }
            _ => unreachable!("push_q outside the question section"),
        }
    }
    fn push_r(&mut self, r: impl ComposeRecord, by_ref: bool, via_trait: bool) -> Result<(), PushError> {
        if via_trait {
            // generic code that only knows "some record section"
            return match self {
                Bld::An(b) => push_generic(b, r, by_ref),
                Bld::Au(b) => push_generic(b, r, by_ref),
                Bld::Ad(b) => push_generic(b, r, by_ref),
                _ => unreachable!("push_r outside a record section"),
            };
        }
        match self {
            Bld::An(b) => {
                if by_ref {
                    b.push_ref(&r)
                } else {
                    b.push(r)
                }
            }
            Bld::Au(b) => {
                if by_ref {
                    b.push(&r)
                } else {
                    b.push(r)
                }
            }
            Bld::Ad(b) => {
                if by_ref {
                    b.push(&r)
                } else {
                    b.push(r)
                }
            }
            _ => unreachable!("push_r outside a record section"),
        }
    }
    fn finish(self) -> T {
        match self {
            Bld::M(b) => b.finish(),
            Bld::Q(b) => b.finish(),
            Bld::An(b) => b.finish(),
            Bld::Au(b) => b.finish(),
            Bld::Ad(b) => b.finish(),
        }
    }
    fn clone_b(&self) -> Self {
        match self {
            Bld::M(b) => Bld::M(b.clone()),
            Bld::Q(b) => Bld::Q(b.clone()),
            Bld::An(b) => Bld::An(b.clone()),
            Bld::Au(b) => Bld::Au(b.clone()),
            Bld::Ad(b) => Bld::Ad(b.clone()),
        }
    }
}

/// Pushes through the `RecordSectionBuilder` trait, the way code does that
/// is generic over the record section.
fn push_generic<T: Composer, S: RecordSectionBuilder<T>>(section: &mut S, r: impl ComposeRecord, by_ref: bool) -> Result<(), PushError> {
    if by_ref {
        section.push(&r)
    } else {
        RecordSectionBuilder::push(section, r)
    }
}

//============ Case ============================================================

#[derive(Clone, Debug, Hash, PartialEq, Eq)]
struct Rec {
    owner: Labels,
    rtype: u16,
    class: u16,
    ttl: u32,
    rdata: Vec<u8>, // uncompressed wire form
}

#[derive(Clone, Debug, Hash, PartialEq, Eq)]
struct Quest {
    name: Labels,
    qtype: u16,
    qclass: u16,
}

/// `OptBuilder::clone_from` inside an `opt()` closure: the source record and
/// what is done to the builder after it.
#[derive(Clone, Debug, Hash)]
struct CloneSrc {
    udp: u16,
    /// the complete TTL field of the source (ext rcode, version, all flags)
    ttl: u32,
    options: Vec<u8>,
    /// source via `Message::opt()` of a parsed message, else `OptRecord::from_record`
    from_message: bool,
    after_udp: Option<u16>,
    after_version: Option<u8>,
    after_dok: Option<bool>,
    after_rcode: Option<u16>,
    after_options: Vec<u8>,
}

#[derive(Clone, Debug, Hash)]
enum Op {
    Header { id: u16, flags: u16 },
    Goto { dst: u8, via_from: bool },
    PushQ { q: Quest, form: u8, force: bool },
    PushR { r: Rec, form: u8, via_trait: bool },
    /// one large record so that the write position reaches a boundary
    Pad { goal: u8, delta: i16, rtype: u16, owner: Labels, form: u8, via_trait: bool },
    Opt { udp: u16, version: u8, dok: bool, rcode: Option<u16>, options: Vec<u8>, typed: bool, clone: Option<CloneSrc> },
    Rewind,
    SetLimit { kind: u8, val: u16 },
    ClearLimit,
    Start { error: bool, id: u16, flags: u16, rcode: u8, qs: Vec<Quest> },
    Check,
}

#[derive(Clone, Debug, Hash)]
struct Case {
    tk: u8,
    ck: u8,
    direct: bool,
    ops: Vec<Op>,
}

const COMPRESSIBLE: [u16; 11] = [rr::NS, rr::CNAME, rr::SOA, rr::MX, rr::PTR, rr::MINFO, rr::MB, rr::MG, rr::MR, rr::MD, rr::MF];

fn gen_owner(u: &mut Unstructured, pool: &[Labels], plain: bool) -> Labels {
    match pick(u, 8) {
        0..=5 => pool[pick(u, pool.len())].clone(),
        6 => {
            // fresh child of a pool name
            let mut c = pool[pick(u, pool.len())].clone();
            let room = 255usize.saturating_sub(gn::wire_len(&c) + 1).min(63);
            if room > 0 {
                c.insert(0, gn::label(u, room.min(10), plain));
            }
            c
        }
        _ => gn::name(u, plain),
    }
}

fn gen_rec(u: &mut Unstructured, pool: &[Labels], plain: bool) -> Rec {
    let rtype = if chance(u, 120) {
        COMPRESSIBLE[pick(u, COMPRESSIBLE.len())]
    } else {
        match grd::rtype(u, false) {
            rr::OPT => rr::TXT,
            t => t,
        }
    };
    let owner = gen_owner(u, pool, plain);
    let class = gm::class(u);
    let ttl = gm::ttl(u);
    let rdata = grd::rdata(u, rtype, pool, grd::Opts { plain_names: plain, max_blob: 120 });
    Rec { owner, rtype, class, ttl, rdata }
}

fn gen_quest(u: &mut Unstructured, pool: &[Labels], plain: bool) -> Quest {
    let name = gen_owner(u, pool, plain);
    let qtype = match pick(u, 4) {
        0 => [1u16, 28, 255, 252, 251, 6][pick(u, 6)],
        _ => grd::rtype(u, false),
    };
    Quest { name, qtype, qclass: gm::class(u) }
}

fn gen_op(u: &mut Unstructured, pool: &[Labels], plain: bool, ops: &mut Vec<Op>) {
    match pick(u, 32) {
        0..=9 | 27..=31 => ops.push(Op::PushR { r: gen_rec(u, pool, plain), form: pick(u, 6) as u8, via_trait: chance(u, 96) }),
        10..=12 => ops.push(Op::PushQ { q: gen_quest(u, pool, plain), form: pick(u, 5) as u8, force: chance(u, 64) }),
        13..=15 => ops.push(Op::Goto { dst: pick(u, 5) as u8, via_from: flag(u) }),
        16 => ops.push(Op::Rewind),
        17 | 18 => ops.push(gen_pad(u, pool, None)),
        19 | 20 => {
            let options = if chance(u, 64) { vec![] } else { grd::rdata(u, rr::OPT, &[], grd::Opts::default()) };
            ops.push(Op::Opt {
                udp: [0u16, 512, 1232, 4096, 65535][pick(u, 5)],
                version: if chance(u, 200) { 0 } else { byte(u) },
                dok: flag(u),
                rcode: if chance(u, 100) { Some(u16_(u) & 0x0FFF) } else { None },
                options,
                typed: flag(u),
                clone: if chance(u, 90) { Some(gen_clone(u)) } else { None },
            })
        }
        21 => ops.push(Op::SetLimit { kind: pick(u, 5) as u8, val: u16_(u) }),
        22 => ops.push(Op::ClearLimit),
        23 => ops.push(Op::Header { id: u16_(u), flags: u16_(u) }),
        24 => ops.push(Op::Check),
        25 => {
            // burst: many small records with distinct names (fills the static
            // compressor's table, many hash/tree entries)
            let big = chance(u, 32);
            let n = 1 + pick(u, if big { 300 } else { 40 });
            let base = pool[pick(u, pool.len())].clone();
            let kind = pick(u, 3);
            let form = pick(u, 6) as u8;
            let via_trait = chance(u, 96);
            for i in 0..n {
                let mut owner = base.clone();
                if gn::wire_len(&owner) + 6 <= 255 {
                    owner.insert(0, format!("n{}", i % 97).into_bytes());
                }
                let (rtype, rdata) = match kind {
                    0 => (rr::A, vec![192, 0, 2, i as u8]),
                    1 => {
                        let mut t = base.clone();
                        if gn::wire_len(&t) + 6 <= 255 {
                            t.insert(0, format!("m{}", i % 89).into_bytes());
                        }
                        (rr::NS, gn::to_wire(&t))
                    }
                    _ => {
                        let mut rd = vec![0, (i % 7) as u8];
                        rd.extend(gn::to_wire(&owner));
                        (rr::MX, rd)
                    }
                };
                ops.push(Op::PushR { r: Rec { owner, rtype, class: 1, ttl: 300, rdata }, form, via_trait });
            }
        }
        _ => {
            let nq = pick(u, 3);
            let qs = (0..nq).map(|_| gen_quest(u, pool, plain)).collect();
            ops.push(Op::Start { error: flag(u), id: u16_(u), flags: u16_(u), rcode: byte(u) & 0xF, qs })
        }
    }
}

fn gen_clone(u: &mut Unstructured) -> CloneSrc {
    let ttl = match pick(u, 6) {
        0 => [0u32, 0x8000, 0x4000, 0xC000, 0x0001, 0x7FFF, 0xFFFF, 0x0100_4000, 0xFF00_0000, 0x00FF_0000][pick(u, 10)],
        1 => (u16_(u) as u32) & 0x7FFF,
        2 => 1u32 << pick(u, 32),
        _ => u32_(u),
    };
    let options = if chance(u, 64) { vec![] } else { grd::rdata(u, rr::OPT, &[], grd::Opts::default()) };
    let from_message = flag(u);
    let modify = chance(u, 100);
    CloneSrc {
        udp: if flag(u) { [0u16, 512, 1232, 4096, 65535][pick(u, 5)] } else { u16_(u) },
        ttl,
        options,
        from_message,
        after_udp: if modify && flag(u) { Some(u16_(u)) } else { None },
        after_version: if modify && flag(u) { Some(byte(u)) } else { None },
        after_dok: if modify && flag(u) { Some(flag(u)) } else { None },
        after_rcode: if modify && chance(u, 64) { Some(u16_(u) & 0x0FFF) } else { None },
        after_options: if modify && flag(u) { grd::rdata(u, rr::OPT, &[], grd::Opts::default()) } else { vec![] },
    }
}

fn gen_pad(u: &mut Unstructured, pool: &[Labels], goal: Option<u8>) -> Op {
    let goal = goal.unwrap_or_else(|| pick(u, 8) as u8);
    let delta = match pick(u, 4) {
        0 => [0i16, -1, 1, -2, 2, -3, 3][pick(u, 7)],
        1 => [-12i16, 12, -20, 20, -40, 40, -64, 64][pick(u, 8)],
        2 => -(pick(u, 300) as i16),
        _ => pick(u, 300) as i16,
    };
    let rtype = [rr::NULL, rr::TXT, 65280u16][pick(u, 3)];
    let owner = if flag(u) { vec![] } else { pool[pick(u, pool.len())].clone() };
    Op::Pad { goal, delta, rtype, owner, form: pick(u, 3) as u8, via_trait: chance(u, 64) }
}

fn decode(data: &[u8], boundary: bool) -> Case {
    let mut u = Unstructured::new(data);
    let u = &mut u;
    let tk = if boundary { BIG_KINDS[pick(u, BIG_KINDS.len())] } else { pick(u, KINDS.len()) as u8 };
    let ck = pick(u, 4) as u8;
    let direct = flag(u);
    let plain = !chance(u, 80);
    let pn = 2 + pick(u, 7);
    let pool = gn::pool(u, pn, plain);
    let max_ops = if chance(u, 16) { 400 } else { 40 };
    let mut ops = vec![];
    if boundary {
        // a few early items, then a pad to the 0x4000 region, then names that
        // are first written beyond it and used again
        for _ in 0..pick(u, 3) {
            gen_op(u, &pool, plain, &mut ops);
        }
        let goal = if chance(u, 200) { 1 } else { 2 + pick(u, 3) as u8 };
        ops.push(gen_pad(u, &pool, Some(goal)));
        let n = 2 + pick(u, 10);
        for _ in 0..n {
            if chance(u, 200) {
                ops.push(Op::PushR { r: gen_rec(u, &pool, plain), form: pick(u, 6) as u8, via_trait: chance(u, 96) });
            } else {
                gen_op(u, &pool, plain, &mut ops);
            }
        }
        if chance(u, 100) {
            ops.push(gen_pad(u, &pool, Some(5)));
            for _ in 0..pick(u, 6) {
                gen_op(u, &pool, plain, &mut ops);
            }
        }
    } else {
        let nops = pick(u, max_ops + 1);
        while ops.len() < nops {
            gen_op(u, &pool, plain, &mut ops);
        }
    }
    Case { tk, ck, direct, ops }
}

fn show_case(c: &Case) -> String {
    let mut s = format!("{} x {}:", KINDS[c.tk as usize].1, COMPS[c.ck as usize]);
    for op in c.ops.iter().take(24) {
        s.push(' ');
        match op {
            Op::Header { id, flags } => s.push_str(&format!("hdr({id:#x},{flags:#x})")),
            Op::Goto { dst, via_from } => s.push_str(&format!("goto{}({})", if *via_from { "-from" } else { "" }, ["builder", "question", "answer", "authority", "additional"][*dst as usize])),
            Op::PushQ { q, .. } => s.push_str(&format!("q({} {})", gn::show(&q.name), rr::mnemonic(q.qtype))),
            Op::PushR { r, form, via_trait } => s.push_str(&format!("rr({} {} len={} f{form}{})", gn::show(&r.owner), rr::mnemonic(r.rtype), r.rdata.len(), if *via_trait { " trait" } else { "" })),
            Op::Pad { goal, delta, .. } => s.push_str(&format!("pad(goal{goal}{delta:+})")),
            Op::Opt { options, rcode, clone, .. } => {
                s.push_str(&format!("opt(len={} rcode={rcode:?}", options.len()));
                if let Some(c) = clone {
                    s.push_str(&format!(" clone_from(udp={} ttl={:#x} len={}{})", c.udp, c.ttl, c.options.len(), if c.after_udp.is_some() || c.after_version.is_some() || c.after_dok.is_some() || c.after_rcode.is_some() || !c.after_options.is_empty() { " then-modified" } else { "" }));
                }
                s.push(')');
            }
            Op::Rewind => s.push_str("rewind"),
            Op::SetLimit { kind, val } => s.push_str(&format!("limit(k{kind},{val})")),
            Op::ClearLimit => s.push_str("nolimit"),
            Op::Start { error, qs, .. } => s.push_str(&format!("start_{}({}q)", if *error { "error" } else { "answer" }, qs.len())),
            Op::Check => s.push_str("check"),
        }
    }
    if c.ops.len() > 24 {
        s.push_str(&format!(" … ({} ops)", c.ops.len()));
    }
    s
}

//============ Model ===========================================================

#[derive(Clone, Default)]
struct Model {
    id: u16,
    flags: u16,
    qs: Vec<Quest>,
    /// (section 1..=3, record)
    rs: Vec<(u8, Rec)>,
    limit: Option<usize>,
}

impl Model {
    fn counts(&self) -> [u16; 4] {
        let mut c = [self.qs.len() as u16, 0, 0, 0];
        for (s, _) in &self.rs {
            c[*s as usize] += 1;
        }
        c
    }
    /// Builder state `dst` (0 builder … 4 additional) was entered: everything
    /// in later sections is gone; entering the bare builder drops questions.
    fn entered(&mut self, dst: u8) -> usize {
        let before = self.qs.len() + self.rs.len();
        if dst == 0 {
            self.qs.clear();
        }
        let keep_up_to = dst.saturating_sub(1); // record sections 1..=3 kept if <= dst-1
        self.rs.retain(|(s, _)| *s <= keep_up_to && dst >= 2);
        before - (self.qs.len() + self.rs.len())
    }
    fn rewound(&mut self, state: u8) -> usize {
        let before = self.qs.len() + self.rs.len();
        if state == 1 {
            self.qs.clear();
        } else {
            self.rs.retain(|(s, _)| *s != state - 1);
        }
        before - (self.qs.len() + self.rs.len())
    }
    /// Uncompressed reference composition (independent assembler).
    fn assemble(&self) -> Vec<u8> {
        let mut a = wire::Asm::new(self.id, self.flags);
        for q in &self.qs {
            a.question(&q.name, q.qtype, q.qclass);
        }
        for (s, r) in &self.rs {
            a.record(*s as usize, &r.owner, r.rtype, r.class, r.ttl, &r.rdata);
        }
        a.buf
    }
}

fn rec_size(r: &Rec) -> usize {
    gn::wire_len(&r.owner) + 10 + r.rdata.len()
}

fn name_eq(a: &[Vec<u8>], b: &[Vec<u8>], ci: bool) -> bool {
    a.len() == b.len()
        && a.iter().zip(b).all(|(x, y)| if ci { x.len() == y.len() && x.eq_ignore_ascii_case(y) } else { x == y })
}

/// RDATA equality: exact, except that under a compressor the octets of
/// embedded names may differ in ASCII case (label structure must be equal;
/// a length octet is < 0x40 and therefore never a letter).
fn rdata_eq(rtype: u16, want: &[u8], got: &[u8], ci: bool) -> bool {
    if want == got {
        return true;
    }
    if !ci || want.len() != got.len() {
        return false;
    }
    let spans = rr::name_spans(rtype, want);
    let mut pos = 0;
    for (off, len, _, _) in spans {
        if want[pos..off] != got[pos..off] {
            return false;
        }
        if !want[off..off + len].eq_ignore_ascii_case(&got[off..off + len]) {
            return false;
        }
        pos = off + len;
    }
    want[pos..] == got[pos..]
}

fn hex(b: &[u8]) -> String {
    let mut s = String::new();
    for x in b.iter().take(48) {
        s.push_str(&format!("{x:02x}"));
    }
    if b.len() > 48 {
        s.push_str(&format!("…({} octets)", b.len()));
    }
    s
}

//============ Statistics of one run ===========================================

#[derive(Default)]
struct Stats {
    classes: Vec<String>,
    ok: u32,
    failed: u32,
    failed_then_ok: bool,
    last_failed: bool,
    dropped: usize,
    max_len: usize,
    pointers: u32,
    outcomes: Vec<u8>,
}
impl Stats {
    fn class(&mut self, c: &str) {
        if !self.classes.iter().any(|x| x == c) {
            self.classes.push(c.to_string());
        }
    }
    fn pushed(&mut self, ok: bool) {
        self.outcomes.push(ok as u8);
        if ok {
            self.ok += 1;
            if self.last_failed {
                self.failed_then_ok = true;
            }
            self.last_failed = false;
        } else {
            self.failed += 1;
            self.last_failed = true;
        }
    }
}

//============ Full check: walker + library reader vs model ====================

fn check_full(oct: &[u8], m: &Model, comp: bool, tag: &str, st: &mut Stats) -> CaseResult {
    let sfx = if comp && oct.len() > 0x4000 { ":compressed-msg-beyond-0x4000" } else { "" };
    let sig = |k: &str| format!("{tag}:{k}{sfx}");
    let ci = comp;
    let counts = m.counts();

    //--- independent walker
    let Some(w) = wire::walk(oct) else { vfail!(sig("walker-short-header"), "message has {} octets", oct.len()) };
    vensure!(w.header.id == m.id && w.header.flags == m.flags, sig("header-differs"), "header id/flags {:#x}/{:#x}, model {:#x}/{:#x}", w.header.id, w.header.flags, m.id, m.flags);
    vensure!(w.header.counts == counts, sig("counts-differ-from-model"), "header counts {:?}, successful pushes per section {:?}", w.header.counts, counts);
    if let Some((idx, e)) = &w.error {
        vfail!(sig("walker-cannot-parse"), "independent walker fails at item {idx} with {e:?} (message {} octets, {} items pushed)", oct.len(), m.qs.len() + m.rs.len());
    }
    for (i, (g, q)) in w.questions.iter().zip(&m.qs).enumerate() {
        vensure!(name_eq(&g.name, &q.name, ci), sig("question-name-differs"), "question {i} at offset {:#x}: read back {} but {} was pushed", g.start, gn::show(&g.name), gn::show(&q.name));
        vensure!(g.qtype == q.qtype && g.qclass == q.qclass, sig("question-fields-differ"), "question {i}: type/class {}/{} pushed {}/{}", g.qtype, g.qclass, q.qtype, q.qclass);
        st.pointers += g.flags_ptrs;
    }
    for (i, (g, (s, r))) in w.records.iter().zip(&m.rs).enumerate() {
        vensure!(g.section == *s, sig("record-in-wrong-section"), "record {i}: in section {} but pushed to {}", g.section, s);
        match &g.owner {
            Ok(o) => vensure!(name_eq(o, &r.owner, ci), sig("owner-name-differs"), "record {i} ({}) at offset {:#x}: owner reads back as {} but {} was pushed", rr::mnemonic(r.rtype), g.start, gn::show(o), gn::show(&r.owner)),
            Err(e) => vfail!(sig("owner-name-unreadable"), "record {i} at offset {:#x}: owner can not be decompressed ({e:?}); pushed {}", g.start, gn::show(&r.owner)),
        }
        st.pointers += g.owner_ptrs;
        vensure!(g.rtype == r.rtype && g.class == r.class && g.ttl == r.ttl, sig("record-fields-differ"), "record {i}: type/class/ttl {}/{}/{} pushed {}/{}/{}", g.rtype, g.class, g.ttl, r.rtype, r.class, r.ttl);
        match wire::rdata_normal(oct, g) {
            Ok((rd, fl)) => {
                st.pointers += fl.pointers;
                vensure!(rdata_eq(r.rtype, &r.rdata, &rd, ci), sig("rdata-differs"), "record {i} ({}) at offset {:#x}: RDATA (names decompressed) reads back as {} but {} was pushed", rr::mnemonic(r.rtype), g.start, hex(&rd), hex(&r.rdata));
            }
            Err(e) => vfail!(sig("rdata-unreadable"), "record {i} ({}) at offset {:#x}: RDATA can not be walked ({e:?}); RDLENGTH {} ; pushed {}", rr::mnemonic(r.rtype), g.start, g.rd_end - g.rd_start, hex(&r.rdata)),
        }
    }
    vensure!(w.end == oct.len(), sig("trailing-octets"), "items end at {} but the message has {} octets", w.end, oct.len());

    //--- size / octet relation to the uncompressed composition
    let asm = m.assemble();
    if !comp {
        vensure!(oct == &asm[..], sig("octets-differ-from-uncompressed-composition"), "no compressor, but the octets differ from header + concatenated uncompressed items (lengths {} vs {})", oct.len(), asm.len());
    } else {
        vensure!(oct.len() <= asm.len(), sig("compressed-longer-than-uncompressed"), "compressed message has {} octets, uncompressed composition {}", oct.len(), asm.len());
    }

    //--- the library's own reader
    let msg = match Message::from_octets(oct) {
        Ok(m) => m,
        Err(_) => vfail!(sig("lib-reader-rejects-message"), "Message::from_octets fails"),
    };
    let hc = msg.header_counts();
    vensure!([hc.qdcount(), hc.ancount(), hc.nscount(), hc.arcount()] == counts, sig("counts-differ-from-model"), "library reader sees counts that differ from the model");
    let mut n = 0;
    for q in msg.question() {
        let q = match q {
            Ok(q) => q,
            Err(e) => vfail!(sig("lib-reader-question-error"), "question {n}: {e}"),
        };
        vensure!(n < m.qs.len(), sig("lib-reader-extra-question"), "more questions than pushed");
        let want = &m.qs[n];
        let got = gn::from_name(q.qname());
        vensure!(name_eq(&got, &want.name, ci), sig("lib-reader-question-name-differs"), "question {n}: library reads {} but {} was pushed", gn::show(&got), gn::show(&want.name));
        vensure!(q.qtype().to_int() == want.qtype && q.qclass().to_int() == want.qclass, sig("lib-reader-question-fields-differ"), "question {n}");
        n += 1;
    }
    vensure!(n == m.qs.len(), sig("lib-reader-missing-question"), "library reads {n} questions, {} pushed", m.qs.len());
    let mut idx = 0usize;
    let mut section = match msg.answer() {
        Ok(s) => s,
        Err(e) => vfail!(sig("lib-reader-answer-error"), "answer(): {e}"),
    };
    for secno in 1u8..=3 {
        for r in section.by_ref() {
            let pr = match r {
                Ok(r) => r,
                Err(e) => vfail!(sig("lib-reader-record-error"), "record {idx} in section {secno}: {e}"),
            };
            vensure!(idx < m.rs.len(), sig("lib-reader-extra-record"), "more records than pushed");
            let (s, want) = &m.rs[idx];
            vensure!(*s == secno, sig("lib-reader-record-in-wrong-section"), "record {idx}: section {secno}, pushed to {s}");
            let got = gn::from_name(&pr.owner());
            vensure!(name_eq(&got, &want.owner, ci), sig("lib-reader-owner-name-differs"), "record {idx}: library reads owner {} but {} was pushed", gn::show(&got), gn::show(&want.owner));
            vensure!(pr.rtype().to_int() == want.rtype && pr.class().to_int() == want.class && pr.ttl().as_secs() == want.ttl, sig("lib-reader-record-fields-differ"), "record {idx}");
            match pr.to_any_record::<AllRecordData<_, ParsedName<_>>>() {
                Ok(rec) => {
                    let mut v = Vec::new();
                    if rec.data().compose_rdata(&mut v).is_ok() {
                        vensure!(rdata_eq(want.rtype, &want.rdata, &v, ci), sig("lib-reader-rdata-differs"), "record {idx} ({}): library reads RDATA {} but {} was pushed", rr::mnemonic(want.rtype), hex(&v), hex(&want.rdata));
                    }
                }
                Err(_) => {
                    // The typed parser refuses this RDATA. Whether it should
                    // is the business of C05; the walker compared it above.
                    st.class("final-record-not-parsable-as-typed-data");
                }
            }
            idx += 1;
        }
        if secno < 3 {
            section = match section.next_section() {
                Ok(Some(s)) => s,
                Ok(None) => vfail!(sig("lib-reader-next-section-none"), "next_section() returned None after section {secno}"),
                Err(e) => vfail!(sig("lib-reader-next-section-error"), "next_section() after section {secno}: {e}"),
            };
        }
    }
    vensure!(idx == m.rs.len(), sig("lib-reader-missing-record"), "library reads {idx} records, {} pushed", m.rs.len());
    Ok(())
}

//============ Interpreter =====================================================

struct Snap {
    msg: Vec<u8>,
    stream: Option<Vec<u8>>,
}

struct Runner<T: Top> {
    b: Option<Bld<T>>,
    m: Model,
    st: Stats,
    comp: bool,
}

/// Splits well-formed OPT RDATA into (code, data) pairs.
fn split_options(options: &[u8]) -> Vec<(u16, &[u8])> {
    let mut raw = vec![];
    let mut pos = 0;
    while pos + 4 <= options.len() {
        let code = u16::from_be_bytes([options[pos], options[pos + 1]]);
        let len = u16::from_be_bytes([options[pos + 2], options[pos + 3]]) as usize;
        if pos + 4 + len > options.len() {
            break;
        }
        raw.push((code, &options[pos + 4..pos + 4 + len]));
        pos += 4 + len;
    }
    raw
}

/// What a pad record looks like for a wanted RDLENGTH.
fn pad_rdata(rtype: u16, len: usize) -> Vec<u8> {
    if rtype != rr::TXT {
        return (0..len).map(|i| (i * 7 + 3) as u8).collect();
    }
    // TXT: character strings; any length >= 1 is expressible
    let mut out = Vec::with_capacity(len);
    let mut left = len.max(1);
    while left > 0 {
        let n = (left - 1).min(255);
        out.push(n as u8);
        out.extend(std::iter::repeat(b'p').take(n));
        left -= 1 + n;
    }
    out
}

/// A scratch message holding `r` twice (second copy compressed against the
/// first when `compress`), used to obtain library values with `ParsedName`s.
fn scratch(r: &Rec, compress: bool) -> Bytes {
    let noise = [0xFFu8; 96];
    let mut u = Unstructured::new(&noise);
    let mut w = gm::Writer { buf: vec![0u8; 12], seen: vec![], layout: gm::Layout::default() };
    let copies = if compress { 2 } else { 1 };
    for _ in 0..copies {
        w.name(&mut u, &r.owner, compress);
        w.buf.extend_from_slice(&r.rtype.to_be_bytes());
        w.buf.extend_from_slice(&r.class.to_be_bytes());
        w.buf.extend_from_slice(&r.ttl.to_be_bytes());
        w.rdata(&mut u, r.rtype, &r.rdata, compress, false);
    }
    w.buf[6..8].copy_from_slice(&(copies as u16).to_be_bytes());
    Bytes::from(w.buf)
}

type FlatData = AllRecordData<Vec<u8>, Name<Vec<u8>>>;

/// Every shape of record the interpreter pushes, behind one `ComposeRecord`
/// type (keeps the number of instantiations of the composition code per
/// target down). Each arm hands the library's own `ComposeRecord` impl for
/// that shape (record, tuples with and without class, `u32` or `Ttl`) the
/// target.
enum AnyRec {
    Parsed(ParsedRec),
    Flat(FlatRec),
    Tuple3(Name<Vec<u8>>, u32, FlatData),
    Tuple4(Name<Vec<u8>>, Class, u32, FlatData),
    Tuple4Ttl(Name<Vec<u8>>, Class, Ttl, FlatData),
    Chained(Chain<RelativeName<Vec<u8>>, Name<Vec<u8>>>, Ttl, Class, FlatData),
    Raw(Name<Bytes>, Class, Ttl, UnknownRecordData<Vec<u8>>),
}

impl ComposeRecord for AnyRec {
    fn compose_record<Target: Composer + ?Sized>(&self, target: &mut Target) -> Result<(), Target::AppendError> {
        match self {
            AnyRec::Parsed(r) => r.compose_record(target),
            AnyRec::Flat(r) => r.compose_record(target),
            AnyRec::Tuple3(n, t, d) => (n, *t, d).compose_record(target),
            AnyRec::Tuple4(n, c, t, d) => (n, *c, *t, d).compose_record(target),
            AnyRec::Tuple4Ttl(n, c, t, d) => (n, *c, *t, d).compose_record(target),
            AnyRec::Chained(n, t, c, d) => {
                if *c == Class::IN {
                    (n, *t, d).compose_record(target)
                } else {
                    (n, *c, *t, d).compose_record(target)
                }
            }
            AnyRec::Raw(n, c, t, d) => (n, *c, *t, d).compose_record(target),
        }
    }
}

enum AnyQ {
    Quest(Question<Name<Vec<u8>>>),
    Tuple3(Name<Bytes>, Rtype, Class),
    Tuple2(Name<Vec<u8>>, Rtype),
    Parsed(Question<ParsedName<Bytes>>),
}

impl ComposeQuestion for AnyQ {
    fn compose_question<Target: Composer + ?Sized>(&self, target: &mut Target) -> Result<(), Target::AppendError> {
        match self {
            AnyQ::Quest(q) => q.compose_question(target),
            AnyQ::Tuple3(n, t, c) => (n, *t, *c).compose_question(target),
            AnyQ::Tuple2(n, t) => (n, *t).compose_question(target),
            AnyQ::Parsed(q) => q.compose_question(target),
        }
    }
}

type ParsedRec = Record<ParsedName<Bytes>, AllRecordData<Bytes, ParsedName<Bytes>>>;
type FlatRec = Record<Name<Vec<u8>>, AllRecordData<Vec<u8>, Name<Vec<u8>>>>;

/// The library's value for `r`, or None if the library does not parse it or
/// does not reproduce the RDATA when composing it on its own (both are the
/// business of C05, not of the builder).
fn lib_value(r: &Rec, compress: bool, st: &mut Stats) -> Option<ParsedRec> {
    if r.rdata.len() > 20000 {
        return None;
    }
    let msg = Message::from_octets(scratch(r, compress)).ok()?;
    let pr = msg.answer().ok()?.last()?.ok()?;
    let rec: ParsedRec = match pr.to_any_record() {
        Ok(rec) => rec,
        Err(_) => {
            st.class("item-not-parsable-by-library(pushed-raw)");
            st.class(&format!("item-not-parsable-by-library:{}", rr::mnemonic(r.rtype)));
            return None;
        }
    };
    let mut v = Vec::new();
    if rec.data().compose_rdata(&mut v).is_err() || v != r.rdata || gn::from_name(rec.owner()) != r.owner {
        st.class("item-not-reproduced-by-codec(pushed-raw)");
        st.class(&format!("item-not-reproduced-by-codec:{}", rr::mnemonic(r.rtype)));
        return None;
    }
    Some(rec)
}

impl<T: Top> Runner<T> {
    fn is_stream(&self) -> bool {
        self.b.as_ref().expect("builder present").mb().as_target().base().is_stream()
    }
    fn cap(&self) -> Option<usize> {
        self.b.as_ref().expect("builder present").mb().as_target().base().cap()
    }
    fn bld(&mut self) -> &mut Bld<T> {
        self.b.as_mut().expect("builder present")
    }
    fn octets(&self) -> &[u8] {
        self.b.as_ref().expect("builder present").mb().as_slice()
    }
    fn snap(&self) -> Snap {
        let mb = self.b.as_ref().expect("builder present").mb();
        Snap { msg: mb.as_slice().to_vec(), stream: mb.as_target().base().stream_slice().map(|s| s.to_vec()) }
    }
    fn goto(&mut self, dst: u8, via: bool) {
        let b = self.b.take().expect("builder present");
        self.b = Some(b.goto(dst, via));
        let d = self.m.entered(dst);
        self.st.dropped += d;
        if d > 0 {
            self.st.class("section-change-dropped-items");
        }
    }

    /// Cheap invariants, after every op.
    fn check_light(&mut self, op: &str) -> CaseResult {
        let counts = self.m.counts();
        let (id, flags, limit) = (self.m.id, self.m.flags, self.m.limit);
        let mb = self.b.as_ref().expect("builder present").mb();
        let s = mb.as_slice();
        vensure!(s.len() >= 12, format!("{op}:header-missing"), "message has {} octets", s.len());
        let g = |i: usize| u16::from_be_bytes([s[i], s[i + 1]]);
        vensure!(g(0) == id && g(2) == flags, format!("{op}:header-differs-from-model"), "header id/flags are {:#06x}/{:#06x}, model says {id:#06x}/{flags:#06x}", g(0), g(2));
        let got = [g(4), g(6), g(8), g(10)];
        vensure!(got == counts, format!("{op}:counts-differ-from-model"), "header counts {got:?}, successful pushes per section {counts:?}");
        let c = mb.counts();
        vensure!([c.qdcount(), c.ancount(), c.nscount(), c.arcount()] == counts, format!("{op}:counts-accessor-differs"), "counts() disagrees with the model");
        vensure!(mb.header().id() == id, format!("{op}:header-accessor-differs"), "header().id()");
        vensure!(mb.push_limit() == limit, format!("{op}:push-limit-accessor-differs"), "push_limit() = {:?}, model {limit:?}", mb.push_limit());
        let base = mb.as_target().base();
        if let Some(ss) = base.stream_slice() {
            vensure!(ss.len() >= 2, format!("{op}:stream-prefix-missing"), "stream slice has {} octets", ss.len());
            let p = u16::from_be_bytes([ss[0], ss[1]]) as usize;
            vensure!(p == ss.len() - 2, format!("{op}:stream-length-prefix-mismatch"), "length prefix says {p}, message has {} octets", ss.len() - 2);
            vensure!(&ss[2..] == s, format!("{op}:stream-slice-differs"), "as_stream_slice()[2..] differs from the builder's slice");
        }
        vensure!(s.len() <= 65535 || !self.is_stream(), format!("{op}:stream-message-too-long"), "stream message of {} octets", s.len());
        if let Some(cap) = self.cap() {
            vensure!(s.len() <= cap, format!("{op}:beyond-capacity"), "{} octets in a buffer of {cap}", s.len());
        }
        let len = s.len();
        self.st.max_len = self.st.max_len.max(len);
        Ok(())
    }

    fn check_full_now(&mut self, tag: &str) -> CaseResult {
        let oct = self.octets().to_vec();
        // as_message() must present the same octets
        let am = self.b.as_ref().expect("builder present").mb().as_message();
        vensure!(am.as_slice() == &oct[..], format!("{tag}:as_message-differs"), "as_message() octets differ from as_slice()");
        check_full(&oct, &self.m, self.comp, tag, &mut self.st)
    }

    /// Runs one push-like call and checks what a failure / a success may do
    /// to the octets. Returns whether it succeeded.
    fn guarded_push(&mut self, what: &str, header_may_change: bool, f: impl FnOnce(&mut Bld<T>) -> Result<(), PushError>) -> Result<bool, Violation> {
        let before = self.snap();
        let r = f(self.bld());
        let after = self.snap();
        match r {
            Err(_) => {
                if before.msg != after.msg {
                    if before.msg.len() == after.msg.len() && before.msg[4..] == after.msg[4..] && header_may_change {
                        vfail!(format!("{what}:failed-push-changed-header"), "a failed opt() left the header changed: {} -> {}", hex(&before.msg[..4]), hex(&after.msg[..4]));
                    }
                    let at = before.msg.iter().zip(&after.msg).position(|(a, b)| a != b).unwrap_or(before.msg.len().min(after.msg.len()));
                    vfail!(format!("{what}:failed-push-changed-octets"), "push returned Err but the message changed: {} -> {} octets, first difference at offset {at}", before.msg.len(), after.msg.len());
                }
                vensure!(before.stream == after.stream, format!("{what}:failed-push-changed-stream-octets"), "push returned Err but the stream octets (length prefix) changed");
                self.st.pushed(false);
                Ok(false)
            }
            Ok(()) => {
                vensure!(after.msg.len() > before.msg.len(), format!("{what}:ok-push-did-not-grow"), "push returned Ok but the message went from {} to {} octets", before.msg.len(), after.msg.len());
                vensure!(after.msg[12..before.msg.len()] == before.msg[12..], format!("{what}:ok-push-changed-earlier-octets"), "a successful push changed octets before its own position");
                if !header_may_change {
                    vensure!(after.msg[..4] == before.msg[..4], format!("{what}:ok-push-changed-header"), "a successful push changed the header id/flags");
                }
                self.st.pushed(true);
                Ok(true)
            }
        }
    }

    /// Things to do before a push of (at most) `size` octets.
    fn before_push(&mut self, size: usize) {
        let cur = self.octets().len();
        let growable = self.cap().is_none();
        if cur + size > 65535 {
            if self.is_stream() {
                self.st.class("push-past-64k-on-stream");
            } else if self.cap().map(|c| c > 65535).unwrap_or(true) {
                // Nothing but the caller keeps a plain buffer within the DNS
                // message size: do what such a caller does.
                if self.m.limit.map(|l| l > 65536).unwrap_or(true) {
                    self.bld().mb_mut().set_push_limit(65536);
                    self.m.limit = Some(65536);
                }
                self.st.class("push-past-64k-guarded-by-push-limit");
            }
        } else if growable && self.m.limit.is_none() {
            self.st.class("expect-success");
        }
    }
    fn after_push(&mut self, size: usize, cur_before: usize, ok: bool) {
        let growable = self.cap().is_none();
        if growable && cur_before + size <= 65535 && !ok {
            // limit may have been set meanwhile only by before_push (not in
            // this branch), so check the model
            if self.m.limit.is_none() {
                self.st.class("unexpected-refusal");
            }
        }
        if !ok {
            if self.m.limit.is_some() {
                self.st.class("push-failed-with-limit-set");
            } else if self.cap().is_some() {
                self.st.class("push-failed-buffer-full");
            }
        }
    }

    fn push_record(&mut self, r: &Rec, form: u8, via_trait: bool, what: &'static str) -> Result<bool, Violation> {
        if self.bld().sec() < 2 {
            self.goto(2, false);
        }
        let sec = self.bld().sec() - 1;
        let size = rec_size(r);
        let cur = self.octets().len();
        self.before_push(size);
        let val = if form == 3 || what == "pad" && form != 1 { None } else { lib_value(r, form & 1 == 1, &mut self.st) };
        let class = Class::from_int(r.class);
        let (any, by_ref) = match val {
            None => {
                let Ok(data) = UnknownRecordData::from_octets(Rtype::from_int(r.rtype), r.rdata.clone()) else { return Ok(false) };
                (AnyRec::Raw(gn::to_name_bytes(&r.owner), class, Ttl::from_secs(r.ttl), data), form == 1)
            }
            Some(rec) => match form {
                0 => (AnyRec::Parsed(rec), false),
                1 => (AnyRec::Parsed(rec), true),
                2 => {
                    let flat: FlatRec = rec.flatten_into();
                    let (owner, data) = flat.into_owner_and_data();
                    if r.class == 1 {
                        (AnyRec::Tuple3(owner, r.ttl, data), false)
                    } else {
                        (AnyRec::Tuple4(owner, class, r.ttl, data), false)
                    }
                }
                4 => (AnyRec::Flat(rec.flatten_into()), true),
                _ => {
                    // owner as a chain of a relative name and an absolute one
                    let flat: FlatRec = rec.flatten_into();
                    let (owner, data) = flat.into_owner_and_data();
                    if r.owner.is_empty() {
                        (AnyRec::Tuple4Ttl(owner, class, Ttl::from_secs(r.ttl), data), false)
                    } else {
                        let mut first = vec![r.owner[0].len() as u8];
                        first.extend_from_slice(&r.owner[0]);
                        let rel = RelativeName::from_octets(first).expect("one label is a valid relative name");
                        let rest = gn::to_name(&r.owner[1..].to_vec());
                        let chain = rel.chain(rest).expect("chain within 255 octets");
                        (AnyRec::Chained(chain, Ttl::from_secs(r.ttl), class, data), false)
                    }
                }
            },
        };
        let ok = self.guarded_push(what, false, |b| b.push_r(any, by_ref, via_trait))?;
        self.after_push(size, cur, ok);
        if via_trait {
            self.st.class("push-via-RecordSectionBuilder-trait");
            self.st.class(["push-via-trait:answer", "push-via-trait:authority", "push-via-trait:additional"][sec as usize - 1]);
        }
        if ok {
            self.m.rs.push((sec, r.clone()));
        }
        Ok(ok)
    }

    fn push_question(&mut self, q: &Quest, form: u8, force: bool) -> Result<(), Violation> {
        match self.bld().sec() {
            0 => self.goto(1, false),
            1 => {}
            _ if force => self.goto(1, false),
            _ => return Ok(()),
        }
        let size = gn::wire_len(&q.name) + 4;
        let cur = self.octets().len();
        self.before_push(size);
        let (qt, qc) = (Rtype::from_int(q.qtype), Class::from_int(q.qclass));
        let (any, by_ref) = match form {
            0 => (AnyQ::Quest(Question::new(gn::to_name(&q.name), qt, qc)), false),
            1 => (AnyQ::Tuple3(gn::to_name_bytes(&q.name), qt, qc), false),
            2 if q.qclass == 1 => (AnyQ::Tuple2(gn::to_name(&q.name), qt), false),
            3 => (AnyQ::Quest(Question::new(gn::to_name(&q.name), qt, qc)), true),
            _ => {
                // a ParsedName out of a request message
                let mut a = wire::Asm::new(0, 0);
                a.question(&q.name, q.qtype, q.qclass);
                let req = Message::from_octets(Bytes::from(a.buf)).expect("request has a header");
                match req.first_question() {
                    Some(pq) => (AnyQ::Parsed(pq), false),
                    None => return Ok(()),
                }
            }
        };
        let ok = self.guarded_push("question", false, |b| b.push_q(any, by_ref))?;
        self.after_push(size, cur, ok);
        if ok {
            self.m.qs.push(q.clone());
        }
        Ok(())
    }

    fn push_opt(&mut self, udp: u16, version: u8, dok: bool, rcode: Option<u16>, options: &[u8], typed: bool, clone: Option<&CloneSrc>) -> Result<(), Violation> {
        if self.bld().sec() != 4 {
            self.goto(4, false);
        }
        // upper bound of what is appended at any time while the record is built
        let size = 11 + options.len() + clone.map(|c| c.options.len() + c.after_options.len()).unwrap_or(0);
        let cur = self.octets().len();
        self.before_push(size);
        let raw = split_options(options);
        // typed options, if the library parses them and reproduces them
        let mut use_typed = false;
        if typed {
            if let Ok(opt) = Opt::from_octets(options) {
                let mut back: Vec<u8> = vec![];
                let mut good = true;
                for o in opt.iter::<AllOptData<_, _>>() {
                    match o {
                        Ok(o) => {
                            let o: AllOptData<&[u8], Name<&[u8]>> = o;
                            back.extend_from_slice(&o.code().to_int().to_be_bytes());
                            back.extend_from_slice(&o.compose_len().to_be_bytes());
                            if o.compose_option(&mut back).is_err() {
                                good = false;
                            }
                        }
                        Err(_) => good = false,
                    }
                }
                use_typed = good && back == options;
            }
            if !use_typed {
                self.st.class("opt-options-not-reproduced-by-codec(pushed-raw)");
            }
        }
        // the source of clone_from: an OptRecord as a caller gets it, either
        // from a parsed message or from a record
        let src_msg: Option<Message<Vec<u8>>> = match clone {
            Some(c) if c.from_message => {
                let mut a = wire::Asm::new(0x1234, 0x8180);
                a.record(3, &[], rr::OPT, c.udp, c.ttl, &c.options);
                Message::from_octets(a.buf).ok()
            }
            _ => None,
        };
        let src_a: Option<OptRecord<&[u8]>> = src_msg.as_ref().and_then(|m| m.opt());
        let src_b: Option<OptRecord<Vec<u8>>> = match clone {
            Some(c) if !c.from_message => Opt::from_octets(c.options.clone())
                .ok()
                .map(|opt| OptRecord::from_record(Record::new(gn::to_name(&vec![]), Class::from_int(c.udp), Ttl::from_secs(c.ttl), opt))),
            _ => None,
        };
        let clone = match clone {
            Some(c) if src_a.is_some() || src_b.is_some() => Some(c),
            Some(_) => {
                self.st.class("opt-clone_from-source-not-parsable-by-library(skipped)");
                None
            }
            None => None,
        };
        let after_raw = clone.map(|c| split_options(&c.after_options)).unwrap_or_default();
        let header_may_change = rcode.is_some() || clone.map(|c| c.after_rcode.is_some()).unwrap_or(false);
        let opts_vec = options.to_vec();
        let ok = self.guarded_push("opt", header_may_change, |b| match b {
            Bld::Ad(ad) => ad.opt(|o| {
                o.set_udp_payload_size(udp);
                if version != 0 {
                    o.set_version(version);
                }
                if dok {
                    o.set_dnssec_ok(true);
                }
                if let Some(rc) = rcode {
                    o.set_rcode(OptRcode::masked_from_int(rc));
                }
                if use_typed {
                    let opt = Opt::from_octets(&opts_vec[..]).expect("parsed before");
                    for od in opt.iter::<AllOptData<_, _>>() {
                        let od: AllOptData<&[u8], Name<&[u8]>> = od.expect("parsed before");
                        o.push(&od)?;
                    }
                } else {
                    for (code, data) in &raw {
                        o.push_raw_option(OptionCode::from_int(*code), data.len() as u16, |t| t.append_slice(data))?;
                    }
                }
                if let Some(c) = clone {
                    // replaces everything done so far to the record
                    if let Some(src) = &src_a {
                        o.clone_from(src)?;
                    } else if let Some(src) = &src_b {
                        o.clone_from(src)?;
                    }
                    if let Some(v) = c.after_udp {
                        o.set_udp_payload_size(v);
                    }
                    if let Some(v) = c.after_version {
                        o.set_version(v);
                    }
                    if let Some(v) = c.after_dok {
                        o.set_dnssec_ok(v);
                    }
                    if let Some(rc) = c.after_rcode {
                        o.set_rcode(OptRcode::masked_from_int(rc));
                    }
                    for (code, data) in &after_raw {
                        o.push_raw_option(OptionCode::from_int(*code), data.len() as u16, |t| t.append_slice(data))?;
                    }
                }
                Ok(())
            }),
            _ => unreachable!("opt outside the additional section"),
        })?;
        self.after_push(size, cur, ok);
        if let Some(c) = clone {
            self.st.class("opt-clone_from");
            if c.ttl & 0x7FFF != 0 {
                self.st.class("opt-clone_from-source-flags-beyond-DO");
            }
        }
        if ok {
            let mut class = udp;
            let mut ttl = (version as u32) << 16 | if dok { 0x8000 } else { 0 };
            let mut rdata = options.to_vec();
            if let Some(rc) = rcode {
                ttl |= ((rc >> 4) as u32) << 24;
                self.m.flags = (self.m.flags & !0xF) | (rc & 0xF);
            }
            if let Some(c) = clone {
                // the record is now the source's, whatever was set before
                // (the RCODE bits in the message header are not part of it)
                class = c.udp;
                ttl = c.ttl;
                rdata = c.options.clone();
                let mut modified = false;
                if let Some(v) = c.after_udp {
                    class = v;
                    modified = true;
                }
                if let Some(v) = c.after_version {
                    ttl = (ttl & !0x00FF_0000) | (v as u32) << 16;
                    modified = true;
                }
                if let Some(v) = c.after_dok {
                    ttl = if v { ttl | 0x8000 } else { ttl & !0x8000 };
                    modified = true;
                }
                if let Some(rc) = c.after_rcode {
                    ttl = (ttl & 0x00FF_FFFF) | ((rc >> 4) as u32) << 24;
                    self.m.flags = (self.m.flags & !0xF) | (rc & 0xF);
                    modified = true;
                }
                if !c.after_options.is_empty() {
                    rdata.extend_from_slice(&c.after_options);
                    modified = true;
                }
                self.st.class("opt-clone_from-ok");
                if modified {
                    self.st.class("opt-clone_from-then-modified");
                }
            }
            self.m.rs.push((3, Rec { owner: vec![], rtype: rr::OPT, class, ttl, rdata }));
            self.st.class(if use_typed { "opt-typed-options" } else { "opt-raw-options" });
            self.st.class("opt");
        } else {
            self.st.class("opt-failed");
        }
        Ok(())
    }

    fn start(&mut self, error: bool, id: u16, flags: u16, rcode: u8, qs: &[Quest]) -> CaseResult {
        if !matches!(self.b, Some(Bld::M(_))) {
            return Ok(());
        }
        // the request, with compressed question names
        let noise = [0xFFu8; 32];
        let mut u = Unstructured::new(&noise);
        let mut w = gm::Writer { buf: vec![0u8; 12], seen: vec![], layout: gm::Layout::default() };
        w.buf[0..2].copy_from_slice(&id.to_be_bytes());
        w.buf[2..4].copy_from_slice(&(flags & 0x7FFF).to_be_bytes());
        w.buf[4..6].copy_from_slice(&(qs.len() as u16).to_be_bytes());
        for q in qs {
            w.name(&mut u, &q.name, true);
            w.buf.extend_from_slice(&q.qtype.to_be_bytes());
            w.buf.extend_from_slice(&q.qclass.to_be_bytes());
        }
        let req = Message::from_octets(w.buf).expect("request has a header");
        let Some(Bld::M(mb)) = self.b.take() else { unreachable!() };
        let keep = mb.clone();
        let before = mb.as_slice().to_vec();
        let new_flags = |old: u16, rc: u16| (old & 0x06F0) | 0x8000 | (flags & 0x7800) | (flags & 0x0100) | rc;
        if error {
            let an = mb.start_error(&req, Rcode::masked_from_int(rcode));
            let k = an.counts().qdcount() as usize;
            vensure!(k <= qs.len(), "start_error:more-questions-than-request", "{k} questions from a request with {}", qs.len());
            self.b = Some(Bld::An(an));
            self.m.id = id;
            self.m.flags = new_flags(self.m.flags, if k < qs.len() { 2 } else { rcode as u16 });
            self.m.qs = qs[..k].to_vec();
            self.st.class(if k < qs.len() { "start_error-servfail" } else { "start_error" });
        } else {
            match mb.start_answer(&req, Rcode::masked_from_int(rcode)) {
                Ok(an) => {
                    self.b = Some(Bld::An(an));
                    self.m.id = id;
                    self.m.flags = new_flags(self.m.flags, rcode as u16);
                    self.m.qs = qs.to_vec();
                    self.st.class("start_answer");
                }
                Err(_) => {
                    // the builder is consumed; the caller keeps its copy
                    vensure!(keep.as_slice() == &before[..], "start_answer:clone-differs", "clone of the builder differs");
                    self.b = Some(Bld::M(keep));
                    self.st.class("start_answer-failed");
                }
            }
        }
        Ok(())
    }

    fn exec(&mut self, op: &Op) -> CaseResult {
        match op {
            Op::Header { id, flags } => {
                let h = self.bld().mb_mut().header_mut();
                h.set_id(*id);
                h.set_qr(flags & 0x8000 != 0);
                h.set_opcode(Opcode::from_int(((flags >> 11) & 0xF) as u8));
                h.set_aa(flags & 0x0400 != 0);
                h.set_tc(flags & 0x0200 != 0);
                h.set_rd(flags & 0x0100 != 0);
                h.set_ra(flags & 0x0080 != 0);
                h.set_z(flags & 0x0040 != 0);
                h.set_ad(flags & 0x0020 != 0);
                h.set_cd(flags & 0x0010 != 0);
                h.set_rcode(Rcode::masked_from_int((flags & 0xF) as u8));
                self.m.id = *id;
                self.m.flags = *flags;
                self.check_light("header_mut")
            }
            Op::Goto { dst, via_from } => {
                let before = self.snap();
                self.goto(*dst, *via_from);
                let s = self.octets();
                vensure!(s.len() <= before.msg.len() && s[12..] == before.msg[12..s.len()], "goto:octets-not-a-prefix", "a section change altered octets it should keep");
                self.check_light("goto")
            }
            Op::PushQ { q, form, force } => {
                self.push_question(q, *form, *force)?;
                self.check_light("question")
            }
            Op::PushR { r, form, via_trait } => {
                self.push_record(r, *form, *via_trait, "record")?;
                self.check_light("record")
            }
            Op::Pad { goal, delta, rtype, owner, form, via_trait } => {
                if self.bld().sec() < 2 {
                    self.goto(2, false);
                }
                let cur = self.octets().len() as i64;
                let cap = self.cap().unwrap_or(0xFFFF).min(0xFFFF) as i64;
                let g: i64 = match goal {
                    0 => cur + 600,
                    1 => 0x3FFF,
                    2 => 0x4000,
                    3 => 0x4000 + 40,
                    4 => 0x8000,
                    5 => 0xFFFF,
                    6 => 0xC000,
                    _ => cap,
                };
                let overhead = gn::wire_len(owner) as i64 + 10;
                let mut len = g + *delta as i64 - cur - overhead;
                if len < 0 || len > 65535 {
                    len = [0i64, 1, 255, 256, 1000][(delta.unsigned_abs() % 5) as usize];
                }
                let r = Rec { owner: owner.clone(), rtype: *rtype, class: 1, ttl: 0, rdata: pad_rdata(*rtype, len as usize) };
                if self.push_record(&r, *form, *via_trait, "pad")? {
                    self.st.class("pad-ok");
                }
                self.check_light("pad")
            }
            Op::Opt { udp, version, dok, rcode, options, typed, clone } => {
                self.push_opt(*udp, *version, *dok, *rcode, options, *typed, clone.as_ref())?;
                self.check_light("opt")
            }
            Op::Rewind => {
                let before = self.snap();
                let state = self.bld().sec();
                if self.bld().rewind() {
                    let d = self.m.rewound(state);
                    self.st.dropped += d;
                    self.st.class(if d > 0 { "rewind-dropped-items" } else { "rewind-empty" });
                    let s = self.octets();
                    vensure!(s.len() <= before.msg.len() && s[12..] == before.msg[12..s.len()], "rewind:octets-not-a-prefix", "rewind altered octets it should keep");
                }
                self.check_light("rewind")
            }
            Op::SetLimit { kind, val } => {
                let cur = self.octets().len();
                let v = match kind {
                    0 => cur + 1 + (*val as usize % 64),
                    1 => cur + (*val as usize % 600),
                    2 => [0usize, 12, 13, 100, 512, 1232, 0x3FFF, 0x4000, 0x4001, 0xFFFF, 0x10000][*val as usize % 11],
                    3 => cur,
                    _ => *val as usize,
                };
                self.bld().mb_mut().set_push_limit(v);
                self.m.limit = Some(v);
                self.st.class("push-limit-set");
                self.check_light("set_push_limit")
            }
            Op::ClearLimit => {
                self.bld().mb_mut().clear_push_limit();
                self.m.limit = None;
                self.check_light("clear_push_limit")
            }
            Op::Start { error, id, flags, rcode, qs } => {
                self.start(*error, *id, *flags, *rcode, qs)?;
                self.check_light("start")
            }
            Op::Check => self.check_full_now("mid"),
        }
    }
}

struct Out {
    octets: Vec<u8>,
    st: Stats,
}

fn run_script<T: Top>(case: &Case, tk: u8) -> Result<Out, Violation> {
    let mb = match MessageBuilder::from_target(T::wrap(<T::B as Base>::fresh(tk))) {
        Ok(mb) => mb,
        Err(_) => vfail!("from_target:refused", "from_target fails on an empty {}", KINDS[tk as usize].1),
    };
    let mut r = Runner::<T> { b: Some(Bld::M(mb)), m: Model::default(), st: Stats::default(), comp: case.ck != 0 };
    r.check_light("from_target")?;
    for op in &case.ops {
        r.exec(op)?;
        // while the message is small the full comparison is cheap
        if r.octets().len() <= 700 && !matches!(op, Op::Check) {
            r.check_full_now("step")?;
        }
    }
    r.check_full_now("final")?;
    let oct = r.octets().to_vec();
    // ways of finishing
    let b = r.b.take().expect("builder present");
    if let Some(v) = T::into_message_octets(b.clone_b()) {
        vensure!(v == oct, "into_message:octets-differ", "into_message() octets differ from the builder's slice");
        r.st.class("into_message");
    }
    let t = b.finish();
    let base = t.into_base();
    vensure!(base.final_octets() == &oct[..], "finish:octets-differ", "finish() target octets differ from the builder's slice");
    if let Some(ss) = base.stream_slice() {
        vensure!(ss.len() == oct.len() + 2 && u16::from_be_bytes([ss[0], ss[1]]) as usize == oct.len() && ss[2..] == oct[..], "finish:stream-length-prefix-mismatch", "finished stream target: prefix {:?}, message {} octets", &ss[..2.min(ss.len())], oct.len());
    }
    Ok(Out { octets: oct, st: r.st })
}

fn run_case_inner(case: &Case, ctx: &mut Ctx) -> CaseResult {
    let (tk, ck) = (case.tk, case.ck);
    let (out, direct) = run_dispatch(case, tk, ck, case.direct)?;
    ctx.class(if direct { "instantiated-directly" } else { "via-delegating-enum" });
    let st = &out.st;
    // twin run: Vec and BytesMut (bare or in a stream target) must give the
    // same octets and the same outcomes
    let twin = match tk {
        0 => Some(1u8),
        1 => Some(0),
        3 => Some(4),
        4 => Some(3),
        _ => None,
    };
    if let Some(t2) = twin {
        let (o2, _) = run_dispatch(case, t2, ck, case.direct)?;
        vensure!(o2.st.outcomes == st.outcomes, "twin:push-outcomes-differ", "the same script on {} and {} has different push outcomes", KINDS[tk as usize].1, KINDS[t2 as usize].1);
        vensure!(o2.octets == out.octets, "twin:octets-differ", "the same script on {} and {} gives different octets ({} vs {})", KINDS[tk as usize].1, KINDS[t2 as usize].1, out.octets.len(), o2.octets.len());
        ctx.class("twin-run");
    }
    // evidence
    ctx.class(format!("cell:{}x{}", KINDS[tk as usize].0, COMPS[ck as usize]));
    ctx.class(format!("target:{}", KINDS[tk as usize].1));
    for c in &st.classes {
        ctx.class(c.clone());
    }
    if st.failed_then_ok {
        ctx.class("failed-then-ok");
    }
    if st.failed > 0 {
        ctx.class("some-push-failed");
    }
    let len = out.octets.len();
    if len >= 0x4000 {
        ctx.class("final-len>=0x4000");
    }
    if st.max_len >= 0x4000 {
        ctx.class("crossed-0x4000");
    }
    if len > 0xC000 {
        ctx.class("final-len>0xC000");
    }
    if len == 0xFFFF {
        ctx.class("final-len==0xFFFF");
    }
    if len >= 0xFFF0 && len <= 0xFFFF {
        ctx.class("final-len-within-16-of-0xFFFF");
    }
    if ck != 0 && st.pointers > 0 {
        ctx.class("compression-pointers-present");
    }
    if ck != 0 && len > 0x4000 {
        // was a name used again that was first written at or beyond 0x4000?
        if let Some(w) = wire::walk(&out.octets) {
            let mut first: BTreeMap<Vec<Vec<u8>>, usize> = BTreeMap::new();
            let mut reuse = false;
            for r in &w.records {
                if let Ok(o) = &r.owner {
                    if o.is_empty() {
                        continue;
                    }
                    let key: Vec<Vec<u8>> = o.iter().map(|l| l.to_ascii_lowercase()).collect();
                    match first.get(&key) {
                        Some(&p) if p >= 0x4000 => reuse = true,
                        Some(_) => {}
                        None => {
                            first.insert(key, r.start);
                        }
                    }
                }
            }
            if reuse {
                ctx.class("reuse-of-name-first-written>=0x4000");
            }
        }
    }
    let nontrivial = (ck != 0 && st.pointers > 0) || st.failed_then_ok || st.dropped > 0 || len >= 0x4000;
    if nontrivial {
        ctx.nontrivial(case);
    }
    ctx.sample(|| format!("{} => {} octets, {} pushes ok, {} failed", show_case(case), len, st.ok, st.failed));
    Ok(())
}

fn run_ops(data: &[u8], ctx: &mut Ctx) -> CaseResult {
    let case = decode(data, false);
    run_case_inner(&case, ctx)
}

fn run_boundary(data: &[u8], ctx: &mut Ctx) -> CaseResult {
    let case = decode(data, true);
    run_case_inner(&case, ctx)
}

fn health(c: &BTreeMap<String, u64>, _thorough: bool) -> Result<(), String> {
    let get = |k: &str| c.get(k).copied().unwrap_or(0);
    for fam in ["Vec", "BytesMut", "Array", "StreamVec", "StreamBytesMut", "StreamArray"] {
        for comp in COMPS {
            let k = format!("cell:{fam}x{comp}");
            if get(&k) < 20 {
                return Err(format!("class {k} starved ({})", get(&k)));
            }
        }
    }
    for (_, t) in KINDS {
        let k = format!("target:{t}");
        if get(&k) < 20 {
            return Err(format!("class {k} starved ({})", get(&k)));
        }
    }
    for k in [
        "failed-then-ok",
        "crossed-0x4000",
        "final-len>0xC000",
        "final-len-within-16-of-0xFFFF",
        "rewind-dropped-items",
        "section-change-dropped-items",
        "opt",
        "opt-failed",
        "push-failed-buffer-full",
        "push-failed-with-limit-set",
        "compression-pointers-present",
        "reuse-of-name-first-written>=0x4000",
        "push-past-64k-on-stream",
        "push-past-64k-guarded-by-push-limit",
        "start_answer",
        "start_error",
        "into_message",
        "twin-run",
        "push-via-trait:answer",
        "push-via-trait:authority",
        "push-via-trait:additional",
        "opt-clone_from-ok",
        "opt-clone_from-source-flags-beyond-DO",
        "opt-clone_from-then-modified",
    ] {
        if get(k) < 10 {
            return Err(format!("class {k} starved ({})", get(k)));
        }
    }
    // a builder that refuses everything must not pass vacuously
    let expect = get("expect-success");
    let refused = get("unexpected-refusal");
    if expect < 100 || refused * 20 > expect {
        return Err(format!("pushes that fit on a growable target without limit were refused in {refused} of {expect} cases"));
    }
    Ok(())
}

pub fn prop() -> Option<Prop> {
    Some(Prop {
        id: "C02",
        rule: "a case = (target kind, compressor, op list) decoded from generated bytes; non-trivial = under a compressor the final message contains at least one compression pointer, or a failed push was followed by a successful one, or a rewind/section change dropped at least one pushed item, or the final message has >= 0x4000 octets; distinct by hash of the decoded case",
        assumptions: &[
            "names under a compressor are compared ignoring ASCII case (Static/Hash compressors match labels with Label::eq by design) but exactly in label structure; exact octets without a compressor",
            "a caller of a growable non-stream target keeps the message within 65535 octets with set_push_limit(65536); the harness does the same before a push that could exceed it",
            "items the library's own codec does not parse/reproduce (C05's business) are pushed as UnknownRecordData",
            "pushes are not predicted to succeed; a health assertion requires fitting pushes on growable targets without limit to succeed",
            "reference: refimpl::wire walker and assembler (independent of the library)",
        ],
        subchecks: vec![
            SubCheck::new("ops", run_ops, 60_000, 1_200_000, 3000),
            SubCheck::new("boundary", run_boundary, 16_000, 300_000, 1500),
        ],
        health: Some(health),
        extra: None,
    })
}
