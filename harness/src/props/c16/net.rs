//! Mock network endpoints for C16: a datagram socket that records every
//! `send_to`, and a listener that hands out `tokio::io::duplex` streams.
use domain::net::server::sock::{AsyncAccept, AsyncDgramSock};
use std::collections::VecDeque;
use std::future::Future;
use std::io;
use std::net::SocketAddr;
use std::pin::Pin;
use std::sync::Mutex;
use std::task::{Context, Poll};
use tokio::io::{DuplexStream, ReadBuf};
use tokio::sync::{mpsc, Notify};

#[derive(Default)]
pub struct MockSock {
    inbox: Mutex<VecDeque<(Vec<u8>, SocketAddr)>>,
    notify: Notify,
    /// (destination, datagram) in send order
    pub sent: Mutex<Vec<(SocketAddr, Vec<u8>)>>,
    /// number of datagrams the server has taken from the socket
    pub received: Mutex<usize>,
}

impl MockSock {
    pub fn deliver(&self, data: Vec<u8>, from: SocketAddr) {
        self.inbox.lock().unwrap().push_back((data, from));
        self.notify.notify_one();
    }
}

impl AsyncDgramSock for MockSock {
    fn poll_send_to(&self, _cx: &mut Context<'_>, data: &[u8], dest: &SocketAddr) -> Poll<io::Result<usize>> {
        self.sent.lock().unwrap().push((*dest, data.to_vec()));
        Poll::Ready(Ok(data.len()))
    }

    fn readable(&self) -> Pin<Box<dyn Future<Output = io::Result<()>> + '_ + Send>> {
        Box::pin(async move {
            loop {
                if !self.inbox.lock().unwrap().is_empty() {
                    return Ok(());
                }
                self.notify.notified().await;
            }
        })
    }

    fn try_recv_buf_from(&self, buf: &mut ReadBuf<'_>) -> io::Result<(usize, SocketAddr)> {
        match self.inbox.lock().unwrap().pop_front() {
            Some((d, a)) => {
                // like a real socket: what does not fit is cut off
                let n = d.len().min(buf.remaining());
                buf.put_slice(&d[..n]);
                *self.received.lock().unwrap() += 1;
                Ok((n, a))
            }
            None => Err(io::ErrorKind::WouldBlock.into()),
        }
    }
}

pub struct MockListener {
    rx: Mutex<mpsc::UnboundedReceiver<(DuplexStream, SocketAddr)>>,
}

impl MockListener {
    pub fn new() -> (Self, mpsc::UnboundedSender<(DuplexStream, SocketAddr)>) {
        let (tx, rx) = mpsc::unbounded_channel();
        (MockListener { rx: Mutex::new(rx) }, tx)
    }
}

impl AsyncAccept for MockListener {
    type Error = io::Error;
    type StreamType = DuplexStream;
    type Future = std::future::Ready<Result<DuplexStream, io::Error>>;

    fn poll_accept(&self, cx: &mut Context<'_>) -> Poll<io::Result<(Self::Future, SocketAddr)>> {
        match self.rx.lock().unwrap().poll_recv(cx) {
            Poll::Ready(Some((s, a))) => Poll::Ready(Ok((std::future::ready(Ok(s)), a))),
            // sender gone: no further connections, ever
            Poll::Ready(None) => Poll::Pending,
            Poll::Pending => Poll::Pending,
        }
    }
}
