//! Mock network endpoints for C16: a datagram socket that records every
//! `send_to` (optionally not ready for the first poll of every datagram), a
//! listener that hands out `tokio::io::duplex` streams through an accept
//! future that is ready at once, after some virtual time, never, or fails,
//! and a buffer source with a configurable receive buffer size.
use domain::net::server::buf::BufSource;
use domain::net::server::sock::{AsyncAccept, AsyncDgramSock};
use std::collections::{BTreeSet, VecDeque};
use std::future::Future;
use std::io;
use std::net::SocketAddr;
use std::pin::Pin;
use std::sync::Mutex;
use std::task::{Context, Poll};
use tokio::io::{DuplexStream, ReadBuf};
use tokio::sync::{mpsc, Notify};

#[derive(Default)]
pub struct MockSock {
    inbox: Mutex<VecDeque<(Vec<u8>, SocketAddr)>>,
    notify: Notify,
    /// (destination, datagram) in send order
    pub sent: Mutex<Vec<(SocketAddr, Vec<u8>)>>,
    /// number of datagrams the server has taken from the socket
    pub received: Mutex<usize>,
    /// the socket is not ready for the first `poll_send_to` of every
    /// datagram (send buffer full): Pending + wake-up, ready on the next poll
    pub send_pending: bool,
    pended: Mutex<BTreeSet<SocketAddr>>,
    /// number of `poll_send_to` calls answered with Pending
    pub pendings: Mutex<usize>,
}

impl MockSock {
    pub fn new(send_pending: bool) -> Self {
        MockSock { send_pending, ..Default::default() }
    }
    pub fn deliver(&self, data: Vec<u8>, from: SocketAddr) {
        self.inbox.lock().unwrap().push_back((data, from));
        self.notify.notify_one();
    }
}

impl AsyncDgramSock for MockSock {
    fn poll_send_to(&self, cx: &mut Context<'_>, data: &[u8], dest: &SocketAddr) -> Poll<io::Result<usize>> {
        if self.send_pending {
            // responses to one address are sent one after the other
            let mut g = self.pended.lock().unwrap();
            if g.insert(*dest) {
                *self.pendings.lock().unwrap() += 1;
                cx.waker().wake_by_ref();
                return Poll::Pending;
            }
            g.remove(dest);
        }
        self.sent.lock().unwrap().push((*dest, data.to_vec()));
        Poll::Ready(Ok(data.len()))
    }

    fn readable(&self) -> Pin<Box<dyn Future<Output = io::Result<()>> + '_ + Send>> {
        Box::pin(async move {
            loop {
                if !self.inbox.lock().unwrap().is_empty() {
                    return Ok(());
                }
                self.notify.notified().await;
            }
        })
    }

    fn try_recv_buf_from(&self, buf: &mut ReadBuf<'_>) -> io::Result<(usize, SocketAddr)> {
        match self.inbox.lock().unwrap().pop_front() {
            Some((d, a)) => {
                // like a real socket: what does not fit is cut off
                let n = d.len().min(buf.remaining());
                buf.put_slice(&d[..n]);
                *self.received.lock().unwrap() += 1;
                Ok((n, a))
            }
            None => Err(io::ErrorKind::WouldBlock.into()),
        }
    }
}

/// A `BufSource` like `VecBufSource` with another receive buffer size.
#[derive(Clone)]
pub struct SizedBuf(pub usize);

impl BufSource for SizedBuf {
    type Output = Vec<u8>;
    fn create_buf(&self) -> Vec<u8> {
        vec![0; self.0]
    }
    fn create_sized(&self, size: usize) -> Vec<u8> {
        vec![0; size]
    }
}

/// How the establishment of one connection goes (`AsyncAccept::Future`, e.g.
/// a TLS handshake).
#[derive(Clone, Copy, Debug, PartialEq, Eq, Hash)]
pub enum Accept {
    /// the future is ready at once (plain TCP)
    Ready,
    /// the future needs this much virtual time
    Delay(u32),
    /// the future never completes (a client that connects and then stalls
    /// the handshake)
    Never,
    /// the future completes with an error
    Fail,
    /// `poll_accept` itself reports an error for this connection
    Refused,
}

impl Accept {
    /// the server never gets a stream for this connection
    pub fn dead(&self) -> bool {
        matches!(self, Accept::Never | Accept::Fail | Accept::Refused)
    }
}

pub type Incoming = (DuplexStream, SocketAddr, Accept);

pub struct MockListener {
    rx: Mutex<mpsc::UnboundedReceiver<Incoming>>,
}

impl MockListener {
    pub fn new() -> (Self, mpsc::UnboundedSender<Incoming>) {
        let (tx, rx) = mpsc::unbounded_channel();
        (MockListener { rx: Mutex::new(rx) }, tx)
    }
}

pub type AcceptFuture = Pin<Box<dyn Future<Output = io::Result<DuplexStream>> + Send>>;

impl AsyncAccept for MockListener {
    type Error = io::Error;
    type StreamType = DuplexStream;
    type Future = AcceptFuture;

    fn poll_accept(&self, cx: &mut Context<'_>) -> Poll<io::Result<(Self::Future, SocketAddr)>> {
        match self.rx.lock().unwrap().poll_recv(cx) {
            Poll::Ready(Some((s, a, how))) => {
                let fut: AcceptFuture = match how {
                    Accept::Ready => Box::pin(std::future::ready(Ok(s))),
                    Accept::Delay(ms) => Box::pin(async move {
                        tokio::time::sleep(std::time::Duration::from_millis(ms as u64)).await;
                        Ok(s)
                    }),
                    Accept::Never => Box::pin(async move {
                        // the stream stays open, the handshake never ends
                        let _keep = s;
                        std::future::pending::<()>().await;
                        unreachable!()
                    }),
                    Accept::Fail => Box::pin(async move {
                        drop(s);
                        Err(io::Error::other("handshake failed"))
                    }),
                    Accept::Refused => return Poll::Ready(Err(io::Error::other("accept failed"))),
                };
                Poll::Ready(Ok((fut, a)))
            }
            // sender gone: no further connections, ever
            Poll::Ready(None) => Poll::Pending,
            Poll::Pending => Poll::Pending,
        }
    }
}
