//! Harness services for C16: behaviour is looked up by request ID in a plan
//! table; everything the service produces is logged so that the oracle can
//! compare it with what appeared on the wire.
use domain::base::iana::{Class, OptionCode, Rcode, Rtype};
use domain::base::message_builder::AdditionalBuilder;
use domain::base::rdata::UnknownRecordData;
use domain::base::{Message, Name, StreamTarget, ToName, Ttl};
use domain::net::server::message::Request;
use domain::net::server::service::{CallResult, Service, ServiceError, ServiceFeedback, ServiceResult};
use domain::net::server::util::mk_builder_for_target;
use futures_util::stream::Stream;
use octseq::OctetsBuilder;
use std::collections::HashMap;
use std::future::Future;
use std::net::SocketAddr;
use std::pin::Pin;
use std::sync::{Arc, Mutex};
use std::time::Duration;

pub const TXT: u16 = 16;
pub const A: u16 = 1;
pub const NULL: u16 = 10;
pub const PRIVATE: u16 = 65280;

#[derive(Clone, Debug, PartialEq, Eq, Hash)]
pub enum Kind {
    /// one response
    Single,
    /// n responses, `gap_ms` of virtual time between them; `transaction`:
    /// wrapped in BeginTransaction/EndTransaction feedback as documented for
    /// multi-response streams
    Multi { n: usize, gap_ms: u32, transaction: bool },
    /// the stream yields a ServiceError (code index 0..4) after `after`
    /// good responses
    Fail { code: u8, after: usize },
    /// the stream ends without any response
    Silent,
    /// a transaction of n responses in any of the representations the
    /// `CallResult` API offers for the feedback: `BeginTransaction` as a
    /// feedback-only item before the first response or attached to the first
    /// response (`CallResult::with_feedback`); `end`: 0 = `EndTransaction` as
    /// a feedback-only item after the last response, 1 = attached to the last
    /// response, 2 = the stream simply ends; `noop_reconf`: responses that
    /// carry no other feedback carry `Reconfigure { idle_timeout: None }`
    /// (changes nothing)
    Txn { n: usize, gap_ms: u32, begin_attached: bool, end: u8, noop_reconf: bool },
}

/// how the end of a `Kind::Txn` is really signalled (one item carries at
/// most one feedback)
pub fn txn_end(n: usize, begin_attached: bool, end: u8) -> u8 {
    if end == 1 && n == 1 && begin_attached {
        0
    } else {
        end.min(2)
    }
}

impl std::fmt::Debug for Shape {
    fn fmt(&self, f: &mut std::fmt::Formatter<'_>) -> std::fmt::Result {
        write!(
            f,
            "Shape(target={:?} small={} style={} auth={} addl={} owner_q={} opt={:?} tc={} aa={} rcode={} from_scratch={})",
            self.target,
            self.small,
            self.style,
            self.auth_pm,
            self.addl_pm,
            self.owner_q,
            self.opt.as_ref().map(|(u, o)| (*u, o.iter().map(|(c, d)| (*c, d.len())).collect::<Vec<_>>())),
            self.tc,
            self.aa,
            self.rcode,
            self.from_scratch
        )
    }
}

#[derive(Clone, PartialEq, Eq, Hash)]
pub struct Shape {
    /// size of the message the service builds (None: question only, plus
    /// `small` A records)
    pub target: Option<usize>,
    pub small: usize,
    /// 0 one blob, 1 many small records, 2 big TXT records
    pub style: u8,
    /// per mille of the fill going to authority / additional
    pub auth_pm: u16,
    pub addl_pm: u16,
    /// owner name of the records = the question name (else the root)
    pub owner_q: bool,
    /// OPT record in the service's own answer: (udp size, options)
    pub opt: Option<(u16, Vec<(u16, Vec<u8>)>)>,
    pub tc: bool,
    pub aa: bool,
    pub rcode: u8,
    /// the service does not use `start_answer`: it starts from an empty
    /// builder (ID 0, QR clear) and copies the question itself, leaving ID
    /// and QR to the mandatory middleware
    pub from_scratch: bool,
}

impl Default for Shape {
    fn default() -> Self {
        Shape { target: None, small: 1, style: 0, auth_pm: 0, addl_pm: 0, owner_q: false, opt: None, tc: false, aa: false, rcode: 0, from_scratch: false }
    }
}

#[derive(Clone, Debug, PartialEq, Eq, Hash)]
pub struct Plan {
    pub delay_ms: u32,
    pub kind: Kind,
    pub shape: Shape,
}

impl Default for Plan {
    fn default() -> Self {
        Plan { delay_ms: 0, kind: Kind::Single, shape: Shape::default() }
    }
}

impl Plan {
    /// upper bound of the virtual time the service needs for this plan
    pub fn total_ms(&self) -> u64 {
        self.delay_ms as u64
            + match &self.kind {
                Kind::Multi { n, gap_ms, .. } | Kind::Txn { n, gap_ms, .. } => *n as u64 * *gap_ms as u64,
                _ => 0,
            }
    }
    pub fn n_responses(&self) -> usize {
        match &self.kind {
            Kind::Single => 1,
            Kind::Multi { n, .. } | Kind::Txn { n, .. } => *n,
            Kind::Fail { after, .. } => after + 1,
            Kind::Silent => 0,
        }
    }
    /// Response `i` of the plan is produced while the service has a
    /// transaction open (`BeginTransaction` given before it or together with
    /// it, `EndTransaction` not yet given): the connection has to wait for
    /// room in its response queue instead of discarding it. A response that
    /// itself carries `EndTransaction` is not counted (the transaction ends
    /// with that item).
    pub fn in_transaction(&self, i: usize) -> bool {
        match &self.kind {
            Kind::Multi { n, transaction, .. } => *transaction && i < *n,
            Kind::Txn { n, begin_attached, end, .. } => i < *n && !(txn_end(*n, *begin_attached, *end) == 1 && i + 1 == *n),
            _ => false,
        }
    }
}

#[derive(Clone, Debug)]
pub enum Produced {
    /// the message bytes as the service built them (before any middleware)
    Resp(Vec<u8>),
    /// a ServiceError with this RCODE
    Err(u8),
}

#[derive(Clone, Debug)]
pub struct Call {
    pub id: u16,
    pub addr: SocketAddr,
    pub udp: bool,
    pub produced: Vec<Produced>,
    pub finished: bool,
}

#[derive(Default)]
pub struct Shared {
    pub plans: HashMap<u16, Plan>,
    pub calls: Vec<Call>,
}

#[derive(Clone)]
pub struct PlanSvc {
    pub shared: Arc<Mutex<Shared>>,
}

fn svc_err(code: u8) -> ServiceError {
    match code % 4 {
        0 => ServiceError::InternalError,
        1 => ServiceError::Refused,
        2 => ServiceError::NotImplemented,
        _ => ServiceError::FormatError,
    }
}

/// valid TXT RDATA of exactly `n` octets (n >= 1)
fn txt_rdata(n: usize, fill: u8) -> Vec<u8> {
    let mut out = Vec::with_capacity(n);
    let mut left = n;
    while left > 0 {
        let chunk = left.min(256);
        out.push((chunk - 1) as u8);
        out.extend(std::iter::repeat(fill).take(chunk - 1));
        left -= chunk;
    }
    out
}

/// Splits `fill` octets into records (rtype, rdata) whose wire size with an
/// owner of `own` octets adds up to exactly `fill` when that is possible
/// (fill >= own + 10), otherwise to nothing.
fn fill_records(fill: usize, own: usize, style: u8) -> Vec<(u16, Vec<u8>)> {
    let ovh = own + 10;
    let mut out = vec![];
    if fill < ovh {
        return out;
    }
    match style {
        0 => {
            // blobs of up to 65535 octets of RDATA
            let mut left = fill;
            while left >= ovh {
                let mut rd = (left - ovh).min(65535);
                // do not leave a remainder that can not hold a record
                let rest = left - ovh - rd;
                if rest > 0 && rest < ovh {
                    rd -= ovh - rest;
                }
                out.push((PRIVATE, vec![0xAB; rd]));
                left -= ovh + rd;
            }
        }
        1 => {
            // many A records; the remainder goes into one NULL record
            let per = ovh + 4;
            let n = fill / per;
            let rem = fill - n * per;
            if n == 0 {
                out.push((NULL, vec![0x5A; fill - ovh]));
            } else {
                for i in 0..n - 1 {
                    out.push((A, vec![192, 0, 2, (i % 250) as u8 + 1]));
                }
                // last: 4 + rem octets in a NULL record
                out.push((NULL, vec![0x5A; 4 + rem]));
            }
        }
        _ => {
            // TXT records with up to 700 octets of RDATA
            let mut left = fill;
            while left >= ovh {
                let mut rd = (left - ovh).min(700);
                let rest = left - ovh - rd;
                if rest > 0 && rest < ovh + 1 {
                    // keep room for one more record with >= 1 octet RDATA
                    let need = ovh + 1 - rest;
                    if rd > need {
                        rd -= need;
                    }
                }
                if rd == 0 {
                    out.push((NULL, vec![]));
                } else {
                    out.push((TXT, txt_rdata(rd, b'x')));
                }
                left -= ovh + rd;
            }
        }
    }
    out
}

pub type Resp = AdditionalBuilder<StreamTarget<Vec<u8>>>;

/// Builds one response for `req` per `shape`. `seq` distinguishes the
/// responses of a multi-response plan (it is put in the TTL).
pub fn build(req: &Message<Vec<u8>>, shape: &Shape, seq: u32) -> Result<Resp, ServiceError> {
    let b = mk_builder_for_target::<Vec<u8>>();
    let rcode = Rcode::checked_from_int(shape.rcode & 0xF).unwrap_or(Rcode::NOERROR);
    let mut ans = if shape.from_scratch {
        let mut q = b.question();
        for item in req.question() {
            let item = item.map_err(|_| ServiceError::FormatError)?;
            q.push(item).map_err(|_| ServiceError::FormatError)?;
        }
        q.header_mut().set_rcode(rcode);
        q.answer()
    } else {
        b.start_answer(req, rcode).map_err(|_| ServiceError::FormatError)?
    };
    ans.header_mut().set_aa(shape.aa);
    ans.header_mut().set_tc(shape.tc);
    let owner: Name<Vec<u8>> = if shape.owner_q {
        match req.sole_question() {
            Ok(q) => q.qname().to_name(),
            Err(_) => Name::root_vec(),
        }
    } else {
        Name::root_vec()
    };
    let own = owner.len();
    let ttl = Ttl::from_secs(300 + seq);
    let cur = ans.as_slice().len();
    let opt_len = shape.opt.as_ref().map(|(_, o)| 11 + o.iter().map(|(_, d)| 4 + d.len()).sum::<usize>()).unwrap_or(0);
    let recs: Vec<(u16, Vec<u8>)> = match shape.target {
        Some(t) => fill_records(t.saturating_sub(cur + opt_len), own, shape.style),
        None => (0..shape.small).map(|i| (A, vec![192, 0, 2, i as u8 + 1])).collect(),
    };
    let total: usize = recs.iter().map(|(_, d)| own + 10 + d.len()).sum();
    let addl_bytes = total * shape.addl_pm as usize / 1000;
    let auth_bytes = total * shape.auth_pm as usize / 1000;
    // records are distributed back to front: the last ones go to additional
    let mut n_addl = 0;
    let mut acc = 0;
    for (_, d) in recs.iter().rev() {
        if acc + own + 10 + d.len() > addl_bytes {
            break;
        }
        acc += own + 10 + d.len();
        n_addl += 1;
    }
    let mut n_auth = 0;
    acc = 0;
    for (_, d) in recs.iter().rev().skip(n_addl) {
        if acc + own + 10 + d.len() > auth_bytes {
            break;
        }
        acc += own + 10 + d.len();
        n_auth += 1;
    }
    let n_ans = recs.len() - n_addl - n_auth;
    let mk = |t: u16, d: &Vec<u8>| (owner.clone(), Class::IN, ttl, UnknownRecordData::from_octets(Rtype::from_int(t), d.clone()).expect("rdata len"));
    for (t, d) in &recs[..n_ans] {
        if ans.push(mk(*t, d)).is_err() {
            break;
        }
    }
    let mut auth = ans.authority();
    for (t, d) in &recs[n_ans..n_ans + n_auth] {
        if auth.push(mk(*t, d)).is_err() {
            break;
        }
    }
    let mut addl = auth.additional();
    for (t, d) in &recs[n_ans + n_auth..] {
        if addl.push(mk(*t, d)).is_err() {
            break;
        }
    }
    if let Some((udp, opts)) = &shape.opt {
        let _ = addl.opt(|o| {
            o.set_udp_payload_size(*udp);
            for (code, data) in opts {
                o.push_raw_option(OptionCode::from_int(*code), data.len() as u16, |t| t.append_slice(data))?;
            }
            Ok(())
        });
    }
    Ok(addl)
}

type BoxStream = Pin<Box<dyn Stream<Item = ServiceResult<Vec<u8>>> + Send>>;

struct St {
    shared: Arc<Mutex<Shared>>,
    call_idx: usize,
    req: Arc<Message<Vec<u8>>>,
    plan: Plan,
    step: usize,
    done: bool,
}

impl St {
    fn log(&self, p: Produced) {
        self.shared.lock().unwrap().calls[self.call_idx].produced.push(p);
    }
    fn finish(&mut self) {
        self.done = true;
        self.shared.lock().unwrap().calls[self.call_idx].finished = true;
    }
    fn respond(&self, seq: u32) -> ServiceResult<Vec<u8>> {
        match build(&self.req, &self.plan.shape, seq) {
            Ok(r) => {
                self.log(Produced::Resp(r.as_slice().to_vec()));
                Ok(CallResult::new(r))
            }
            Err(e) => {
                self.log(Produced::Err(e.rcode().to_int()));
                Err(e)
            }
        }
    }
}

async fn next_item(mut st: St) -> Option<(ServiceResult<Vec<u8>>, St)> {
    if st.done {
        return None;
    }
    let step = st.step;
    st.step += 1;
    match st.plan.kind.clone() {
        Kind::Single => {
            let r = st.respond(0);
            st.finish();
            Some((r, st))
        }
        Kind::Silent => {
            st.finish();
            None
        }
        Kind::Fail { code, after } => {
            if step < after {
                let r = st.respond(step as u32);
                if r.is_err() {
                    st.finish();
                }
                Some((r, st))
            } else {
                let e = svc_err(code);
                st.log(Produced::Err(e.rcode().to_int()));
                st.finish();
                Some((Err(e), st))
            }
        }
        Kind::Txn { n, gap_ms, begin_attached, end, noop_reconf } => {
            // steps: [begin] r0 r1 .. r(n-1) [end]
            let end = txn_end(n, begin_attached, end);
            let off = if begin_attached { 0 } else { 1 };
            if !begin_attached && step == 0 {
                return Some((Ok(CallResult::feedback_only(ServiceFeedback::BeginTransaction)), st));
            }
            let i = step - off;
            if i < n {
                if i > 0 && gap_ms > 0 {
                    tokio::time::sleep(Duration::from_millis(gap_ms as u64)).await;
                }
                let fb = if i == 0 && begin_attached {
                    Some(ServiceFeedback::BeginTransaction)
                } else if i + 1 == n && end == 1 {
                    Some(ServiceFeedback::EndTransaction)
                } else if noop_reconf {
                    Some(ServiceFeedback::Reconfigure { idle_timeout: None })
                } else {
                    None
                };
                let r = st.respond(i as u32);
                let r = match (r, fb) {
                    (Ok(cr), Some(fb)) => Ok(cr.with_feedback(fb)),
                    (r, _) => r,
                };
                if r.is_err() || (end != 0 && i + 1 == n) {
                    st.finish();
                }
                Some((r, st))
            } else if end == 0 && i == n {
                st.finish();
                Some((Ok(CallResult::feedback_only(ServiceFeedback::EndTransaction)), st))
            } else {
                st.finish();
                None
            }
        }
        Kind::Multi { n, gap_ms, transaction } => {
            // steps: [begin] r0 r1 .. r(n-1) [end]
            let off = if transaction { 1 } else { 0 };
            if transaction && step == 0 {
                return Some((Ok(CallResult::feedback_only(ServiceFeedback::BeginTransaction)), st));
            }
            let i = step - off;
            if i < n {
                if i > 0 && gap_ms > 0 {
                    tokio::time::sleep(Duration::from_millis(gap_ms as u64)).await;
                }
                let r = st.respond(i as u32);
                if r.is_err() || (!transaction && i + 1 == n) {
                    st.finish();
                }
                Some((r, st))
            } else if transaction && i == n {
                st.finish();
                Some((Ok(CallResult::feedback_only(ServiceFeedback::EndTransaction)), st))
            } else {
                st.finish();
                None
            }
        }
    }
}

impl Service<Vec<u8>, ()> for PlanSvc {
    type Target = Vec<u8>;
    type Stream = BoxStream;
    type Future = Pin<Box<dyn Future<Output = Self::Stream> + Send>>;

    fn call(&self, request: Request<Vec<u8>, ()>) -> Self::Future {
        let shared = self.shared.clone();
        Box::pin(async move {
            let id = request.message().header().id();
            let (plan, call_idx) = {
                let mut g = shared.lock().unwrap();
                let plan = g.plans.get(&id).cloned().unwrap_or_default();
                g.calls.push(Call { id, addr: request.client_addr(), udp: request.transport_ctx().is_udp(), produced: vec![], finished: false });
                (plan, g.calls.len() - 1)
            };
            if plan.delay_ms > 0 {
                tokio::time::sleep(Duration::from_millis(plan.delay_ms as u64)).await;
            }
            let st = St { shared, call_idx, req: request.message().clone(), plan, step: 0, done: false };
            Box::pin(futures_util::stream::unfold(st, next_item)) as BoxStream
        })
    }
}
