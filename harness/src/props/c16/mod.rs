//! C16 — servers answer each request once, correctly framed and within the
//! size limit.
//!
//! In-process: `DgramServer` over a mock `AsyncDgramSock` that records every
//! `send_to`, `StreamServer` over a mock `AsyncAccept` that hands out
//! `tokio::io::duplex` streams, the documented middleware stack
//! `MandatoryMiddlewareSvc(EdnsMiddlewareSvc(CookiesMiddlewareSvc(service)))`
//! and a harness service whose behaviour (single / streamed / slow / failing
//! / silent, answer size and shape) is looked up by request ID and which logs
//! everything it produces. Virtual time (paused tokio clock).
//!
//! Sub-checks `dgram_hist` / `stream_hist` add histories and representations
//! the plain ones do not have: runtime `DgramServer::reconfigure` between
//! datagrams, other receive buffer sizes, a socket that is not ready at
//! first, listeners whose accept future is delayed / never completes /
//! fails, a no-op `StreamServer::reconfigure`, a pre-connect hook, and
//! hostile messages with big question sections and the QR bit set.
//!
//! Sub-check `stream_txn`: transactions in every representation of the
//! service feedback (`BeginTransaction` / `EndTransaction` as feedback-only
//! stream items or attached to the first / last response, no end at all,
//! no-op `Reconfigure` attached to responses) pipelined on connections with
//! a short response queue: a response produced inside a transaction is never
//! discarded (all TCP sub-checks judge by that rule).
mod model;
mod net;
mod oracle;
mod svc;

use crate::engine::*;
use crate::refimpl::wire;
use crate::{vensure, vfail};
use arbitrary::Unstructured;
use domain::net::server::buf::{BufSource, VecBufSource};
use domain::net::server::dgram::{self, DgramServer};
use domain::net::server::middleware::cookies::CookiesMiddlewareSvc;
use domain::net::server::middleware::edns::EdnsMiddlewareSvc;
use domain::net::server::middleware::mandatory::MandatoryMiddlewareSvc;
use domain::net::server::stream::{self, StreamServer};
use domain::net::server::ConnectionConfig;
use model::*;
use oracle::{Fit, ReqView};
use std::collections::{BTreeMap, BTreeSet};
use std::net::SocketAddr;
use std::sync::{Arc, Mutex};
use std::time::Duration;
use svc::{Call, Kind, Plan, PlanSvc, Produced, Shared};
use tokio::io::{AsyncReadExt, AsyncWriteExt};

type Stack = MandatoryMiddlewareSvc<Vec<u8>, EdnsMiddlewareSvc<Vec<u8>, CookiesMiddlewareSvc<Vec<u8>, PlanSvc, ()>, ()>, ()>;

fn stack(shared: Arc<Mutex<Shared>>, cookies: bool) -> Stack {
    let svc = PlanSvc { shared };
    let svc = CookiesMiddlewareSvc::<Vec<u8>, _, ()>::new(svc, [7u8; 16]).enable(cookies);
    let svc = EdnsMiddlewareSvc::<Vec<u8>, _, ()>::new(svc);
    MandatoryMiddlewareSvc::<Vec<u8>, _, ()>::new(svc)
}

/// UDP receive buffer of `VecBufSource::create_buf`.
const UDP_BUF: usize = 1024;

//------------ running a UDP case ------------------------------------------------

struct UdpObs {
    sent: Vec<(SocketAddr, Vec<u8>)>,
    calls: Vec<Call>,
    alive: bool,
    received: usize,
    /// send attempts the socket answered with "not ready"
    pendings: usize,
}

fn run_udp(case: &UdpCase) -> UdpObs {
    if case.buf == UDP_BUF {
        run_udp_with(case, VecBufSource)
    } else {
        run_udp_with(case, net::SizedBuf(case.buf))
    }
}

fn run_udp_with<B>(case: &UdpCase, bufsrc: B) -> UdpObs
where
    B: BufSource<Output = Vec<u8>> + Send + Sync + 'static,
{
    let shared = Arc::new(Mutex::new(Shared::default()));
    let mut settle = 0u64;
    for it in &case.items {
        if let What::Wf { req, plan, .. } = &it.what {
            shared.lock().unwrap().plans.insert(req.id, plan.clone());
            settle = settle.max(plan.total_ms());
        }
    }
    let sh = shared.clone();
    block_on_paused(async move {
        let mut cfg = dgram::Config::new();
        cfg.set_max_response_size(case.cfg);
        let sock = net::MockSock::new(case.send_pending);
        let srv = Arc::new(DgramServer::with_config(sock, bufsrc, stack(sh.clone(), case.cookies), cfg));
        let sock = srv.source();
        let h = tokio::spawn({
            let s = srv.clone();
            async move { s.run().await }
        });
        let mut reconf_failed = false;
        for it in &case.items {
            if it.gap_ms > 0 {
                tokio::time::sleep(Duration::from_millis(it.gap_ms as u64)).await;
            }
            let bytes = match &it.what {
                What::Wf { req, .. } => req.bytes(),
                What::Hostile { bytes, .. } => bytes.clone(),
                What::Reconf { cfg } => {
                    // everything delivered so far is received under the old
                    // configuration, everything that follows under the new one
                    tokio::time::sleep(Duration::from_millis(1)).await;
                    let mut c = dgram::Config::new();
                    c.set_max_response_size(*cfg);
                    if srv.reconfigure(c).is_err() {
                        reconf_failed = true;
                    }
                    tokio::time::sleep(Duration::from_millis(1)).await;
                    continue;
                }
            };
            sock.deliver(bytes, it.addr);
        }
        tokio::time::sleep(Duration::from_millis(settle + 2000)).await;
        let alive = !h.is_finished() && !reconf_failed;
        let sent = sock.sent.lock().unwrap().clone();
        let received = *sock.received.lock().unwrap();
        let pendings = *sock.pendings.lock().unwrap();
        let _ = srv.shutdown();
        let calls = sh.lock().unwrap().calls.clone();
        UdpObs { sent, calls, alive, received, pendings }
    })
}

fn fit_class(ctx: &mut Ctx, t: &str, fit: Option<Fit>, edns: bool) {
    match fit {
        Some(Fit::Exactly) => ctx.class(format!("{t}:fits-exactly")),
        Some(Fit::MinusOne) => ctx.class(format!("{t}:limit-1")),
        Some(Fit::PlusOne) => {
            ctx.class(format!("{t}:limit+1"));
            ctx.class(format!("{t}:truncated"));
        }
        Some(Fit::Over) => ctx.class(format!("{t}:truncated")),
        Some(Fit::Fits) => ctx.class(format!("{t}:fits")),
        None => {}
    }
    if matches!(fit, Some(Fit::Over | Fit::PlusOne)) && !edns {
        ctx.class(format!("{t}:no-edns-truncated"));
    }
}

/// What the server saw of a hostile datagram / message.
fn hostile_view(what: String, seen: &[u8], cfg: Option<u16>, tcp: bool) -> ReqView {
    let id = if seen.len() >= 12 { Some(u16::from_be_bytes([seen[0], seen[1]])) } else { None };
    let w = wire::walk(seen);
    let clean = matches!(&w, Some(w) if w.error.is_none());
    let mut question = None;
    let mut has_opt = false;
    // A datagram in which no OPT record can be found (because it can not
    // even be walked) does not advertise EDNS: 512.
    let mut limit = if tcp { None } else { Some(512) };
    if let (true, Some(w)) = (clean, &w) {
        if w.questions.len() == 1 {
            let q = &w.questions[0];
            question = Some((q.name.clone(), q.qtype, q.qclass));
        }
        let opt = w.records.iter().find(|r| r.section == 3 && r.rtype == oracle::OPT);
        has_opt = opt.is_some();
        if !tcp {
            limit = Some(udp_limit(opt.map(|r| r.class), cfg));
        }
    }
    // A datagram that cannot be walked to its end may still carry an OPT
    // record in front of the damage: the server's lazy reader finds it (it
    // skips over records frame by frame exactly like the walker does) and the
    // client did advertise a size in it. Honouring that size is what the
    // statement allows ("the client's advertised EDNS size"), so the limit is
    // taken from an OPT the walk reached before it failed (the earlier rule
    // "not walkable => 512" demanded more than the property in that corner;
    // corrected by the integrator while triaging the libFuzzer findings of
    // the thorough tier, none of which turned out to be this corner).
    if let (false, Some(w), false) = (clean, &w, tcp) {
        if let Some(opt) = w.records.iter().find(|r| r.section == 3 && r.rtype == oracle::OPT) {
            limit = Some(udp_limit(Some(opt.class), cfg));
        }
    }
    ReqView { what, id, question, has_opt, limit, no_edns_hint: cfg.map(|c| c as usize), tcp }
}

fn check_udp(case: &UdpCase, obs: &UdpObs, ctx: &mut Ctx) -> CaseResult {
    vensure!(obs.alive, "udp:server-task-ended", "DgramServer::run returned before shutdown");
    vensure!(obs.received == case.n_datagrams(), "udp:datagrams-not-consumed", "{} datagrams delivered, the server took {}", case.n_datagrams(), obs.received);
    if case.buf != UDP_BUF {
        ctx.class(format!("udp:recv-buf:{}", if case.buf < UDP_BUF { "smaller" } else { "larger" }));
    }
    if obs.pendings > 0 {
        ctx.class("udp:send-not-ready-at-first");
    }
    let mut by_addr: BTreeMap<SocketAddr, Vec<&[u8]>> = BTreeMap::new();
    for (a, d) in &obs.sent {
        by_addr.entry(*a).or_default().push(d);
    }
    for a in by_addr.keys() {
        vensure!(case.items.iter().any(|i| i.addr == *a), "udp:response-to-unknown-address", "a datagram was sent to {a}, nobody sent a request from there");
    }
    let empty: Vec<&[u8]> = vec![];
    // a reconfiguration that changed the limit precedes this item
    let mut reconfigured = false;
    for (n, it) in case.items.iter().enumerate() {
        let w = by_addr.get(&it.addr).unwrap_or(&empty);
        match &it.what {
            What::Reconf { cfg } => {
                ctx.class("udp:reconfigure");
                if n > 0 && case.items[n - 1].cfg != *cfg || n == 0 && case.cfg != *cfg {
                    reconfigured = true;
                    ctx.class("udp:reconfigure:limit-changed");
                }
            }
            What::Wf { req, plan, sentinel } => {
                let edns_sz = req.edns.as_ref().map(|e| e.udp);
                let rv = ReqView {
                    what: format!("udp request #{n} [{}] cfg={:?}{} plan={:?}", req.show(), it.cfg, if reconfigured { " (after reconfigure)" } else { "" }, plan),
                    id: Some(req.id),
                    question: Some((req.qname.clone(), req.qtype, req.qclass)),
                    has_opt: req.edns.is_some(),
                    limit: Some(udp_limit(edns_sz, it.cfg)),
                    no_edns_hint: it.cfg.map(|c| c as usize),
                    tcp: false,
                };
                if reconfigured && req.edns.is_some() {
                    ctx.class("udp:edns-request-after-reconfigure");
                }
                if req.edns.is_none() {
                    ctx.class("udp:no-edns");
                } else {
                    ctx.class(format!("udp:edns-size:{}", match edns_sz.unwrap() { 0..=511 => "<512", 512 => "512", 513..=1231 => "513..1231", 1232 => "1232", 1233..=4095 => "1233..4095", 4096 => "4096", _ => ">4096" }));
                }
                let calls: Vec<&Call> = obs.calls.iter().filter(|c| c.id == req.id).collect();
                vensure!(calls.len() <= 1, "udp:request-dispatched-twice", "{}: the service was called {} times", rv.what, calls.len());
                let tag = if *sentinel { "udp:sentinel" } else { "udp" };
                match calls.first() {
                    None => {
                        if req.plain(false, case.cookies) {
                            vfail!(format!("{tag}:request-not-dispatched"), "{}: well-formed request never reached the service; {} responses", rv.what, w.len());
                        }
                        ctx.class("udp:answered-by-middleware");
                        vensure!(w.len() == 1, format!("{tag}:error-response-count"), "{}: {} responses to a request the middleware rejects", rv.what, w.len());
                        let p = oracle::check_basic(tag, &rv, w[0])?;
                        let t2 = if case.cookies && req.cookie_malformed() { format!("{tag}:malformed-cookie") } else { format!("{tag}:rejected") };
                        oracle::check_question(&t2, &rv, &p)?;
                    }
                    Some(call) => {
                        vensure!(call.addr == it.addr && call.udp, "udp:request-context-wrong", "{}: service saw client {} udp={}", rv.what, call.addr, call.udp);
                        vensure!(call.finished, "harness:service-not-finished", "{}: service still running at the end of the scenario", rv.what);
                        vensure!(w.len() >= call.produced.len(), format!("{tag}:response-missing"), "{}: service produced {} responses, {} were sent", rv.what, call.produced.len(), w.len());
                        vensure!(w.len() <= call.produced.len(), format!("{tag}:response-duplicated"), "{}: service produced {} responses, {} were sent", rv.what, call.produced.len(), w.len());
                        for (wm, p) in w.iter().zip(call.produced.iter()) {
                            let fit = oracle::check_against(tag, &rv, wm, p)?;
                            fit_class(ctx, "udp", fit, req.edns.is_some());
                            if matches!(p, Produced::Err(_)) {
                                ctx.class("svc:fail");
                            }
                        }
                        match &plan.kind {
                            Kind::Multi { .. } => ctx.class("svc:multi"),
                            Kind::Silent => ctx.class("svc:silent"),
                            _ => {}
                        }
                        if plan.delay_ms > 0 {
                            ctx.class("svc:slow");
                        }
                    }
                }
                if *sentinel {
                    ctx.class("udp:sentinel-answered");
                }
            }
            What::Hostile { bytes, tags } => {
                for t in tags {
                    ctx.class(format!("hostile:{t}"));
                }
                let seen = &bytes[..bytes.len().min(case.buf)];
                if bytes.len() > case.buf {
                    ctx.class("hostile:cut-by-recv-buf");
                }
                if tags.contains(&"qr-twist") || tags.contains(&"qr-set") {
                    if let Some(wk) = wire::walk(seen) {
                        if wk.error.is_none() && wk.records.iter().any(|r| r.section == 3 && r.rtype == oracle::OPT && udp_limit(Some(r.class), None) > it.cfg.map(|c| c as usize).unwrap_or(usize::MAX)) {
                            ctx.class("hostile:qr-with-opt-above-configured");
                            if seen.len() + 11 > it.cfg.unwrap_or(u16::MAX) as usize {
                                ctx.class("hostile:qr-with-opt-above-configured:echo-exceeds-configured");
                            }
                        }
                    }
                }
                let rv = hostile_view(format!("hostile udp datagram #{n} {:?} [{}] cfg={:?} buf={}", tags, oracle::hex(bytes), it.cfg, case.buf), seen, it.cfg, false);
                let calls: Vec<&Call> = obs.calls.iter().filter(|c| c.addr == it.addr).collect();
                vensure!(calls.len() <= 1, "udp:hostile:request-dispatched-twice", "{}: the service was called {} times", rv.what, calls.len());
                // A datagram shorter than a DNS header has no ID (and no
                // question) a response could carry; dgram.rs documents that
                // no response is sent in that case.
                if seen.len() < 12 {
                    ctx.class("hostile:shorter-than-header");
                    vensure!(w.is_empty() && calls.is_empty(), "udp:hostile:response-to-headerless-datagram", "{}: a datagram of {} octets (no complete header, hence no ID) was answered with {} responses (service called: {}); first: {}", rv.what, bytes.len(), w.len(), !calls.is_empty(), w.first().map(|m| oracle::hex(m)).unwrap_or_default());
                }
                match calls.first() {
                    None => {
                        vensure!(w.len() <= 1, "udp:hostile:response-duplicated", "{}: {} responses", rv.what, w.len());
                        if let Some(wm) = w.first() {
                            let p = oracle::check_basic("udp:hostile", &rv, wm)?;
                            oracle::check_question("udp:hostile", &rv, &p)?;
                            ctx.class("hostile:answered-with-error");
                        } else {
                            ctx.class("hostile:silence");
                        }
                    }
                    Some(call) => {
                        ctx.class("hostile:reached-service");
                        vensure!(call.finished, "harness:service-not-finished", "{}", rv.what);
                        vensure!(w.len() == call.produced.len(), "udp:hostile:response-count", "{}: service produced {} responses, {} were sent", rv.what, call.produced.len(), w.len());
                        for (wm, p) in w.iter().zip(call.produced.iter()) {
                            oracle::check_against("udp:hostile", &rv, wm, p)?;
                        }
                    }
                }
            }
        }
    }
    Ok(())
}

fn udp_nontrivial(case: &UdpCase, ctx: &Ctx) -> bool {
    ctx.classes.iter().any(|c| c == "udp:truncated") || case.items.windows(2).any(|w| matches!(w[0].what, What::Hostile { .. }) && matches!(w[1].what, What::Wf { sentinel: true, .. }))
}

fn show_udp(case: &UdpCase) -> String {
    let mut s = format!("UDP cfg={:?} cookies={} buf={} send_pending={} ", case.cfg, case.cookies, case.buf, case.send_pending);
    for it in &case.items {
        match &it.what {
            What::Wf { req, plan, sentinel } => s.push_str(&format!("| +{}ms {}{} plan(delay={} {:?} target={:?} opt={}) ", it.gap_ms, if *sentinel { "SENTINEL " } else { "" }, req.show(), plan.delay_ms, plan.kind, plan.shape.target, plan.shape.opt.is_some())),
            What::Hostile { bytes, tags } => s.push_str(&format!("| +{}ms HOSTILE{:?} {} octets ", it.gap_ms, tags, bytes.len())),
            What::Reconf { cfg } => s.push_str(&format!("| +{}ms RECONFIGURE cfg={:?} ", it.gap_ms, cfg)),
        }
    }
    s
}

fn run_dgram_hist(data: &[u8], ctx: &mut Ctx) -> CaseResult {
    let mut u = Unstructured::new(data);
    let case = udp_case_ext(&mut u, true);
    ctx.sample(|| show_udp(&case));
    let obs = run_udp(&case);
    let r = check_udp(&case, &obs, ctx);
    if udp_nontrivial(&case, ctx) {
        ctx.nontrivial(&format!("{case:?}"));
    }
    r
}

fn run_dgram(data: &[u8], ctx: &mut Ctx) -> CaseResult {
    let mut u = Unstructured::new(data);
    let case = udp_case(&mut u);
    ctx.sample(|| show_udp(&case));
    let obs = run_udp(&case);
    let r = check_udp(&case, &obs, ctx);
    if udp_nontrivial(&case, ctx) {
        ctx.nontrivial(&format!("{case:?}"));
    }
    r
}

/// Raw-bytes entry (also the libFuzzer target `c16_dgram`): data[0] selects
/// the server options, the rest is one datagram; a sentinel follows.
fn run_dgram_raw(data: &[u8], ctx: &mut Ctx) -> CaseResult {
    let opt = data.first().copied().unwrap_or(0);
    let dgram = if data.is_empty() { vec![] } else { data[1..].to_vec() };
    let cookies = opt & 1 == 1;
    let cfg = CFGS[((opt >> 1) & 7) as usize];
    let mut sid = 0x0101u16;
    if dgram.len() >= 2 && dgram[0] == 1 && dgram[1] == 1 {
        sid = 0x0202;
    }
    let a1 = SocketAddr::from(([192, 0, 2, 1], 10000));
    let a2 = SocketAddr::from(([192, 0, 2, 2], 10001));
    let tag: &'static str = match wire::walk(&dgram[..dgram.len().min(UDP_BUF)]) {
        None => "raw-short",
        Some(w) if w.error.is_some() => "raw-broken",
        Some(w) if w.header.qr() => "raw-clean-qr",
        Some(w) if w.header.opcode() != 0 => "raw-clean-opcode",
        Some(w) if w.questions.len() != 1 => "raw-clean-qdcount",
        Some(_) => "raw-clean-query",
    };
    let case = UdpCase {
        cookies,
        cfg,
        buf: UDP_BUF,
        send_pending: false,
        items: vec![
            UItem { gap_ms: 0, addr: a1, cfg, what: What::Hostile { bytes: dgram, tags: vec![tag] } },
            UItem { gap_ms: (opt >> 4 & 1) as u32, addr: a2, cfg, what: What::Wf { req: sentinel(sid, opt & 0x20 != 0), plan: Plan::default(), sentinel: true } },
        ],
    };
    ctx.sample(|| show_udp(&case));
    let obs = run_udp(&case);
    let r = check_udp(&case, &obs, ctx);
    ctx.nontrivial(&format!("{case:?}"));
    r
}

//------------ running a TCP case ------------------------------------------------

struct ConnObs {
    bytes: Vec<u8>,
    eof: bool,
}

struct TcpObs {
    conns: Vec<ConnObs>,
    calls: Vec<Call>,
    alive: bool,
}

fn noop_hook(_: &mut tokio::io::DuplexStream) {}

fn frame_of(w: &TWhat) -> Option<Vec<u8>> {
    match w {
        TWhat::Wf { req, .. } => {
            let m = req.bytes();
            let mut f = (m.len() as u16).to_be_bytes().to_vec();
            f.extend_from_slice(&m);
            Some(f)
        }
        TWhat::Hostile { frame, .. } => Some(frame.clone()),
        _ => None,
    }
}

fn run_tcp(case: &TcpCase) -> TcpObs {
    let shared = Arc::new(Mutex::new(Shared::default()));
    let mut settle = 0u64;
    for c in &case.conns {
        for it in &c.items {
            if let TWhat::Wf { req, plan, .. } = &it.what {
                shared.lock().unwrap().plans.insert(req.id, plan.clone());
                settle = settle.max(plan.total_ms());
            }
        }
    }
    // a connection whose establishment takes a while is served afterwards
    settle += case.conns.iter().map(|c| if let Accept::Delay(ms) = c.accept { ms as u64 } else { 0 }).max().unwrap_or(0);
    let sh = shared.clone();
    block_on_paused(async move {
        let (listener, tx) = net::MockListener::new();
        let mk_cfg = |max_conns: Option<usize>| {
            let mut cc = ConnectionConfig::new();
            cc.set_idle_timeout(Duration::from_millis(case.idle_ms));
            cc.set_max_queued_responses(case.max_queued);
            let mut cfg = stream::Config::new();
            cfg.set_connection_config(cc);
            if let Some(m) = max_conns {
                cfg.set_max_concurrent_connections(m);
            }
            cfg
        };
        let srv = StreamServer::with_config(listener, VecBufSource, stack(sh.clone(), case.cookies), mk_cfg(None));
        let srv = Arc::new(if case.hook { srv.with_pre_connect_hook(noop_hook) } else { srv });
        let h = tokio::spawn({
            let s = srv.clone();
            async move { s.run().await }
        });
        let reconf_ok = Arc::new(Mutex::new(true));
        if let Some(at) = case.reconf_at_ms {
            let s = srv.clone();
            let new_cfg = mk_cfg(Some(90));
            let ok = reconf_ok.clone();
            tokio::spawn(async move {
                tokio::time::sleep(Duration::from_millis(at as u64)).await;
                if s.reconfigure(new_cfg).is_err() {
                    *ok.lock().unwrap() = false;
                }
            });
        }
        let mut clients = vec![];
        let mut bufs = vec![];
        for c in &case.conns {
            let buf = Arc::new(Mutex::new((Vec::<u8>::new(), false)));
            bufs.push(buf.clone());
            let tx = tx.clone();
            let c = c.clone();
            let cap = case.cap;
            clients.push(tokio::spawn(async move {
                if c.start_ms > 0 {
                    tokio::time::sleep(Duration::from_millis(c.start_ms as u64)).await;
                }
                let (client, server) = tokio::io::duplex(cap);
                let _ = tx.send((server, c.addr, c.accept));
                let dead = c.accept.dead();
                let (mut rd, mut wr) = tokio::io::split(client);
                let reader = tokio::spawn(async move {
                    let mut tmp = vec![0u8; 8192];
                    loop {
                        match rd.read(&mut tmp).await {
                            Ok(0) | Err(_) => {
                                buf.lock().unwrap().1 = true;
                                break;
                            }
                            Ok(n) => buf.lock().unwrap().0.extend_from_slice(&tmp[..n]),
                        }
                    }
                });
                for it in &c.items {
                    if it.gap_ms > 0 {
                        tokio::time::sleep(Duration::from_millis(it.gap_ms as u64)).await;
                    }
                    match &it.what {
                        TWhat::Abort => {
                            reader.abort();
                            let _ = reader.await;
                            return None;
                        }
                        TWhat::HalfClose => {
                            let _ = wr.shutdown().await;
                        }
                        w => {
                            let f = frame_of(w).unwrap();
                            let mut pos = 0;
                            for &s in it.splits.iter().chain(std::iter::once(&f.len())) {
                                let s = s.min(f.len());
                                if s > pos {
                                    // nobody reads on a connection the server never gets hold of;
                                    // on the others the server reads whatever the service is doing, a
                                    // write that makes no progress for 5 s of virtual time means that
                                    // the server does not serve this connection (the oracle then
                                    // reports what is missing; without the limit the scenario would
                                    // never end)
                                    let limit = Duration::from_millis(if dead { 50 } else { 5000 });
                                    let res = tokio::time::timeout(limit, wr.write_all(&f[pos..s])).await.unwrap_or(Err(std::io::ErrorKind::TimedOut.into()));
                                    if res.is_err() {
                                        break;
                                    }
                                    pos = s;
                                    // between the chunks of a split write the server gets to run;
                                    // after a complete item it does not, so that items with gap 0
                                    // arrive as one burst (as far as the stream's capacity allows)
                                    if pos < f.len() {
                                        if it.chunk_gap_ms > 0 {
                                            tokio::time::sleep(Duration::from_millis(it.chunk_gap_ms as u64)).await;
                                        } else {
                                            tokio::task::yield_now().await;
                                        }
                                    }
                                }
                            }
                        }
                    }
                }
                // keep the connection open until the scenario ends
                Some((wr, reader))
            }));
        }
        let mut keep = vec![];
        for c in clients {
            keep.push(c.await.ok().flatten());
        }
        tokio::time::sleep(Duration::from_millis(settle + 2000)).await;
        let alive = !h.is_finished() && *reconf_ok.lock().unwrap();
        let conns = bufs
            .iter()
            .map(|b| {
                let g = b.lock().unwrap();
                ConnObs { bytes: g.0.clone(), eof: g.1 }
            })
            .collect();
        let _ = srv.shutdown();
        drop(keep);
        let calls = sh.lock().unwrap().calls.clone();
        TcpObs { conns, calls, alive }
    })
}

fn split_frames(b: &[u8]) -> (Vec<&[u8]>, &[u8]) {
    let mut out = vec![];
    let mut pos = 0;
    while pos + 2 <= b.len() {
        let l = u16::from_be_bytes([b[pos], b[pos + 1]]) as usize;
        if pos + 2 + l > b.len() {
            break;
        }
        out.push(&b[pos + 2..pos + 2 + l]);
        pos += 2 + l;
    }
    (out, &b[pos..])
}

/// Compares the responses seen for one request with what the service
/// produced. `lenient`: the connection was damaged by the client, responses
/// may be missing (but never wrong, duplicated or out of order).
fn match_responses(t: &str, rv: &ReqView, w: &[&[u8]], produced: &[Produced], lenient: bool, missing_sig: &str) -> CaseResult {
    if !lenient {
        vensure!(w.len() >= produced.len(), missing_sig.to_string(), "{}: service produced {} responses, {} arrived", rv.what, produced.len(), w.len());
    }
    vensure!(w.len() <= produced.len(), format!("{t}:response-duplicated"), "{}: service produced {} responses, {} arrived", rv.what, produced.len(), w.len());
    let mut j = 0;
    for wm in w {
        let mut first_err = None;
        let mut ok = false;
        while j < produced.len() {
            match oracle::check_against(t, rv, wm, &produced[j]) {
                Ok(_) => {
                    ok = true;
                    j += 1;
                    break;
                }
                Err(e) => {
                    if first_err.is_none() {
                        first_err = Some(e);
                    }
                    if !lenient {
                        break;
                    }
                    j += 1;
                }
            }
        }
        if !ok {
            return Err(first_err.unwrap_or_else(|| Violation::new(format!("{t}:response-duplicated"), format!("{}: more responses than the service produced", rv.what))));
        }
    }
    Ok(())
}

/// Which of the responses the service produced are not among the ones that
/// arrived (same greedy in-order matching as `match_responses` in lenient
/// mode; a wire message that matches nothing is left to `match_responses`).
fn missing_indices(t: &str, rv: &ReqView, w: &[&[u8]], produced: &[Produced]) -> Vec<usize> {
    let mut missing = vec![];
    let mut j = 0;
    for wm in w {
        let mut k = j;
        while k < produced.len() && oracle::check_against(t, rv, wm, &produced[k]).is_err() {
            k += 1;
        }
        if k == produced.len() {
            continue;
        }
        missing.extend(j..k);
        j = k + 1;
    }
    missing.extend(j..produced.len());
    missing
}

fn check_tcp(case: &TcpCase, obs: &TcpObs, ctx: &mut Ctx) -> CaseResult {
    vensure!(obs.alive, "tcp:server-task-ended", "StreamServer::run returned before shutdown");
    let empty: Vec<&[u8]> = vec![];
    for (ci, conn) in case.conns.iter().enumerate() {
        let o = &obs.conns[ci];
        let doomed = conn.accept.dead() || conn.items.iter().any(|i| matches!(i.what, TWhat::Abort | TWhat::HalfClose | TWhat::Hostile { doomed: true, .. }));
        match conn.accept {
            Accept::Ready => {}
            Accept::Delay(_) => ctx.class("tcp:accept-delayed"),
            Accept::Never => ctx.class("tcp:accept-never-completes"),
            Accept::Fail => ctx.class("tcp:accept-future-fails"),
            Accept::Refused => ctx.class("tcp:poll-accept-fails"),
        }
        if conn.accept.dead() {
            // the server never had a stream to write to
            vensure!(o.bytes.is_empty(), "tcp:octets-on-connection-never-established", "connection {ci} ({:?}): {} octets arrived: {}", conn.accept, o.bytes.len(), oracle::hex(&o.bytes));
        }
        if ci > 0 && case.conns[..ci].iter().any(|c| c.accept == Accept::Never && c.start_ms <= conn.start_ms) && !conn.accept.dead() {
            ctx.class("tcp:connection-after-stalled-accept");
        }
        let aborted = conn.items.iter().any(|i| matches!(i.what, TWhat::Abort));
        let (frames, rest) = split_frames(&o.bytes);
        if !aborted {
            vensure!(rest.is_empty(), "tcp:partial-frame", "connection {ci}: the stream ends with {} octets that are not a complete length-prefixed message: {}", rest.len(), oracle::hex(rest));
        }
        let mut by_id: BTreeMap<u16, Vec<&[u8]>> = BTreeMap::new();
        let mut order: Vec<u16> = vec![];
        for f in &frames {
            vensure!(f.len() >= 12, "tcp:malformed-response", "connection {ci}: frame of {} octets: {}", f.len(), oracle::hex(f));
            let id = u16::from_be_bytes([f[0], f[1]]);
            if !order.contains(&id) {
                order.push(id);
            }
            by_id.entry(id).or_default().push(f);
        }
        let mut known: BTreeSet<u16> = BTreeSet::new();
        let mut wf_order = vec![];
        for it in &conn.items {
            match &it.what {
                TWhat::Wf { req, .. } => {
                    known.insert(req.id);
                    wf_order.push(req.id);
                }
                TWhat::Hostile { id: Some(id), .. } => {
                    known.insert(*id);
                }
                _ => {}
            }
        }
        for (id, fs) in &by_id {
            vensure!(known.contains(id), "tcp:unexpected-response", "connection {ci}: {} responses with ID {id:#06x}, which no request on this connection had (requests: {:04x?}); first: {}", fs.len(), known, oracle::hex(fs[0]));
        }
        // responses expected on this connection, for the classification of
        // a missing one
        // (a request answered by a middleware or the transport itself also
        // takes a place in the queue)
        let expected_total: usize = conn
            .items
            .iter()
            .map(|i| {
                let id = match &i.what {
                    TWhat::Wf { req, .. } => Some(req.id),
                    TWhat::Hostile { id, doomed: false, .. } => *id,
                    _ => None,
                };
                match id {
                    Some(id) => obs.calls.iter().find(|c| c.id == id).map(|c| c.produced.len()).unwrap_or(1),
                    None => 0,
                }
            })
            .sum();
        let slow = conn.items.iter().any(|i| matches!(&i.what, TWhat::Wf { plan, .. } if plan.total_ms() >= case.idle_ms));
        let missing_sig = if expected_total > case.max_queued {
            ctx.class("tcp:more-responses-than-queue");
            "tcp:response-missing:more-responses-than-queue"
        } else if slow {
            "tcp:response-missing:service-slower-than-idle-timeout"
        } else {
            "tcp:response-missing"
        };
        if slow {
            ctx.class("tcp:service-slower-than-idle-timeout");
        }
        let got_order: Vec<u16> = order.iter().copied().filter(|i| wf_order.contains(i)).collect();
        let want_order: Vec<u16> = wf_order.iter().copied().filter(|i| got_order.contains(i)).collect();
        if got_order != want_order {
            ctx.class("tcp:out-of-order");
        }
        if conn.items.len() >= 2 && conn.items[1..].iter().any(|i| i.gap_ms == 0) {
            ctx.class("tcp:pipelined");
        }
        // responses discarded because the queue was full (known finding) /
        // transactions delivered completely on this connection
        let mut overflowed = false;
        let mut txn_complete = false;
        for (n, it) in conn.items.iter().enumerate() {
            if !it.splits.is_empty() {
                ctx.class("tcp:split-write");
            }
            match &it.what {
                TWhat::Abort => ctx.class("tcp:abort"),
                TWhat::HalfClose => ctx.class("tcp:half-close"),
                TWhat::Wf { req, plan, sentinel } => {
                    let w = by_id.get(&req.id).unwrap_or(&empty);
                    let rv = ReqView {
                        what: format!("tcp connection {ci} request #{n} [{}] idle={}ms queue={} cap={} plan={:?}", req.show(), case.idle_ms, case.max_queued, case.cap, plan),
                        id: Some(req.id),
                        question: Some((req.qname.clone(), req.qtype, req.qclass)),
                        has_opt: req.edns.is_some(),
                        limit: None,
                        no_edns_hint: None,
                        tcp: true,
                    };
                    let tag = if *sentinel { "tcp:sentinel" } else { "tcp" };
                    let calls: Vec<&Call> = obs.calls.iter().filter(|c| c.id == req.id).collect();
                    vensure!(calls.len() <= 1, "tcp:request-dispatched-twice", "{}: the service was called {} times", rv.what, calls.len());
                    match calls.first() {
                        None => {
                            if doomed {
                                vensure!(w.len() <= 1, format!("{tag}:response-duplicated"), "{}: {} responses", rv.what, w.len());
                            } else {
                                if req.plain(true, case.cookies) {
                                    vfail!(format!("{tag}:request-not-dispatched"), "{}: well-formed request never reached the service; {} responses", rv.what, w.len());
                                }
                                ctx.class("tcp:answered-by-middleware");
                                vensure!(w.len() <= 1, format!("{tag}:response-duplicated"), "{}: {} responses to a request the middleware rejects", rv.what, w.len());
                                if w.is_empty() {
                                    let sig = if *sentinel { format!("tcp:sentinel:{}", &missing_sig[4..]) } else { missing_sig.to_string() };
                                    ctx.report(Violation::new(sig, format!("{}: no response to a request the middleware rejects", rv.what)))?;
                                }
                            }
                            if let Some(wm) = w.first() {
                                let p = oracle::check_basic(tag, &rv, wm)?;
                                let t2 = if case.cookies && req.cookie_malformed() { format!("{tag}:malformed-cookie") } else { format!("{tag}:rejected") };
                                oracle::check_question(&t2, &rv, &p)?;
                            }
                        }
                        Some(call) => {
                            vensure!(call.addr == conn.addr && !call.udp, "tcp:request-context-wrong", "{}: service saw client {} udp={}", rv.what, call.addr, call.udp);
                            if !doomed {
                                vensure!(call.finished, "harness:service-not-finished", "{}: service still running at the end of the scenario", rv.what);
                            }
                            let sig = if *sentinel { format!("tcp:sentinel:{}", &missing_sig[4..]) } else { missing_sig.to_string() };
                            let mut lenient = doomed;
                            if !doomed && w.len() < call.produced.len() {
                                // A response produced inside a transaction is never discarded for
                                // lack of room in the queue (ServiceFeedback::BeginTransaction: "an
                                // entire set of related response messages are all sent back to the
                                // caller rather than being dropped if the outgoing queue is full"),
                                // however the service attaches the feedback to its stream items.
                                let miss = missing_indices(tag, &rv, w, &call.produced);
                                if let Some(&i) = miss.iter().find(|&&i| plan.in_transaction(i) && call.produced[..=i].iter().all(|p| matches!(p, Produced::Resp(_)))) {
                                    vfail!(
                                        format!("{tag}:response-missing:in-transaction"),
                                        "{}: response #{i} of {} was produced inside a transaction (BeginTransaction given, EndTransaction not yet) and never arrived; {} responses arrived",
                                        rv.what,
                                        call.produced.len(),
                                        w.len()
                                    );
                                }
                                overflowed = true;
                                // tolerated only if it is a known finding; the rest of the scenario is still checked
                                ctx.report(Violation::new(sig.clone(), format!("{}: service produced {} responses, {} arrived", rv.what, call.produced.len(), w.len())))?;
                                lenient = true;
                            }
                            match_responses(tag, &rv, w, &call.produced, lenient, &sig)?;
                            match &plan.kind {
                                Kind::Multi { transaction, .. } => ctx.class(if *transaction { "svc:multi-transaction" } else { "svc:multi" }),
                                Kind::Silent => ctx.class("svc:silent"),
                                Kind::Fail { .. } => ctx.class("svc:fail"),
                                Kind::Txn { n, begin_attached, end, noop_reconf, .. } => {
                                    ctx.class(if *begin_attached { "svc:txn:begin-with-first-response" } else { "svc:txn:begin-feedback-only" });
                                    ctx.class(match svc::txn_end(*n, *begin_attached, *end) {
                                        0 => "svc:txn:end-feedback-only",
                                        1 => "svc:txn:end-with-last-response",
                                        _ => "svc:txn:no-end",
                                    });
                                    if *noop_reconf {
                                        ctx.class("svc:txn:noop-reconfigure-feedback");
                                    }
                                    if *begin_attached && expected_total > case.max_queued {
                                        ctx.class("svc:txn:begin-with-first-response:more-responses-than-queue");
                                    }
                                }
                                _ => {}
                            }
                            if !doomed && plan.in_transaction(0) && w.len() == call.produced.len() {
                                txn_complete = true;
                            }
                            if plan.delay_ms > 0 {
                                ctx.class("svc:slow");
                            }
                            if call.produced.iter().any(|p| matches!(p, Produced::Resp(b) if b.len() > 16000)) {
                                ctx.class("tcp:big-response");
                            }
                        }
                    }
                    if *sentinel && !w.is_empty() {
                        ctx.class("tcp:sentinel-answered");
                    }
                }
                TWhat::Hostile { frame, id, tags, doomed: d } => {
                    for t in tags {
                        ctx.class(format!("hostile:{t}"));
                    }
                    if *d {
                        ctx.class("hostile:kills-connection");
                    }
                    let Some(id) = id else { continue };
                    let w = by_id.get(id).unwrap_or(&empty);
                    let l = (u16::from_be_bytes([frame[0], frame[1]]) as usize).min(frame.len() - 2);
                    let rv = hostile_view(format!("hostile tcp message #{n} on connection {ci} {:?} [{}]", tags, oracle::hex(frame)), &frame[2..2 + l], None, true);
                    let calls: Vec<&Call> = obs.calls.iter().filter(|c| c.id == *id).collect();
                    vensure!(calls.len() <= 1, "tcp:hostile:request-dispatched-twice", "{}", rv.what);
                    match calls.first() {
                        None => {
                            vensure!(w.len() <= 1, "tcp:hostile:response-duplicated", "{}: {} responses", rv.what, w.len());
                            if let Some(wm) = w.first() {
                                let p = oracle::check_basic("tcp:hostile", &rv, wm)?;
                                oracle::check_question("tcp:hostile", &rv, &p)?;
                                ctx.class("hostile:answered-with-error");
                            }
                        }
                        Some(call) => {
                            ctx.class("hostile:reached-service");
                            let sig = format!("tcp:hostile:{}", &missing_sig[4..]);
                            match_responses("tcp:hostile", &rv, w, &call.produced, doomed, &sig)?;
                        }
                    }
                }
            }
        }
        if overflowed && txn_complete {
            // the queue was full at some point (another request lost a
            // response), the transaction was delivered completely
            ctx.class("tcp:txn:complete-although-queue-overflowed");
        }
        let _ = o.eof;
    }
    Ok(())
}

fn tcp_nontrivial(case: &TcpCase, ctx: &Ctx) -> bool {
    ctx.classes.iter().any(|c| c == "tcp:out-of-order") || case.conns.iter().any(|c| c.accept.dead() || c.items.iter().any(|i| matches!(i.what, TWhat::Hostile { .. })))
}

fn show_tcp(case: &TcpCase) -> String {
    let mut s = format!("TCP idle={}ms queue={} cap={} cookies={} reconfigure_at={:?} hook={} ", case.idle_ms, case.max_queued, case.cap, case.cookies, case.reconf_at_ms, case.hook);
    for (ci, c) in case.conns.iter().enumerate() {
        s.push_str(&format!("|| conn{ci}@{}ms accept={:?} ", c.start_ms, c.accept));
        for it in &c.items {
            match &it.what {
                TWhat::Wf { req, plan, sentinel } => s.push_str(&format!("| +{}ms {}{} split={:?} plan(delay={} {:?} target={:?}) ", it.gap_ms, if *sentinel { "SENTINEL " } else { "" }, req.show(), it.splits, plan.delay_ms, plan.kind, plan.shape.target)),
                TWhat::Hostile { frame, tags, doomed, .. } => s.push_str(&format!("| +{}ms HOSTILE{:?} {} octets doomed={} ", it.gap_ms, tags, frame.len(), doomed)),
                TWhat::Abort => s.push_str("| ABORT "),
                TWhat::HalfClose => s.push_str("| HALFCLOSE "),
            }
        }
    }
    s
}

fn run_stream_hist(data: &[u8], ctx: &mut Ctx) -> CaseResult {
    let mut u = Unstructured::new(data);
    let case = tcp_case_ext(&mut u, true);
    ctx.sample(|| show_tcp(&case));
    if case.reconf_at_ms.is_some() {
        ctx.class("tcp:reconfigure");
    }
    if case.hook {
        ctx.class("tcp:pre-connect-hook");
    }
    let obs = run_tcp(&case);
    let r = check_tcp(&case, &obs, ctx);
    if tcp_nontrivial(&case, ctx) {
        ctx.nontrivial(&fnv(&format!("{case:?}")));
    }
    r
}

fn run_stream_txn(data: &[u8], ctx: &mut Ctx) -> CaseResult {
    let mut u = Unstructured::new(data);
    let case = tcp_txn_case(&mut u);
    ctx.sample(|| show_tcp(&case));
    let obs = run_tcp(&case);
    let r = check_tcp(&case, &obs, ctx);
    if tcp_nontrivial(&case, ctx) {
        ctx.nontrivial(&fnv(&format!("{case:?}")));
    }
    r
}

fn run_stream(data: &[u8], ctx: &mut Ctx) -> CaseResult {
    let mut u = Unstructured::new(data);
    let case = tcp_case(&mut u);
    ctx.sample(|| show_tcp(&case));
    let obs = run_tcp(&case);
    let r = check_tcp(&case, &obs, ctx);
    if tcp_nontrivial(&case, ctx) {
        ctx.nontrivial(&fnv(&format!("{case:?}")));
    }
    r
}

fn health(c: &BTreeMap<String, u64>, _thorough: bool) -> Result<(), String> {
    for k in [
        "udp:truncated",
        "udp:fits-exactly",
        "udp:limit+1",
        "udp:limit-1",
        "udp:no-edns",
        "udp:no-edns-truncated",
        "udp:sentinel-answered",
        "tcp:sentinel-answered",
        "tcp:out-of-order",
        "tcp:pipelined",
        "tcp:split-write",
        "tcp:abort",
        "tcp:half-close",
        "hostile:kills-connection",
        "hostile:len-prefix-0",
        "hostile:len-prefix-1",
        "hostile:len-prefix-too-long",
        "hostile:len-prefix-65535",
        "hostile:qr-set",
        "hostile:pointer-loop",
        "hostile:qdcount-0",
        "hostile:qdcount-2",
        "hostile:opcode-other",
        "hostile:short",
        "svc:slow",
        "svc:fail",
        "svc:multi",
        "svc:multi-transaction",
        "svc:silent",
        "hostile:many-questions",
        "hostile:oversized",
        "hostile:two-opt",
        "hostile:reached-service",
        "hostile:answered-with-error",
        "hostile:silence",
        "tcp:big-response",
        "tcp:service-slower-than-idle-timeout",
        "tcp:more-responses-than-queue",
        "tcp:answered-by-middleware",
        "udp:answered-by-middleware",
        "udp:edns-size:<512",
        "udp:edns-size:512",
        "udp:edns-size:>4096",
        // sub-checks dgram_hist / stream_hist
        "udp:reconfigure:limit-changed",
        "udp:edns-request-after-reconfigure",
        "udp:recv-buf:larger",
        "udp:recv-buf:smaller",
        "udp:send-not-ready-at-first",
        "hostile:qr-twist",
        "hostile:big-question-section",
        "hostile:qr-with-opt-above-configured:echo-exceeds-configured",
        "hostile:cut-by-recv-buf",
        "tcp:accept-delayed",
        "tcp:accept-never-completes",
        "tcp:accept-future-fails",
        "tcp:poll-accept-fails",
        "tcp:connection-after-stalled-accept",
        "tcp:reconfigure",
        "tcp:pre-connect-hook",
        // sub-check stream_txn
        "svc:txn:begin-with-first-response",
        "svc:txn:begin-feedback-only",
        "svc:txn:end-feedback-only",
        "svc:txn:end-with-last-response",
        "svc:txn:no-end",
        "svc:txn:noop-reconfigure-feedback",
        "svc:txn:begin-with-first-response:more-responses-than-queue",
        "tcp:txn:complete-although-queue-overflowed",
    ] {
        if c.get(k).copied().unwrap_or(0) < 10 {
            return Err(format!("class {k} starved ({} cases)", c.get(k).copied().unwrap_or(0)));
        }
    }
    Ok(())
}

pub fn prop() -> Option<Prop> {
    Some(Prop {
        id: "C16",
        rule: "a scenario is non-trivial if at least one response needed truncation, or at least two pipelined requests on one connection completed out of order, or at least one hostile input (a hostile message, or a connection whose establishment never completes or fails) was followed by a sentinel well-formed request (distinct by the decoded scenario)",
        assumptions: &[
            "mock sockets (recording AsyncDgramSock, tokio::io::duplex behind a mock AsyncAccept), current-thread tokio runtime with paused clock: no kernel buffers, no real TCP segmentation, no multi-threaded scheduling",
            "liveness is bounded: a response counts as missing if it has not arrived 2 s of virtual time after the slowest service plan of the scenario finished",
            "the harness service is the only service; responses it builds are valid messages (checked) made of A/TXT/NULL/private-type records without name compression",
            "DgramServer::reconfigure is called only after everything sent so far has been received and 1 ms of virtual time before the next datagram; each request is judged against the limit configured when it was received",
            "configured UDP limit inside the documented range 512..=4096 or None; max_queued_responses >= 1 (0 makes tokio's mpsc::channel panic although the documentation allows it; configuration is outside the statement)",
            "well-formedness of outgoing messages is judged by the independent walker refimpl::wire",
        ],
        subchecks: vec![
            SubCheck::new("dgram", run_dgram, 18_000, 400_000, 1200),
            SubCheck::new("stream", run_stream, 9_500, 190_000, 1500),
            SubCheck::new("dgram_raw", run_dgram_raw, 20_000, 500_000, 1300),
            SubCheck::new("dgram_hist", run_dgram_hist, 10_000, 200_000, 1300),
            SubCheck::new("stream_hist", run_stream_hist, 6_000, 120_000, 1600),
            SubCheck::new("stream_txn", run_stream_txn, 4_000, 80_000, 400),
        ],
        health: Some(health),
        extra: None,
    })
}

#[cfg(test)]
mod tests {
    use super::*;

    /// Documents known finding C16-F1 in its "pipelined burst" form: three
    /// instantly answered requests written back to back on a connection
    /// whose response queue holds one entry.
    #[test]
    fn burst_larger_than_queue_loses_responses() {
        // one write carrying three framed requests
        let mut frame = vec![];
        for i in 0..3u16 {
            let m = sentinel(0x0101 + i, false).bytes();
            frame.extend_from_slice(&(m.len() as u16).to_be_bytes());
            frame.extend_from_slice(&m);
        }
        let items = vec![TItem { gap_ms: 0, splits: vec![], chunk_gap_ms: 0, what: TWhat::Hostile { frame, id: None, tags: vec!["burst"], doomed: false } }];
        let case = TcpCase { cookies: false, idle_ms: 30_000, max_queued: 1, cap: 65536, reconf_at_ms: None, hook: false, conns: vec![Conn { start_ms: 0, addr: SocketAddr::from(([198, 51, 100, 1], 20000)), accept: Accept::Ready, items }] };
        let obs = run_tcp(&case);
        let (frames, rest) = split_frames(&obs.conns[0].bytes);
        eprintln!("service calls: {}, responses on the wire: {}, rest {}", obs.calls.len(), frames.len(), rest.len());
        assert_eq!(obs.calls.len(), 3);
        assert!(frames.len() < 3, "finding C16-F1 no longer reproduces in burst form");
    }
}
