//! Case model and decoders (generators) for C16.
pub use super::net::Accept;
use super::svc::{Kind, Plan, Shape};
use crate::gen::message as gm;
use crate::gen::name::{self as gn, Labels};
use crate::gen::*;
use crate::refimpl::wire::{self, Asm};
use arbitrary::Unstructured;
use std::net::SocketAddr;

pub const OPT: u16 = 41;
pub const OPT_COOKIE: u16 = 10;
pub const OPT_KEEPALIVE: u16 = 11;
pub const OPT_PADDING: u16 = 12;

#[derive(Clone, Debug, Hash, PartialEq, Eq)]
pub struct Edns {
    pub udp: u16,
    pub version: u8,
    pub dnssec_ok: bool,
    pub options: Vec<(u16, Vec<u8>)>,
}

#[derive(Clone, Debug, Hash, PartialEq, Eq)]
pub struct WfReq {
    pub id: u16,
    pub rd: bool,
    pub cd: bool,
    pub ad: bool,
    pub qname: Labels,
    pub qtype: u16,
    pub qclass: u16,
    pub edns: Option<Edns>,
}

impl WfReq {
    pub fn bytes(&self) -> Vec<u8> {
        let flags = (self.rd as u16) << 8 | (self.ad as u16) << 5 | (self.cd as u16) << 4;
        let mut a = Asm::new(self.id, flags);
        a.question(&self.qname, self.qtype, self.qclass);
        if let Some(e) = &self.edns {
            let ttl = (e.version as u32) << 16 | (e.dnssec_ok as u32) << 15;
            let mut rd = vec![];
            for (c, d) in &e.options {
                rd.extend_from_slice(&c.to_be_bytes());
                rd.extend_from_slice(&(d.len() as u16).to_be_bytes());
                rd.extend_from_slice(d);
            }
            a.record(3, &[], OPT, e.udp, ttl, &rd);
        }
        a.buf
    }
    /// 12 + question
    pub fn base_len(&self) -> usize {
        12 + gn::wire_len(&self.qname) + 4
    }
    pub fn cookie_malformed(&self) -> bool {
        match &self.edns {
            Some(e) => match e.options.iter().find(|(c, _)| *c == OPT_COOKIE) {
                Some((_, d)) => !(d.len() == 8 || (16..=40).contains(&d.len())),
                None => false,
            },
            None => false,
        }
    }
    /// A request every documented layer lets through to the service.
    pub fn plain(&self, tcp: bool, cookies: bool) -> bool {
        match &self.edns {
            None => true,
            Some(e) => {
                e.version == 0
                    && !(cookies && self.cookie_malformed())
                    && !(tcp && e.options.iter().any(|(c, d)| *c == OPT_KEEPALIVE && !d.is_empty()))
            }
        }
    }
    pub fn show(&self) -> String {
        format!(
            "id={:#06x} q={} {}/{} edns={}",
            self.id,
            gn::show(&self.qname),
            self.qtype,
            self.qclass,
            match &self.edns {
                None => "none".to_string(),
                Some(e) => format!(
                    "(udp={} v={} do={} opts={:?})",
                    e.udp,
                    e.version,
                    e.dnssec_ok,
                    e.options.iter().map(|(c, d)| (*c, d.len())).collect::<Vec<_>>()
                ),
            }
        )
    }
}

pub const EDNS_SIZES: [u16; 12] = [1232, 512, 4096, 0, 1, 511, 513, 65535, 1231, 1233, 600, 4097];

pub fn edns(u: &mut Unstructured) -> Option<Edns> {
    if chance(u, 80) {
        return None;
    }
    let udp = match pick(u, 8) {
        7 => u16_(u),
        _ => EDNS_SIZES[pick(u, EDNS_SIZES.len())],
    };
    let version = if chance(u, 10) { 1 + pick(u, 3) as u8 } else { 0 };
    let dnssec_ok = flag(u);
    let mut options = vec![];
    let n = match pick(u, 4) {
        0 | 1 => 0,
        2 => 1,
        _ => 1 + pick(u, 3),
    };
    for _ in 0..n {
        match pick(u, 5) {
            0 => {
                let len = match pick(u, 8) {
                    0..=2 => 8,
                    3 => 16,
                    4 => [24, 40, 17][pick(u, 3)],
                    _ => [0usize, 7, 9, 15, 41, 1][pick(u, 6)],
                };
                options.push((OPT_COOKIE, (0..len).map(|i| i as u8 ^ 0x5c).collect()));
            }
            1 => {
                let len = [0usize, 1, 31, 128, 300][pick(u, 5)];
                options.push((OPT_PADDING, vec![0; len]));
            }
            2 => {
                let d = if chance(u, 180) { vec![] } else { vec![0, 100] };
                options.push((OPT_KEEPALIVE, d));
            }
            3 => {
                let len = pick(u, 50);
                options.push((65001, vec![0x77; len]));
            }
            _ => options.push((3, vec![])), // NSID request
        }
    }
    Some(Edns { udp, version, dnssec_ok, options })
}

pub fn wf_req(u: &mut Unstructured, id: u16) -> WfReq {
    let qname = match pick(u, 6) {
        0 => vec![],
        1 => gn::name(u, false),
        2 => gn::name_with_len(u, 255, true),
        _ => {
            let t = 2 + pick(u, 30);
            gn::name_with_len(u, t, true)
        }
    };
    let qtype = [1u16, 28, 16, 6, 255, 2, 252, 65280][pick(u, 8)];
    let qclass = if chance(u, 20) { [3u16, 255, 254][pick(u, 3)] } else { 1 };
    WfReq { id, rd: flag(u), cd: chance(u, 30), ad: chance(u, 30), qname, qtype, qclass, edns: edns(u) }
}

pub fn sentinel(id: u16, with_edns: bool) -> WfReq {
    WfReq {
        id,
        rd: true,
        cd: false,
        ad: false,
        qname: vec![b"sentinel".to_vec(), b"test".to_vec()],
        qtype: 1,
        qclass: 1,
        edns: if with_edns { Some(Edns { udp: 1232, version: 0, dnssec_ok: false, options: vec![] }) } else { None },
    }
}

/// The size the transport allows for a response to this request (the
/// property statement, RFC 1035 4.2.1, RFC 6891 6.2.3/6.2.5).
pub fn udp_limit(edns: Option<u16>, cfg: Option<u16>) -> usize {
    match edns {
        None => 512,
        Some(sz) => {
            let c = sz.max(512) as usize;
            match cfg {
                Some(s) => c.min(s as usize),
                None => c,
            }
        }
    }
}

pub fn opt_options(u: &mut Unstructured, big: bool) -> Vec<(u16, Vec<u8>)> {
    match pick(u, 4) {
        0 | 1 => vec![],
        2 => vec![(65002, vec![1; pick(u, 20)])],
        _ => {
            if big {
                vec![(OPT_PADDING, vec![0; 100 + pick(u, 500)])]
            } else {
                vec![(OPT_PADDING, vec![0; pick(u, 40)]), (3, b"ns1".to_vec())]
            }
        }
    }
}

fn delay(u: &mut Unstructured) -> u32 {
    match pick(u, 8) {
        0..=3 => 0,
        4 => 1,
        5 => 20,
        6 => 150,
        _ => [500u32, 2500][pick(u, 2)],
    }
}

fn kind(u: &mut Unstructured, max_multi: usize) -> Kind {
    match pick(u, 10) {
        0..=5 => Kind::Single,
        6 | 7 => Kind::Multi { n: 2 + pick(u, max_multi.max(2) - 1), gap_ms: [0u32, 0, 1, 30][pick(u, 4)], transaction: !chance(u, 60) },
        8 => Kind::Fail { code: pick(u, 4) as u8, after: if chance(u, 60) { 1 + pick(u, 2) } else { 0 } },
        _ => Kind::Silent,
    }
}

/// A plan for a UDP request: the response size is aimed at the limit.
pub fn udp_plan(u: &mut Unstructured, req: &WfReq, cfg: Option<u16>, thorough: bool) -> Plan {
    let l = udp_limit(req.edns.as_ref().map(|e| e.udp), cfg);
    let mut shape = Shape::default();
    shape.owner_q = chance(u, 60);
    shape.style = pick(u, 3) as u8;
    shape.aa = flag(u);
    shape.tc = chance(u, 12);
    shape.rcode = if chance(u, 30) { 3 } else { 0 };
    shape.from_scratch = chance(u, 70);
    if chance(u, 90) {
        let sz = [1232u16, 512, 4096, 0][pick(u, 4)];
        let big = chance(u, 16);
        shape.opt = Some((sz, opt_options(u, big)));
    }
    match pick(u, 5) {
        0 => {
            shape.auth_pm = 300;
            shape.addl_pm = 300;
        }
        1 => shape.addl_pm = 1000,
        2 => shape.auth_pm = 500,
        _ => {}
    }
    let opt_len = shape.opt.as_ref().map(|(_, o)| 11 + o.iter().map(|(_, d)| 4 + d.len()).sum::<usize>()).unwrap_or(0);
    // size the message must have after the documented OPT handling
    let e: Option<usize> = match pick(u, 16) {
        0 | 1 => None,
        2 | 3 => Some(l),
        4 | 5 => Some(l + 1),
        6 | 7 => Some(l - 1),
        8 => Some(l + 40 + pick(u, 400)),
        9 => Some(l.saturating_sub(40 + pick(u, 200))),
        10 => Some(513),
        11 => Some(1233),
        12 => Some(cfg.map(|c| c as usize).unwrap_or(4096)),
        13 => Some(cfg.map(|c| c as usize).unwrap_or(4096) + 1),
        14 => Some(if thorough { 4000 + pick(u, 61535) } else { 4000 + pick(u, 6000) }),
        _ => Some(100 + pick(u, 4500)),
    };
    shape.target = e.map(|e| match (&req.edns, &shape.opt) {
        (Some(_), None) => e.saturating_sub(11),
        (None, Some(_)) => e + opt_len,
        _ => e,
    });
    if shape.target.is_none() {
        shape.small = pick(u, 4);
    }
    Plan { delay_ms: delay(u), kind: kind(u, 4), shape }
}

pub fn tcp_plan(u: &mut Unstructured, thorough: bool, max_multi: usize) -> Plan {
    let mut shape = Shape::default();
    shape.owner_q = chance(u, 60);
    shape.style = pick(u, 3) as u8;
    shape.aa = flag(u);
    shape.tc = chance(u, 12);
    shape.from_scratch = chance(u, 70);
    if chance(u, 60) {
        let big = chance(u, 40);
        shape.opt = Some((1232, opt_options(u, big)));
    }
    if chance(u, 60) {
        shape.addl_pm = 400;
        shape.auth_pm = 200;
    }
    shape.target = match pick(u, 12) {
        0..=4 => None,
        5 | 6 => Some(100 + pick(u, 2000)),
        7 => Some(16384 + pick(u, 300)),
        8 => Some(if thorough { 65535 } else { 30000 }),
        9 => Some(if thorough { 65535 - pick(u, 30) } else { 9000 + pick(u, 3000) }),
        10 => Some(if thorough { 70000 } else { 5000 }),
        _ => Some(513 + pick(u, 1000)),
    };
    if shape.target.is_none() {
        shape.small = pick(u, 4);
    }
    Plan { delay_ms: delay(u), kind: kind(u, max_multi), shape }
}

//------------ hostile input ---------------------------------------------------

/// Hostile message bytes with tags. IDs (first two octets) are forced into
/// `0x8000 | k` so that no plan applies.
pub fn hostile(u: &mut Unstructured, k: u16) -> (Vec<u8>, Vec<&'static str>) {
    hostile_ext(u, k, false)
}

/// `ext` (the `*_hist` sub-checks; the decoding without it is frozen because
/// replay files depend on it) adds two dimensions: the OPT record of the
/// many-questions family advertises any size, and the header of any family
/// may get its QR bit set afterwards (messages with QR set are answered by
/// the transports themselves, bypassing service and middleware).
pub fn hostile_ext(u: &mut Unstructured, k: u16, ext: bool) -> (Vec<u8>, Vec<&'static str>) {
    if ext && byte(u) >= 208 {
        // big question section (a few long names or many short ones) x
        // header (query / QR set / other opcode) x OPT (none / any size): the
        // responses to these echo the question section, whoever builds them
        let mut flags = if flag(u) { 0x0100u16 } else { 0 };
        let mut tags = vec!["big-question-section"];
        match pick(u, 4) {
            0 => {}
            1 => {
                flags |= 0x1000;
                tags.push("opcode-other");
            }
            _ => {
                flags |= 0x8000;
                tags.push("qr-twist");
            }
        }
        let mut a = Asm::new(0x8000 | k, flags);
        let opt = if byte(u) >= 192 { None } else { Some([4096u16, 65535, 1232, 512, 600, 1024, 0, 2000][pick(u, 8)]) };
        let n = [1usize, 2, 3, 4, 6, 60, 110, 150][pick(u, 8)];
        let long = [255usize, 245, 200, 120][pick(u, 4)];
        let roots = flag(u);
        for i in 0..n {
            if n <= 6 {
                // a name of `long` octets on the wire
                let mut name = vec![];
                let mut left = long - 1;
                while left >= 2 {
                    let l = (left - 1).min(63);
                    name.push(vec![b'a' + (i % 26) as u8; l]);
                    left -= l + 1;
                }
                a.question(&name, 1, 1);
            } else if roots {
                a.question(&[], 1, 1);
            } else {
                a.question(&[vec![b'a' + (i % 26) as u8; 1 + i % 3]], 1, 1);
            }
        }
        if let Some(sz) = opt {
            a.record(3, &[], OPT, sz, 0, &[]);
        }
        return (a.buf, tags);
    }
    let (mut b, mut tags) = match pick(u, 12) {
        0 => {
            let n = pick(u, 12);
            ((0..n).map(|_| byte(u)).collect(), vec!["short"])
        }
        1 => {
            // QR set on an otherwise valid query
            let mut m = wf_req(u, 0).bytes();
            m[2] |= 0x80;
            (m, vec!["qr-set"])
        }
        2 => {
            let mut m = wf_req(u, 0).bytes();
            let op = 1 + pick(u, 15) as u8;
            m[2] = (m[2] & 0x87) | (op << 3);
            (m, vec![if op == 1 { "opcode-iquery" } else { "opcode-other" }])
        }
        3 => {
            // QDCOUNT 0 / 2 / lying
            let r = wf_req(u, 0);
            let mut m = r.bytes();
            match pick(u, 3) {
                0 => {
                    m[5] = 0;
                    m.truncate(12);
                    (m, vec!["qdcount-0"])
                }
                1 => {
                    // a real second question
                    let mut a = Asm::new(0, 0x0100);
                    a.question(&r.qname, r.qtype, r.qclass);
                    a.question(&[b"two".to_vec()], 1, 1);
                    (a.buf, vec!["qdcount-2"])
                }
                _ => {
                    m[5] = 2;
                    (m, vec!["qdcount-lies"])
                }
            }
        }
        4 => {
            // pointer loop in the question name
            let mut m = vec![0u8; 12];
            m[5] = 1;
            match pick(u, 3) {
                0 => m.extend_from_slice(&[0xC0, 12, 0, 1, 0, 1]),
                1 => m.extend_from_slice(&[1, b'a', 0xC0, 12, 0, 1, 0, 1]),
                _ => m.extend_from_slice(&[0xC0, 14, 0xC0, 12, 0, 1, 0, 1]),
            }
            (m, vec!["pointer-loop"])
        }
        5 => {
            // two OPT records / OPT with bad option framing / bad version
            let r = wf_req(u, 0);
            let mut a = Asm::new(0, 0x0100);
            a.question(&r.qname, r.qtype, r.qclass);
            match pick(u, 3) {
                0 => {
                    a.record(3, &[], OPT, 1232, 0, &[]);
                    a.record(3, &[], OPT, 4096, 0, &[]);
                    (a.buf, vec!["two-opt"])
                }
                1 => {
                    a.record(3, &[], OPT, 1232, 0, &[0, 10, 0, 200, 1, 2, 3]);
                    (a.buf, vec!["opt-option-overrun"])
                }
                _ => {
                    a.record(3, &[b"x".to_vec()], OPT, 1232, 0, &[]);
                    (a.buf, vec!["opt-owner-not-root"])
                }
            }
        }
        7 => {
            // many (real) questions, with or without OPT, QUERY or another
            // opcode
            let n = [3usize, 40, 101, 120, 200][pick(u, 5)];
            let mut a = Asm::new(0, if flag(u) { 0x0100 } else { 0x1000 });
            for i in 0..n {
                if flag(u) {
                    a.question(&[], 1, 1);
                } else {
                    a.question(&[vec![b'a' + (i % 26) as u8]], 1, 1);
                }
            }
            if flag(u) {
                let sz = if ext { [512u16, 1232, 4096, 65535, 600, 1024][pick(u, 6)] } else { [512u16, 1232, 4096][pick(u, 3)] };
                a.record(3, &[], OPT, sz, 0, &[]);
            }
            (a.buf, vec!["many-questions"])
        }
        6 => {
            // big datagram / message
            let mut m = wf_req(u, 0).bytes();
            let n = [1025usize, 1500, 4000, 65535][pick(u, 4)];
            let fill = byte(u);
            if m.len() < n {
                m.resize(n, fill);
            }
            (m, vec!["oversized"])
        }
        _ => {
            // shared generator on a bounded slice of the input (its raw
            // variant would otherwise swallow the rest of the case)
            let n = (8 + pick(u, 250)).min(u.len());
            let sub = u.bytes(n).unwrap_or(&[]).to_vec();
            let mut su = Unstructured::new(&sub);
            gm::hostile_message(&mut su)
        }
    };
    if b.len() >= 2 {
        b[0] = 0x80 | (k >> 8) as u8;
        b[1] = k as u8;
    }
    if b.len() > 65535 {
        b.truncate(65535);
    }
    if ext && b.len() >= 12 && pick(u, 3) == 2 && b[2] & 0x80 == 0 {
        b[2] |= 0x80;
        tags.push("qr-twist");
    }
    if tags.is_empty() {
        tags.push("hostile");
    }
    (b, tags)
}

//------------ UDP case ----------------------------------------------------------

#[derive(Clone, Debug)]
pub enum What {
    Wf { req: WfReq, plan: Plan, sentinel: bool },
    Hostile { bytes: Vec<u8>, tags: Vec<&'static str> },
    /// not a datagram: `DgramServer::reconfigure` with this response size
    /// limit, called once everything sent so far has been received and
    /// followed by 1 ms of virtual time (so that the command is processed
    /// before the next datagram arrives)
    Reconf { cfg: Option<u16> },
}

#[derive(Clone, Debug)]
pub struct UItem {
    pub gap_ms: u32,
    pub addr: SocketAddr,
    /// the response size limit configured when this datagram is received
    pub cfg: Option<u16>,
    pub what: What,
}

#[derive(Clone, Debug)]
pub struct UdpCase {
    pub cookies: bool,
    /// the limit the server is created with
    pub cfg: Option<u16>,
    /// size of the receive buffers (`BufSource::create_buf`); 1024 is
    /// `VecBufSource`
    pub buf: usize,
    /// the socket is not ready for the first send attempt of every response
    pub send_pending: bool,
    pub items: Vec<UItem>,
}

impl UdpCase {
    pub fn n_datagrams(&self) -> usize {
        self.items.iter().filter(|i| !matches!(i.what, What::Reconf { .. })).count()
    }
}

pub const CFGS: [Option<u16>; 8] = [Some(1232), None, Some(512), Some(4096), Some(513), Some(1231), Some(600), Some(4095)];

fn addr(i: usize) -> SocketAddr {
    SocketAddr::from(([192, 0, 2, (1 + i % 200) as u8], 10000 + i as u16))
}

/// Decoding does not depend on the tier (replay files must decode the same
/// everywhere): whether a scenario is a big one is part of the input.
pub fn udp_case(u: &mut Unstructured) -> UdpCase {
    udp_case_ext(u, false)
}

pub const BUFS: [usize; 6] = [1024, 1024, 4096, 65535, 1500, 700];

/// `ext` (sub-check `dgram_hist`): additionally the receive buffer size, a
/// socket that is not ready for the first send attempt, runtime
/// reconfigurations of the response size limit between the datagrams, and
/// the extra hostile dimensions of `hostile_ext`. Without `ext` the decoding
/// is the frozen one of sub-check `dgram` (replay files depend on it).
pub fn udp_case_ext(u: &mut Unstructured, ext: bool) -> UdpCase {
    let thorough = chance(u, 24);
    let cookies = chance(u, 100);
    let cfg0 = CFGS[pick(u, CFGS.len())];
    let (buf, send_pending, reconf_pm) = if ext { (BUFS[pick(u, BUFS.len())], byte(u) >= 192, [0u8, 40, 40, 90][pick(u, 4)]) } else { (1024, false, 0) };
    let mut cfg = cfg0;
    let n = 1 + pick(u, if thorough { 10 } else { 6 });
    let mut items = vec![];
    let mut next_id = 0x0101u16;
    let mut hk = 1u16;
    for _ in 0..n {
        let gap_ms = [0u32, 0, 0, 1, 40, 700][pick(u, 6)];
        if ext && reconf_pm > 0 && chance(u, reconf_pm) {
            cfg = CFGS[pick(u, CFGS.len())];
            let i = items.len();
            items.push(UItem { gap_ms, addr: addr(i), cfg, what: What::Reconf { cfg } });
        }
        if chance(u, 70) {
            let (bytes, tags) = hostile_ext(u, hk, ext);
            hk += 1;
            let i = items.len();
            items.push(UItem { gap_ms, addr: addr(i), cfg, what: What::Hostile { bytes, tags } });
            let i = items.len();
            let req = sentinel(next_id, flag(u));
            next_id += 1;
            items.push(UItem { gap_ms: [0u32, 0, 5][pick(u, 3)], addr: addr(i), cfg, what: What::Wf { req, plan: Plan::default(), sentinel: true } });
        } else {
            let mut req = wf_req(u, next_id);
            // a well-formed request is one the server receives completely:
            // what does not fit the receive buffer is cut off by the socket
            // (three big padding options exceed 1024 octets)
            while req.bytes().len() > buf {
                match &mut req.edns {
                    Some(e) if !e.options.is_empty() => {
                        e.options.pop();
                    }
                    _ => break,
                }
            }
            next_id += 1;
            let plan = udp_plan(u, &req, cfg, thorough);
            let i = items.len();
            items.push(UItem { gap_ms, addr: addr(i), cfg, what: What::Wf { req, plan, sentinel: false } });
        }
    }
    UdpCase { cookies, cfg: cfg0, buf, send_pending, items }
}

//------------ TCP case ----------------------------------------------------------

#[derive(Clone, Debug)]
pub enum TWhat {
    Wf { req: WfReq, plan: Plan, sentinel: bool },
    /// `frame` is written as is (it includes whatever length prefix the
    /// generator chose); `doomed`: the connection can not be used afterwards
    Hostile { frame: Vec<u8>, id: Option<u16>, tags: Vec<&'static str>, doomed: bool },
    /// client drops the connection
    Abort,
    /// client shuts down its sending side only
    HalfClose,
}

#[derive(Clone, Debug)]
pub struct TItem {
    pub gap_ms: u32,
    /// split the written bytes at these offsets (ascending), `chunk_gap_ms`
    /// of virtual time between the writes
    pub splits: Vec<usize>,
    pub chunk_gap_ms: u32,
    pub what: TWhat,
}

#[derive(Clone, Debug)]
pub struct Conn {
    pub start_ms: u32,
    pub addr: SocketAddr,
    /// how the establishment of the connection goes on the server side
    pub accept: Accept,
    pub items: Vec<TItem>,
}

#[derive(Clone, Debug)]
pub struct TcpCase {
    pub cookies: bool,
    pub idle_ms: u64,
    pub max_queued: usize,
    pub cap: usize,
    /// `StreamServer::reconfigure` at this virtual time with a configuration
    /// that differs only in `max_concurrent_connections` (100 -> 90; at most
    /// 7 connections exist): must not be observable
    pub reconf_at_ms: Option<u32>,
    /// a pre-connect hook (that does nothing) is installed
    pub hook: bool,
    pub conns: Vec<Conn>,
}

fn framed(m: &[u8]) -> Vec<u8> {
    let mut f = (m.len() as u16).to_be_bytes().to_vec();
    f.extend_from_slice(m);
    f
}

fn splits(u: &mut Unstructured, len: usize) -> (Vec<usize>, u32) {
    if len < 2 || chance(u, 150) {
        return (vec![], 0);
    }
    let n = 1 + pick(u, 2);
    let mut s: Vec<usize> = (0..n)
        .map(|_| match pick(u, 4) {
            0 => 1,
            1 => 2,
            2 => 3.min(len - 1),
            _ => 1 + pick(u, len - 1),
        })
        .collect();
    s.sort();
    s.dedup();
    (s, [0u32, 1, 10][pick(u, 3)])
}

pub fn tcp_case(u: &mut Unstructured) -> TcpCase {
    tcp_case_ext(u, false)
}

/// `ext` (sub-check `stream_hist`): additionally how the establishment of
/// each connection goes (`AsyncAccept::Future` ready / after a while / never
/// / error, `poll_accept` error), a no-op runtime reconfiguration, a
/// pre-connect hook, and the extra hostile dimensions of `hostile_ext`.
/// Without `ext` the decoding is the frozen one of sub-check `stream`.
pub fn tcp_case_ext(u: &mut Unstructured, ext: bool) -> TcpCase {
    let thorough = chance(u, 24);
    let cookies = chance(u, 100);
    let idle_ms = [30_000u64, 30_000, 1_000, 200][pick(u, 4)];
    let small_queue = chance(u, 32);
    let queue_choice = [10usize, 10, 1, 2, 3, 64][pick(u, 6)];
    let cap = [65536usize, 4096, 64, 7, 1][pick(u, 5)];
    let (reconf_at_ms, hook) = if ext { (if flag(u) { Some([0u32, 1, 35, 160, 450][pick(u, 5)]) } else { None }, flag(u)) } else { (None, false) };
    let nconn = 1 + pick(u, 3);
    let mut next_id = 0x0101u16;
    let mut hk = 1u16;
    let mut conns: Vec<Conn> = vec![];
    let mut extra: Vec<Conn> = vec![];
    for c in 0..nconn {
        let accept = if ext { [Accept::Ready, Accept::Ready, Accept::Ready, Accept::Delay(1), Accept::Delay(40), Accept::Never, Accept::Never, Accept::Fail, Accept::Refused, Accept::Delay(300)][pick(u, 10)] } else { Accept::Ready };
        let n = 1 + pick(u, if thorough { 14 } else { 7 });
        let mut items = vec![];
        for _ in 0..n {
            let gap_ms = [0u32, 0, 0, 0, 1, 40, 150][pick(u, 7)];
            let sel = pick(u, 16);
            if sel < 11 {
                let req = wf_req(u, next_id);
                next_id += 1;
                let plan = tcp_plan(u, thorough, 4);
                let (s, g) = splits(u, req.bytes().len() + 2);
                items.push(TItem { gap_ms, splits: s, chunk_gap_ms: g, what: TWhat::Wf { req, plan, sentinel: false } });
            } else if sel < 15 {
                // hostile with some framing
                let (m, mut tags) = hostile_ext(u, hk, ext);
                let mut id = if m.len() >= 12 { Some(0x8000 | hk) } else { None };
                let hk_this = hk;
                let mut full = false;
                hk += 1;
                let (frame, doomed) = match pick(u, 8) {
                    0 => {
                        tags = vec!["len-prefix-0"];
                        (vec![0, 0], true)
                    }
                    1 => {
                        tags = vec!["len-prefix-1"];
                        (vec![0, 1, byte(u)], true)
                    }
                    2 => {
                        // prefix larger than what follows
                        tags.push("len-prefix-too-long");
                        let mut f = ((m.len() + 1 + pick(u, 300)).min(65535) as u16).to_be_bytes().to_vec();
                        f.extend_from_slice(&m);
                        (f, true)
                    }
                    3 => {
                        tags.push("len-prefix-65535");
                        let mut f = vec![0xFF, 0xFF];
                        f.extend_from_slice(&m);
                        if chance(u, 128) {
                            // the body really has 65535 octets
                            f.resize(2 + 65535, 0);
                            f[2] = 0x80 | (hk_this >> 8) as u8;
                            f[3] = hk_this as u8;
                            tags.push("len-65535-full");
                            full = true;
                            (f, false)
                        } else {
                            (f, true)
                        }
                    }
                    4 => {
                        // only the first octet of the prefix, or a cut frame
                        tags.push("cut-frame");
                        let mut f = framed(&m);
                        let cut = 1 + pick(u, f.len() - 1);
                        f.truncate(cut);
                        (f, true)
                    }
                    _ => {
                        let d = m.len() < 12;
                        (framed(&m), d)
                    }
                };
                if full {
                    id = Some(0x8000 | hk_this);
                }
                if doomed && frame.len() < 14 {
                    id = None;
                }
                let (s, g) = splits(u, frame.len());
                items.push(TItem { gap_ms, splits: s, chunk_gap_ms: g, what: TWhat::Hostile { frame, id, tags, doomed } });
                if doomed {
                    break;
                }
                // framing intact: sentinel on the same connection
                let req = sentinel(next_id, flag(u));
                next_id += 1;
                items.push(TItem { gap_ms: 0, splits: vec![], chunk_gap_ms: 0, what: TWhat::Wf { req, plan: Plan::default(), sentinel: true } });
            } else {
                items.push(TItem { gap_ms, splits: vec![], chunk_gap_ms: 0, what: if flag(u) { TWhat::Abort } else { TWhat::HalfClose } });
                break;
            }
        }
        let doomed = accept.dead() || items.iter().any(|i| matches!(i.what, TWhat::Abort | TWhat::HalfClose | TWhat::Hostile { doomed: true, .. }));
        let start_ms = [0u32, 0, 1, 30][pick(u, 4)];
        conns.push(Conn { start_ms, addr: SocketAddr::from(([198, 51, 100, 1 + c as u8], 20000 + c as u16)), accept, items });
        if doomed {
            // the sentinel goes to a fresh connection, after the hostile one
            let req = sentinel(next_id, flag(u));
            next_id += 1;
            let k = extra.len();
            extra.push(Conn {
                start_ms: 400,
                addr: SocketAddr::from(([198, 51, 100, 100 + k as u8], 30000 + k as u16)),
                accept: Accept::Ready,
                items: vec![TItem { gap_ms: 0, splits: vec![], chunk_gap_ms: 0, what: TWhat::Wf { req, plan: Plan::default(), sentinel: true } }],
            });
        }
    }
    conns.extend(extra);
    // The connection discards responses that do not fit into its queue
    // (known finding): normally give the queue room for everything a
    // connection can have pending, in 1/8 of the scenarios any length.
    let need = conns
        .iter()
        .map(|c| {
            c.items
                .iter()
                .map(|i| match &i.what {
                    TWhat::Wf { plan, .. } => plan.n_responses().max(1),
                    TWhat::Hostile { .. } => 1,
                    _ => 0,
                })
                .sum::<usize>()
        })
        .max()
        .unwrap_or(1);
    let max_queued = if small_queue { queue_choice } else { queue_choice.max(need) };
    TcpCase { cookies, idle_ms, max_queued, cap, reconf_at_ms, hook, conns }
}

/// Sub-check `stream_txn`: transactions in every representation of the
/// feedback (`Kind::Txn`) among single and plain multi-response plans,
/// pipelined on connections with a short response queue (1, 2, 3, 10) and
/// answers big enough to keep the writer busy on a narrow stream, so that
/// transactions start, continue and end while the queue is full. All zero
/// input: one connection, queue 1, one single answer.
pub fn tcp_txn_case(u: &mut Unstructured) -> TcpCase {
    let max_queued = [1usize, 1, 2, 3, 10][pick(u, 5)];
    let cap = [65536usize, 4096, 64, 7][pick(u, 4)];
    let nconn = 1 + pick(u, 2);
    let mut next_id = 0x0101u16;
    let mut conns = vec![];
    for c in 0..nconn {
        let n = 1 + pick(u, 6);
        let mut items = vec![];
        for _ in 0..n {
            let gap_ms = [0u32, 0, 0, 1, 40][pick(u, 5)];
            let req = sentinel(next_id, flag(u));
            next_id += 1;
            let mut shape = Shape::default();
            shape.target = [None, None, Some(300usize), Some(5000), Some(20000)][pick(u, 5)];
            let delay_ms = [0u32, 0, 40, 150][pick(u, 4)];
            let kind = match pick(u, 8) {
                0 | 1 => Kind::Single,
                2 => Kind::Multi { n: 2 + pick(u, 3), gap_ms: 0, transaction: false },
                _ => Kind::Txn { n: 1 + pick(u, 4), gap_ms: [0u32, 0, 1, 40][pick(u, 4)], begin_attached: pick(u, 3) != 0, end: pick(u, 3) as u8, noop_reconf: flag(u) },
            };
            items.push(TItem { gap_ms, splits: vec![], chunk_gap_ms: 0, what: TWhat::Wf { req, plan: Plan { delay_ms, kind, shape }, sentinel: false } });
        }
        conns.push(Conn { start_ms: 0, addr: SocketAddr::from(([198, 51, 100, 1 + c as u8], 20000 + c as u16)), accept: Accept::Ready, items });
    }
    TcpCase { cookies: false, idle_ms: 30_000, max_queued, cap, reconf_at_ms: None, hook: false, conns }
}

#[allow(unused)]
fn _w(_: wire::Header) {}
