//! Oracle helpers for C16: strict well-formedness of outgoing messages via
//! the independent walker, and comparison of what is on the wire with what
//! the service produced.
use super::svc::Produced;
use crate::engine::*;
use crate::gen::name::{self as gn, Labels};
use crate::refimpl::wire;
use crate::{vensure, vfail};

pub const OPT: u16 = 41;

#[derive(Clone, Debug, PartialEq, Eq)]
pub struct Rec {
    pub section: u8,
    pub owner: Labels,
    pub rtype: u16,
    pub class: u16,
    pub ttl: u32,
    pub rdata: Vec<u8>,
}

#[derive(Clone, Debug)]
pub struct Parsed {
    pub hdr: wire::Header,
    pub questions: Vec<(Labels, u16, u16)>,
    /// all records except OPT
    pub recs: Vec<Rec>,
    /// wire size of the OPT records (owner to end of RDATA)
    pub opt_len: usize,
    pub n_opt: usize,
    /// requestor's payload size of the first OPT
    pub opt_udp: Option<u16>,
    pub opt_version: u8,
    pub len: usize,
}

/// Strict parse: everything the header counts announce is there, nothing
/// follows, all names decompress, RDATA of known types is well-formed, OPT
/// options are framed correctly.
pub fn parse(msg: &[u8]) -> Result<Parsed, String> {
    let w = wire::walk(msg).ok_or_else(|| format!("shorter than a header ({} octets)", msg.len()))?;
    if let Some((i, e)) = &w.error {
        return Err(format!("item {i}: {e:?}"));
    }
    if w.end != msg.len() {
        return Err(format!("{} octets after the last record", msg.len() - w.end));
    }
    let mut p = Parsed { hdr: w.header.clone(), questions: vec![], recs: vec![], opt_len: 0, n_opt: 0, opt_udp: None, opt_version: 0, len: msg.len() };
    for q in &w.questions {
        p.questions.push((q.name.clone(), q.qtype, q.qclass));
    }
    for r in &w.records {
        let owner = match &r.owner {
            Ok(o) => o.clone(),
            Err(e) => return Err(format!("owner name at {}: {e:?}", r.start)),
        };
        if r.rtype == OPT {
            if !owner.is_empty() {
                return Err("OPT owner is not the root".into());
            }
            // options
            let mut pos = r.rd_start;
            while pos < r.rd_end {
                if pos + 4 > r.rd_end {
                    return Err("OPT option header cut".into());
                }
                let l = u16::from_be_bytes([msg[pos + 2], msg[pos + 3]]) as usize;
                pos += 4 + l;
                if pos > r.rd_end {
                    return Err("OPT option overruns RDATA".into());
                }
            }
            if p.n_opt == 0 {
                p.opt_udp = Some(r.class);
                p.opt_version = (r.ttl >> 16) as u8;
            }
            p.n_opt += 1;
            p.opt_len += r.rd_end - r.start;
            continue;
        }
        let (rd, _) = wire::rdata_normal(msg, r).map_err(|e| format!("RDATA of type {} at {}: {e:?}", r.rtype, r.rd_start))?;
        p.recs.push(Rec { section: r.section, owner, rtype: r.rtype, class: r.class, ttl: r.ttl, rdata: rd });
    }
    Ok(p)
}

pub fn hex(b: &[u8]) -> String {
    let mut s = String::new();
    for x in b.iter().take(96) {
        s.push_str(&format!("{x:02x}"));
    }
    if b.len() > 96 {
        s.push_str(&format!("…({} octets)", b.len()));
    }
    s
}

/// What the oracle knows about a request.
#[derive(Clone, Debug)]
pub struct ReqView {
    pub what: String,
    pub id: Option<u16>,
    /// Some when the request has exactly one question that parses
    pub question: Option<(Labels, u16, u16)>,
    pub has_opt: bool,
    /// UDP only: the size the transport allows
    pub limit: Option<usize>,
    pub no_edns_hint: Option<usize>,
    pub tcp: bool,
}

pub fn show_q(q: &(Labels, u16, u16)) -> String {
    format!("{} {}/{}", gn::show(&q.0), q.1, q.2)
}

/// Checks every outgoing message must pass, whatever produced it.
pub fn check_basic(t: &str, rv: &ReqView, wire_msg: &[u8]) -> Result<Parsed, Violation> {
    let p = match parse(wire_msg) {
        Ok(p) => p,
        Err(e) => return Err(Violation::new(format!("{t}:malformed-response"), format!("{}: response is not well-formed: {e}\nresponse: {}", rv.what, hex(wire_msg)))),
    };
    if !p.hdr.qr() {
        return Err(Violation::new(format!("{t}:response-without-qr"), format!("{}: QR not set in {}", rv.what, hex(wire_msg))));
    }
    if let Some(id) = rv.id {
        if p.hdr.id != id {
            return Err(Violation::new(format!("{t}:wrong-id"), format!("{}: response has ID {:#06x}, request had {:#06x}", rv.what, p.hdr.id, id)));
        }
    }
    if let Some(l) = rv.limit {
        if wire_msg.len() > l {
            let sig = match rv.no_edns_hint {
                _ if p.hdr.tc() && p.recs.is_empty() => format!("{t}:oversize:after-truncation"),
                Some(h) if !rv.has_opt && wire_msg.len() <= h => format!("{t}:oversize:no-edns-uses-server-hint"),
                _ => format!("{t}:oversize"),
            };
            return Err(Violation::new(sig, format!("{}: response of {} octets, the transport allows {} (request EDNS: {}, TC={}); response starts {}", rv.what, wire_msg.len(), l, rv.has_opt, p.hdr.tc(), format!("{} ... {}", hex(&wire_msg[..wire_msg.len().min(24)]), hex(&wire_msg[wire_msg.len().saturating_sub(40)..])))));
        }
    }
    Ok(p)
}

pub fn check_question(t: &str, rv: &ReqView, p: &Parsed) -> CaseResult {
    if let Some(q) = &rv.question {
        vensure!(
            p.questions.len() == 1 && &p.questions[0] == q,
            format!("{t}:question-differs"),
            "{}: response question section {:?} does not carry the request's question {}",
            rv.what,
            p.questions.iter().map(show_q).collect::<Vec<_>>(),
            show_q(q)
        );
    }
    Ok(())
}

/// Size of `produced` after the documented OPT handling of the EDNS
/// middleware (strip when the request had none; add an empty one when the
/// request had one and the service did not).
pub fn expected_len(pp: &Parsed, req_has_opt: bool) -> usize {
    if !req_has_opt {
        pp.len - pp.opt_len
    } else if pp.n_opt > 0 {
        pp.len
    } else if pp.len + 11 > 65535 {
        // no room left for an OPT record in a DNS message
        pp.len
    } else {
        pp.len + 11
    }
}

#[derive(Debug, PartialEq, Eq, Clone, Copy)]
pub enum Fit {
    Fits,
    Exactly,
    MinusOne,
    PlusOne,
    Over,
}

/// Compares one message on the wire with one item the service produced.
/// Returns the fit class for UDP.
pub fn check_against(t: &str, rv: &ReqView, wire_msg: &[u8], produced: &Produced) -> Result<Option<Fit>, Violation> {
    let p = check_basic(t, rv, wire_msg)?;
    check_question(t, rv, &p)?;
    match produced {
        Produced::Err(rcode) => {
            vensure!(p.hdr.rcode() == *rcode & 0xF, format!("{t}:error-rcode-differs"), "{}: service failed with RCODE {}, response has {}", rv.what, rcode, p.hdr.rcode());
            vensure!(p.recs.is_empty(), format!("{t}:error-response-has-records"), "{}: error response carries records", rv.what);
            Ok(None)
        }
        Produced::Resp(bytes) => {
            let pp = match parse(bytes) {
                Ok(pp) => pp,
                Err(e) => vfail!("harness:service-built-malformed", "harness service produced a malformed message: {e}"),
            };
            let e = expected_len(&pp, rv.has_opt);
            let (over, fit) = match rv.limit {
                Some(l) => (
                    e > l,
                    Some(if e == l {
                        Fit::Exactly
                    } else if e + 1 == l {
                        Fit::MinusOne
                    } else if e == l + 1 {
                        Fit::PlusOne
                    } else if e > l {
                        Fit::Over
                    } else {
                        Fit::Fits
                    }),
                ),
                None => (false, None),
            };
            // The question section must be intact; the only excuse is a
            // (hostile) request whose questions alone do not fit the limit.
            let q_len: usize = pp.questions.iter().map(|q| gn::wire_len(&q.0) + 4).sum();
            let q_cannot_fit = over && 12 + q_len + if rv.has_opt { 11 } else { 0 } > rv.limit.unwrap_or(usize::MAX);
            vensure!(
                p.questions == pp.questions || (q_cannot_fit && p.questions.is_empty()),
                format!("{t}:question-changed"),
                "{}: questions on the wire {:?} differ from the service's ({} questions, {} octets)",
                rv.what,
                p.questions.iter().take(4).map(show_q).collect::<Vec<_>>(),
                pp.questions.len(),
                q_len
            );
            vensure!(p.hdr.rcode() == pp.hdr.rcode(), format!("{t}:rcode-changed"), "{}: RCODE {} on the wire, service set {}", rv.what, p.hdr.rcode(), pp.hdr.rcode());
            if over {
                vensure!(p.hdr.tc(), format!("{t}:dropped-without-tc"), "{}: answer of {} octets exceeds the limit {} but TC is clear (wire {} octets)", rv.what, e, rv.limit.unwrap(), wire_msg.len());
                vensure!((p.n_opt > 0) == rv.has_opt, format!("{t}:truncated-opt-presence"), "{}: truncated response has {} OPT records, request had OPT: {}", rv.what, p.n_opt, rv.has_opt);
                // what remains must come from the service's answer
                for r in &p.recs {
                    vensure!(pp.recs.contains(r), format!("{t}:truncated-foreign-record"), "{}: truncated response contains a record the service did not produce: {:?}", rv.what, r);
                }
            } else {
                vensure!(
                    p.recs == pp.recs,
                    format!("{t}:records-changed{}", if p.hdr.tc() && !pp.hdr.tc() { ":truncated-although-fits" } else { "" }),
                    "{}: the answer fits ({} octets after OPT handling, limit {:?}) but the records on the wire differ from the service's: wire {} records ({} octets, TC={}), service {} records ({} octets, TC={})",
                    rv.what,
                    e,
                    rv.limit,
                    p.recs.len(),
                    wire_msg.len(),
                    p.hdr.tc(),
                    pp.recs.len(),
                    bytes.len(),
                    pp.hdr.tc()
                );
                vensure!(p.hdr.tc() == pp.hdr.tc(), format!("{t}:tc-changed"), "{}: TC={} on the wire, the service set {} and nothing was dropped", rv.what, p.hdr.tc(), pp.hdr.tc());
                vensure!(p.hdr.aa() == pp.hdr.aa(), format!("{t}:aa-changed"), "{}: AA changed", rv.what);
            }
            Ok(fit)
        }
    }
}
