//! Independent DNSSEC reference code for C12, written from the RFCs without
//! calling into `domain`:
//! * RRSIG signed data, RFC 4034 §3.1.8.1 (+ §6.2/§6.3, RFC 6840 §5.1 through
//!   `refimpl::rdata::canonical_rdata`), wildcard owner reconstruction of
//!   RFC 4035 §5.3.2;
//! * key tag, RFC 4034 Appendix B (and B.1 for algorithm 1);
//! * DS digest, RFC 4034 §5.1.4 (SHA-1, SHA-256, SHA-384 via `ring::digest`);
//! * signature verification straight through `ring::signature` from the raw
//!   DNSKEY public key field (RFC 3110 RSA format, RFC 6605 ECDSA, RFC 8080
//!   Ed25519);
//! * a strict RFC 4648 base64 decoder and a reader for the one-line BIND
//!   `.key` / `.ds` fixture files.
use crate::gen::name::Labels;
use crate::refimpl::rdata as rr;

//------------ names ----------------------------------------------------------

pub fn lower_wire(l: &[Vec<u8>]) -> Vec<u8> {
    let mut v = vec![];
    for x in l {
        v.push(x.len() as u8);
        v.extend(x.iter().map(|b| b.to_ascii_lowercase()));
    }
    v.push(0);
    v
}

/// RFC 4034 §3.1.3: number of labels of the owner, not counting the root
/// label and not counting a leftmost `*` label.
pub fn rrsig_labels(owner: &Labels) -> u8 {
    let n = owner.len();
    if owner.first().map(|l| l.as_slice() == b"*").unwrap_or(false) {
        (n - 1) as u8
    } else {
        n as u8
    }
}

//------------ signed data ------------------------------------------------------

#[derive(Clone, Debug, PartialEq, Eq)]
pub struct SigFields {
    pub type_covered: u16,
    pub alg: u8,
    pub labels: u8,
    pub orig_ttl: u32,
    pub exp: u32,
    pub inc: u32,
    pub key_tag: u16,
    pub signer: Labels,
}

/// One RR as a resolver holds it (TTL irrelevant: the original TTL is hashed).
#[derive(Clone, Debug, PartialEq, Eq, Hash)]
pub struct RR {
    pub owner: Labels,
    pub rtype: u16,
    pub class: u16,
    /// uncompressed RDATA
    pub rdata: Vec<u8>,
}

/// RFC 4034 §3.1.8.1:
/// signed_data = RRSIG_RDATA (without signature, signer name canonical)
///               | RR(1) | RR(2) ..., RR(i) = name | type | class | OrigTTL |
///               RDLENGTH | canonical RDATA, in the order of §6.3, duplicates
///               removed (§6.3 last paragraph).
/// The name is the owner in canonical form; if the owner has more labels
/// than the Labels field it is `*.` + the rightmost `labels` labels
/// (RFC 4035 §5.3.2); an owner with fewer labels than the Labels field is an
/// error.
pub fn signed_data(sig: &SigFields, rrs: &[RR]) -> Result<Vec<u8>, String> {
    let mut out = vec![];
    out.extend_from_slice(&sig.type_covered.to_be_bytes());
    out.push(sig.alg);
    out.push(sig.labels);
    out.extend_from_slice(&sig.orig_ttl.to_be_bytes());
    out.extend_from_slice(&sig.exp.to_be_bytes());
    out.extend_from_slice(&sig.inc.to_be_bytes());
    out.extend_from_slice(&sig.key_tag.to_be_bytes());
    out.extend_from_slice(&lower_wire(&sig.signer));
    let mut items: Vec<(Vec<u8>, Vec<u8>)> = vec![];
    for r in rrs {
        let n = r.owner.len();
        let l = sig.labels as usize;
        let name = if l > n {
            return Err(format!("owner has {n} labels, RRSIG labels field is {l}"));
        } else if l < n {
            let mut v = vec![1u8, b'*'];
            v.extend(lower_wire(&r.owner[n - l..]));
            v
        } else {
            lower_wire(&r.owner)
        };
        let rd = rr::canonical_rdata(r.rtype, &r.rdata).map_err(|e| format!("reference cannot walk RDATA: {e:?}"))?;
        let mut item = name;
        item.extend_from_slice(&r.rtype.to_be_bytes());
        item.extend_from_slice(&r.class.to_be_bytes());
        item.extend_from_slice(&sig.orig_ttl.to_be_bytes());
        item.extend_from_slice(&(rd.len() as u16).to_be_bytes());
        item.extend_from_slice(&rd);
        items.push((rd, item));
    }
    // §6.3: RDATA as left-justified unsigned octet sequence, absence of an
    // octet sorts before a zero octet == lexicographic order on Vec<u8>.
    items.sort();
    items.dedup();
    for (_, item) in items {
        out.extend(item);
    }
    Ok(out)
}

//------------ key tag, DS digest ---------------------------------------------------

/// RFC 4034 Appendix B over the DNSKEY RDATA (flags | protocol | algorithm |
/// public key). For algorithm 1 (B.1) the tag is the most significant 16 of
/// the least significant 24 bits of the modulus; None when the key is too
/// short for that to be defined.
pub fn key_tag(rdata: &[u8]) -> Option<u16> {
    if rdata.len() >= 4 && rdata[3] == 1 {
        let k = &rdata[4..];
        if k.len() < 3 {
            return None;
        }
        return Some(u16::from_be_bytes([k[k.len() - 3], k[k.len() - 2]]));
    }
    let mut ac: u64 = 0;
    for (i, b) in rdata.iter().enumerate() {
        ac += if i & 1 == 1 { *b as u64 } else { (*b as u64) << 8 };
    }
    ac += (ac >> 16) & 0xFFFF;
    Some((ac & 0xFFFF) as u16)
}

pub fn dnskey_rdata(flags: u16, proto: u8, alg: u8, key: &[u8]) -> Vec<u8> {
    let mut v = flags.to_be_bytes().to_vec();
    v.push(proto);
    v.push(alg);
    v.extend_from_slice(key);
    v
}

/// digest = H(canonical owner | DNSKEY RDATA); digest type 1 = SHA-1,
/// 2 = SHA-256, 4 = SHA-384.
pub fn ds_digest(owner: &Labels, rdata: &[u8], digest_type: u8) -> Option<Vec<u8>> {
    let alg = match digest_type {
        1 => &ring::digest::SHA1_FOR_LEGACY_USE_ONLY,
        2 => &ring::digest::SHA256,
        4 => &ring::digest::SHA384,
        _ => return None,
    };
    let mut c = ring::digest::Context::new(alg);
    c.update(&lower_wire(owner));
    c.update(rdata);
    Some(c.finish().as_ref().to_vec())
}

//------------ signature verification ----------------------------------------------------

/// Verifies `sig` over `data` with the public key field of a DNSKEY of
/// algorithm `alg` (8, 10, 13, 14, 15). Err = cannot be checked here.
pub fn verify(alg: u8, key: &[u8], data: &[u8], sig: &[u8]) -> Result<bool, String> {
    use ring::signature as s;
    match alg {
        8 | 10 => {
            // RFC 3110 §2: exponent length (1 octet, or 0 + 2 octets), exponent, modulus
            let (elen, rest) = match key {
                [0, hi, lo, rest @ ..] => (u16::from_be_bytes([*hi, *lo]) as usize, rest),
                [n, rest @ ..] if *n != 0 => (*n as usize, rest),
                _ => return Err("short RSA key".into()),
            };
            if rest.len() <= elen {
                return Err("short RSA key".into());
            }
            let (e, n) = rest.split_at(elen);
            let pk = s::RsaPublicKeyComponents { n, e };
            let params = if alg == 8 { &s::RSA_PKCS1_2048_8192_SHA256 } else { &s::RSA_PKCS1_2048_8192_SHA512 };
            Ok(pk.verify(params, data, sig).is_ok())
        }
        13 | 14 => {
            let mut k = vec![4u8];
            k.extend_from_slice(key);
            let a: &dyn s::VerificationAlgorithm = if alg == 13 { &s::ECDSA_P256_SHA256_FIXED } else { &s::ECDSA_P384_SHA384_FIXED };
            Ok(s::UnparsedPublicKey::new(a, k).verify(data, sig).is_ok())
        }
        15 => Ok(s::UnparsedPublicKey::new(&s::ED25519, key).verify(data, sig).is_ok()),
        _ => Err(format!("algorithm {alg} not supported by the reference verifier")),
    }
}

/// Expected signature length for the algorithm and key.
pub fn sig_len(alg: u8, key: &[u8]) -> Option<usize> {
    match alg {
        13 | 15 => Some(64),
        14 => Some(96),
        8 | 10 => {
            let (elen, off) = if key.first() == Some(&0) { (u16::from_be_bytes([*key.get(1)?, *key.get(2)?]) as usize, 3) } else { (*key.first()? as usize, 1) };
            key.len().checked_sub(off + elen)
        }
        _ => None,
    }
}

//------------ base64 / hex / fixture files ---------------------------------------------------

/// Strict RFC 4648 §4 base64 (padding required, no stray characters).
pub fn b64(s: &str) -> Option<Vec<u8>> {
    let b = s.as_bytes();
    if b.len() % 4 != 0 {
        return None;
    }
    let val = |c: u8| -> Option<u32> {
        Some(match c {
            b'A'..=b'Z' => c - b'A',
            b'a'..=b'z' => c - b'a' + 26,
            b'0'..=b'9' => c - b'0' + 52,
            b'+' => 62,
            b'/' => 63,
            _ => return None,
        } as u32)
    };
    let mut out = vec![];
    for (i, q) in b.chunks(4).enumerate() {
        let last = i + 1 == b.len() / 4;
        let pad = q.iter().rev().take_while(|&&c| c == b'=').count();
        if pad > 2 || (pad > 0 && !last) {
            return None;
        }
        let mut v = 0u32;
        for &c in &q[..4 - pad] {
            v = (v << 6) | val(c)?;
        }
        v <<= 6 * pad as u32;
        let bytes = [(v >> 16) as u8, (v >> 8) as u8, v as u8];
        out.extend_from_slice(&bytes[..3 - pad]);
    }
    Some(out)
}

pub fn hex(s: &str) -> Option<Vec<u8>> {
    let b = s.as_bytes();
    if b.len() % 2 != 0 {
        return None;
    }
    b.chunks(2).map(|p| u8::from_str_radix(std::str::from_utf8(p).ok()?, 16).ok()).collect()
}

#[derive(Clone, Debug)]
pub struct KeyFile {
    pub owner: Labels,
    pub flags: u16,
    pub proto: u8,
    pub alg: u8,
    pub key: Vec<u8>,
}

/// `<name>. [ttl] IN DNSKEY <flags> <proto> <alg> <base64...> [; comment]`
/// (plain host-name labels only — all the fixtures need).
pub fn parse_key_file(text: &str) -> Option<KeyFile> {
    let line = text.lines().find(|l| !l.trim().is_empty() && !l.trim_start().starts_with(';'))?;
    let line = line.split(';').next()?;
    let tok: Vec<&str> = line.split_ascii_whitespace().collect();
    let owner: Labels = tok.first()?.trim_end_matches('.').split('.').filter(|s| !s.is_empty()).map(|s| s.as_bytes().to_vec()).collect();
    let p = tok.iter().position(|t| *t == "DNSKEY")?;
    let flags = tok.get(p + 1)?.parse().ok()?;
    let proto = tok.get(p + 2)?.parse().ok()?;
    let alg = tok.get(p + 3)?.parse().ok()?;
    let key = b64(&tok[p + 4..].concat())?;
    Some(KeyFile { owner, flags, proto, alg, key })
}

#[derive(Clone, Debug)]
pub struct DsFile {
    pub key_tag: u16,
    pub alg: u8,
    pub digest_type: u8,
    pub digest: Vec<u8>,
}

pub fn parse_ds_file(text: &str) -> Vec<DsFile> {
    let mut out = vec![];
    for line in text.lines() {
        let tok: Vec<&str> = line.split(';').next().unwrap_or("").split_ascii_whitespace().collect();
        let Some(p) = tok.iter().position(|t| *t == "DS") else { continue };
        let f = || -> Option<DsFile> {
            Some(DsFile {
                key_tag: tok.get(p + 1)?.parse().ok()?,
                alg: tok.get(p + 2)?.parse().ok()?,
                digest_type: tok.get(p + 3)?.parse().ok()?,
                digest: hex(&tok[p + 4..].concat())?,
            })
        };
        if let Some(d) = f() {
            out.push(d);
        }
    }
    out
}

//------------ self tests against RFC vectors --------------------------------------------------

/// Cross-checks of the reference code against published vectors; run once
/// per process by the fixture sub-check. Returns Err(description) on failure.
pub fn self_test() -> Result<(), String> {
    // RFC 4648 §10
    for (t, w) in [("", ""), ("Zg==", "f"), ("Zm8=", "fo"), ("Zm9v", "foo"), ("Zm9vYg==", "foob"), ("Zm9vYmE=", "fooba"), ("Zm9vYmFy", "foobar")] {
        if b64(t).as_deref() != Some(w.as_bytes()) {
            return Err(format!("base64 vector {t}"));
        }
    }
    // RFC 4034 §5.4: DNSKEY of dskey.example.com, key tag 60485, SHA-1 DS
    let key = b64(concat!(
        "AQOeiiR0GOMYkDshWoSKz9Xz", "fwJr1AYtsmx3TGkJaNXVbfi/", "2pHm822aJ5iI9BMzNXxeYCmZ", "DRD99WYwYqUSdjMmmAphXdvx",
        "egXd/M5+X7OrzKBaMbCVdFLU", "Uh6DhweJBjEVv5f2wwjM9Xzc", "nOf+EPbtG9DMBmADjFDc2w/r", "ljwvFw=="
    ))
    .ok_or("b64")?;
    let rd = dnskey_rdata(256, 3, 5, &key);
    if key_tag(&rd) != Some(60485) {
        return Err(format!("RFC 4034 5.4 key tag: {:?}", key_tag(&rd)));
    }
    let owner: Labels = vec![b"dskey".to_vec(), b"example".to_vec(), b"com".to_vec()];
    let want = hex("2BB183AF5F22588179A53B0A98631FAD1A292118").ok_or("hex")?;
    // hex() is lower/upper agnostic through from_str_radix
    if ds_digest(&owner, &rd, 1) != Some(want) {
        return Err("RFC 4034 5.4 DS digest".into());
    }
    // RFC 8080 §6.1 Ed25519 example: example.com. MX signed by key 3613
    let pk = b64("l02Woi0iS8Aa25FQkUd9RMzZHJpBoRQwAQEX1SxZJA4=").ok_or("b64")?;
    if key_tag(&dnskey_rdata(257, 3, 15, &pk)) != Some(3613) {
        return Err("RFC 8080 key tag".into());
    }
    let sig = b64("oL9krJun7xfBOIWcGHi7mag5/hdZrKWw15jPGrHpjQeRAvTdszaPD+QLs3fx8A4M3e23mRZ9VrbpMngwcrqNAg==").ok_or("b64")?;
    let mut mx = 10u16.to_be_bytes().to_vec();
    mx.extend_from_slice(b"\x04mail\x07example\x03com\x00");
    let ex: Labels = vec![b"example".to_vec(), b"com".to_vec()];
    let f = SigFields { type_covered: 15, alg: 15, labels: 2, orig_ttl: 3600, exp: 1440021600, inc: 1438207200, key_tag: 3613, signer: ex.clone() };
    let sd = signed_data(&f, &[RR { owner: ex, rtype: 15, class: 1, rdata: mx }])?;
    if verify(15, &pk, &sd, &sig) != Ok(true) {
        return Err("RFC 8080 6.1 signature does not verify over the reference signed data".into());
    }
    Ok(())
}
